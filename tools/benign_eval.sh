#!/bin/sh
# usage: tools/benign_eval.sh [files...]  — applies each behaviour-preserving refactoring to /repo, runs every quick check, restores /repo.
cd /verif || exit 3
files="$@"; [ -z "$files" ] && files=$(ls benign/*.diff)
for f in $files; do
  [ -z "$(git -C /repo status --porcelain)" ] || { echo "/repo not clean"; exit 3; }
  git -C /repo apply "/verif/$f" || { echo "$f: does not apply"; continue; }
  out=$(./check --all 2>&1 | grep "^VIOLATION\|^ANALYSIS-ERROR\|^  .* rule=" | cut -c1-400)
  git -C /repo checkout -- .
  if [ -z "$out" ]; then echo "$f: silent"; else echo "$f:"; echo "$out"; fi
done

#!/usr/bin/env python3
"""Regenerates /verif/MANIFEST.json from the per-property table below (claimed iff csa/rules/<id>.py exists)."""
import json
import os

HERE = os.path.dirname(os.path.dirname(os.path.abspath(__file__)))

PINNED = ("cd /repo && /venv/bin/python -m pytest -ra -q -p no:cacheprovider --timeout=900 "
          "--continue-on-collection-errors")

# id -> (technique, claimed text, level_note (not decided / trusted), design_ref)
PROPS = {
    "C01": ("abstract evaluation of the scoring routine on every (candidate, input ranking) pair of a small universe with "
            "intercepted dot products, giving the score as a linear form over B[i]/T[i]; compared with the definitional "
            "form modulo the equalities the scheme constructor enforces; call-graph rule for the refusal gate",
            "Decides, for every valid scheme at once (penalties stay symbolic), that the n.log n counting (merge-sort "
            "inversions, tie runs, missing-element prefix sums) yields the definitional pair-status counts for all "
            "candidates with ties over <= 3 elements (thorough: 4; quick adds a slice of 4) against all input rankings "
            "over subsets, that contributions add over rankings, that candidates over a superset are handled, that the "
            "result is vdot(s1,B)+vdot(s2,T), and that an incomplete candidate is refused before scoring with no caller "
            "swallowing the exception.",
            "NOT decided: universes beyond the bound (argued: bucket ids are only compared). Trusted: numpy "
            "sort/cumsum/concatenate/vdot as modelled in engines/stdlib.py.",
            "DESIGN.md section 3 C01"),
    "C02": ("abstract evaluation of the kernel over the 6 order types of a pair (finite table extraction) + def-use checks",
            "Decides, for every scheme and dataset, that the cost kernel implements exactly the definitional 6x3 penalty "
            "table with per-ranking weights, visits every unordered pair and ranking once, mirrors (y,x) from (x,y), uses "
            "positions only through comparisons (so positions and bucket ids give the same table), and that the unranked "
            "sentinel / B,T rows / matrix orientation agree between Dataset, Ranking, ScoringScheme and the wrapper.",
            "NOT decided separately: that selected entries sum to the Kemeny score (it is T1+T2 composed with C01). "
            "Trusted: numba nopython semantics, numpy broadcasting of `row * weights[:, newaxis]`.",
            "DESIGN.md section 3 C02"),
    "C03": ("structural rule on Consensus construction sites + end-to-end abstract evaluation of the real code of all "
            "twelve algorithm configurations on eight small datasets x four schemes x both flags (ideal ILP solver over "
            "the model the code builds, Tarjan components, scripted pivot)",
            "Decides well-formedness (>= 1 ranking, exactly one when asked, non-empty disjoint buckets, union = universe "
            "with element identity and type, Consensus bound to the caller's dataset) on the explored datasets, which "
            "cover int / string elements, all-digit components inside a string universe, incomplete data, ties, "
            "duplicates, an empty ranking and a single element; plus the KwikSort emission and at-most-one rules.",
            "NOT decided: what a real solver hands back; datasets beyond the explored ones (the structural clauses W1, "
            "W3, W4 hold for all). Trusted: solver returns a feasible optimum; igraph component order.",
            "DESIGN.md section 3 C03"),
    "C04": ("producer enumeration + abstract evaluation of every score producer (lazy path scenarios, BioConsert "
            "initial-score table with a symbolic cost matrix, local-search bookkeeping, selection scenarios, PuLP "
            "objective through a mock solver) + optional-value guard rule reading the dependency's source",
            "Decides for all inputs: the closed set of code sites that store a reported score; the lazy path computes "
            "a missing score from the first ranking with the object's own dataset and scheme and never overwrites a "
            "supplied one; every algorithm's Consensus carries the caller's dataset and scheme; BioConsert's initial "
            "score is the definitional sum over pairs with row-major strides; the local search returns the sum of "
            "accepted deltas; BioConsert / PickAPerm report the minimum they select; PuLP reports the objective value "
            "of the decoded assignment and never stores a None.",
            "NOT decided: float accumulation error of deltas; the number a real solver reports. Trusted: numba "
            "semantics; numpy as modelled.",
            "DESIGN.md section 3 C04"),
    "C05": ("ILP model extraction by abstract evaluation of both builders against mock solvers + triple-local model check "
            "(enumeration of all 0/1 assignments) + structural availability-gate rule",
            "Decides: the selector's fallback is live and CPLEX-only classes are constructed only behind an import gate; "
            "both models admit exactly the assignments induced by rankings with ties (n=3, thorough 4) and agree with "
            "each other; objective = before/tied cost slots, minimised; every solver answer is decoded to the ranking it "
            "encodes (single answer and solution pool); pruning constraints cut exactly the rankings violating the "
            "component order and the no-tie rule fires iff before+after-2*tied <= threshold for all pairs; optimize + "
            "all-rankings is refused before modelling; the optimised path projects each component keeping every ranking.",
            "NOT decided: optimality of what a solver returns; soundness of the pruning theorems; igraph component "
            "order. Triple-locality lemma is an argument.",
            "DESIGN.md section 3 C05"),
    "C06": ("abstract evaluation of ParCons on scripted component scenarios with stub sub-solvers (flag typestate, "
            "partition / consensus order, projection) + structural rule on optimality producers + cost-cube evaluation "
            "of the graph predicates",
            "Decides: NECESSARILY_OPTIMAL is True iff no component was delegated to the auxiliary algorithm, in any "
            "order of exact / auxiliary components; only exact back-ends store a literal True; the weak partition and the "
            "consensus list the components in order; sub-solvers get a projection with one (possibly empty) ranking per "
            "input ranking over exactly the component, the caller's scheme and at-most-one; the exact sub-solver exists "
            "with and without CPLEX; arc / all-tied predicates are in normal form.",
            "NOT decided: that an optimal consensus respects the partition and that concatenated optima are optimal "
            "(theorems over costs).",
            "DESIGN.md section 3 C06"),
    "C07": ("cost-cube evaluation of the numpy predicates over all weak orderings; abstract evaluation of the merge loop "
            "on component sequences x robust-arc sets against the fix-point; of the consistency walk on all "
            "(ordered partition, ranking) pairs over 3 elements",
            "Decides: robust arc iff before strictly cheapest; ParFront = fix-point of merging consecutive groups lacking "
            "a full set of robust arcs (order kept, head group re-examined, terminates); consistent_with terminates and "
            "answers 'earlier group strictly before later group' incl. degenerate inputs; ParCons partition = components "
            "in order.",
            "NOT decided: that every optimal consensus respects the partition (theorem); igraph component order.",
            "DESIGN.md section 3 C07"),
    "C08": ("exhaustive abstract evaluation of the local search on every dense bucket-id vector of <= 4 (thorough: 5) "
            "elements with a symbolic cost matrix and a policy for acceptance tests",
            "Decides the fix-point protocol, both neighbourhoods, negative thresholds, complete candidate coverage, that "
            "each tested accumulated value equals the definitional move delta, the highest-bucket bookkeeping, dense "
            "renumbering after a move and absence of out-of-range indexing - for every cost matrix, on all order types "
            "of bucket-id vectors of the bounded universe.",
            "NOT decided: float accumulation error. Small-scope argument for larger universes is an argument.",
            "DESIGN.md section 3 C08"),
    "C09": ("abstract evaluation of the departure-ranking builder on scenarios whose derived datasets number elements "
            "differently from the caller (id-space agreement), plus the C04/C08 tables",
            "Decides that every starting row is encoded with the caller's element ids, that the start set is every "
            "distinct unified ranking plus the all-tied row or one row per starter computed on the caller's inputs, "
            "that initial scores are definitional, that only strictly improving moves are applied, and that exactly "
            "the minimal rows are returned.",
            "NOT decided: numeric agreement of float deltas; that starters return complete rankings (C03).",
            "DESIGN.md section 3 C09"),
    "C10": ("abstract evaluation of the scan over all weak orderings of candidate scores x flags x completeness, of the "
            "guard, of Dataset.unified_rankings; shared equivalence rule",
            "Decides: refusal iff incomplete and not equivalent to the unifying scheme; exactly the minimal candidates "
            "are returned (one when asked) with their score; candidates are scored against the caller's dataset / scheme; "
            "unified candidates are new rankings = buckets + one last bucket of exactly the missing elements.",
            "NOT decided: the numeric score of each candidate (C01).",
            "DESIGN.md section 3 C10"),
    "C11": ("abstract evaluation of the vectorised status counts with symbolic B/T over one-, two- and three-ranking "
            "worlds, of the decision tree over the 13 weak orderings of three costs, and of the three-way partition over "
            "all 27 sign assignments",
            "Decides the per-step placement rule for every dataset, scheme and pivot.",
            "NOT decided: the mathematical implication from the placement rule to pivot independence.",
            "DESIGN.md section 3 C11"),
    "C12": ("abstract evaluation of the real compute method on small datasets x scheme families x both variants against "
            "the mean-score definition computed with exact fractions",
            "Decides refusal, unified-vs-raw choice, per-ranking score, mean, ascending order and grouping.",
            "NOT decided: float equality of equal means (IEEE argument).",
            "DESIGN.md section 3 C12"),
    "C13": ("abstract evaluation of the pair counter over the order types of (before, after) and of the "
            "ordering/grouping code over the 13 weak orderings of three scores",
            "Decides the counting rule, descending order with grouping, and feature dictionaries keyed by the same id map.",
            "Trusted: numpy argsort.",
            "DESIGN.md section 3 C13"),
    "C14": ("resolved-call-graph arity conformance + abstract evaluation of predicates, names and guards on real instances "
            "of 17 algorithm configurations x 12 schemes x {CPLEX absent, present}",
            "Decides: every resolved intra-package call fits its callees; predicates answer the documented bool without "
            "failing; Borda / PickAPerm / BioConsert-from-them refuse incomplete data exactly when the predicate is False "
            "and never complete data; no other refusal is reachable from a compute path; delegation rules.",
            "NOT decided: well-formedness after the guard (C03).",
            "DESIGN.md section 3 C14"),
    "C15": ("interprocedural effects / alias / freshness analysis (field-sensitive summaries to a fix-point over the "
            "resolved call graph) + before/after snapshots of evaluated instances",
            "Decides for all inputs: no mutation sink is reachable on state aliasing the dataset / ranking / scheme "
            "arguments of every entry point; non-mutator methods of the data classes never write self; compute never "
            "writes the algorithm object; randomness only through the KwikSort pivot. Snapshots confirm on evaluated "
            "instances, and a second run returns the same consensus.",
            "Trusted: numpy/numba functions write only what the in-place table says.",
            "DESIGN.md section 3 C15"),
    "C16": ("type-based structural rule (Ranking internals frozen) + abstract evaluation of the real Element / Ranking / "
            "Dataset code on model instances: invariants after construction and after every mutation history of "
            "length 2 (thorough 3), failure atomicity, derived datasets",
            "Decides U1 for all programs; the invariants, documented effects and atomic refusals on the explored "
            "histories from six start datasets; unification and projection semantics.",
            "NOT decided: histories longer than the bound (each step re-establishes the invariants from the rankings alone).",
            "DESIGN.md section 3 C16"),
    "C17": ("taint rule over the call graph (rendering / set-order sources vs equality results) + abstract evaluation of "
            "the real __eq__ / __hash__ bodies on pairs",
            "Decides that no text rendering or set iteration order can reach an equality result; equality semantics of "
            "Element, Ranking and Dataset (multiset of rankings) incl. symmetry and reflexivity on explored pairs.",
            "Set iteration order is canonical in the evaluator; Y1 is what rules it out in the real code.",
            "DESIGN.md section 3 C17"),
    "C18": ("bounded abstract evaluation of the real parser on all strings over the format alphabet up to length 3 "
            "(thorough 5) + structural scanner-progress and subscript-safety rules + round trips on a fake file system",
            "Decides totality (parse or ValueError) on the bounded strings, loop progress and index safety for any "
            "length, text round trip for all rankings with ties over <= 3 elements in both notations, file round trip "
            "incl. empty rankings, and writer/reader line-filter agreement.",
            "NOT decided: round trips beyond the bound.",
            "DESIGN.md section 3 C18"),
    "C19": ("abstract evaluation of the constructor over a grid realising every order type of the constrained entries, "
            "of scaling with symbolic penalties, of the proportionality test over a pool of table pairs, of preset "
            "builders / nickname dispatch",
            "Decides the validation truth table and exception classes, fresh storage, scaling, equivalence and nicknames.",
            "NOT decided: homogeneity of scores under scaling, float exactness of ratios.",
            "DESIGN.md section 3 C19"),
    "C20": ("exhaustive abstract evaluation of every Markov step from every dense (and partially unranked) bucket-id "
            "vector of <= 4 (thorough 5) elements, every element, every draw; of the conversion and the wrappers",
            "Decides density preservation per step (hence for every walk), no unranking in complete mode, exact missing "
            "set, draw ranges, vector-to-buckets conversion, uniform permutations and wrapper argument passing.",
            "NOT decided: the distribution; n = 0.",
            "DESIGN.md section 3 C20"),
}

# additions of the strengthening rounds: (extra technique, extra claim) appended to the entries above
EXTRA = {
    "C01": ("histories of calls on one scoring object; larger pairs up to 13 elements",
            "Also: one factory scoring a dataset that is mutated in place / other datasets in between (R5); pairs with 9+ buckets."),
    "C02": ("evaluation of the wrapper and of the matrix accessors on real instances with the kernel intercepted",
            "Also: the position / bucket-id matrices are (elements x rankings) with -1 exactly where unranked and ordered like "
            "the buckets; several schemes in a row through the same wrapper; matrices recomputed after every mutator (T5)."),
    "C03": ("exhaustive projection rule; one algorithm object reused on several datasets",
            "Also: sub_problem_from_elements = definitional projection for every kept subset (W5); every algorithm object "
            "reused on six datasets in a row (W6)."),
    "C04": ("bounded end-to-end evaluation against a definitional oracle, histories on shared objects with late reads, "
            "ideal PuLP / CPLEX stand-in solvers; move deltas of the local search (C08/L5, L7); decoding of solver answers on a "
            "12-element universe and of a 290-bucket row",
            "Also (C04/E): every configuration (CPLEX API absent and present) on curated datasets, and along a history of calls "
            "on shared objects; scores returned earlier are read again at the end."),
    "C05": ("bounded end-to-end evaluation with ideal PuLP / CPLEX stand-in solvers over the recorded model; igraph "
            "component numbering modelled faithfully",
            "Also (C05/E): optimised / non-optimised / paper-optimisation CPLEX models, the selector and the PuLP model reach the "
            "oracle's optimum on curated datasets (several incomparable components included); all-optima request on the "
            "non-optimised model = the oracle's minimisers; one object reused along a history."),
    "C06": ("bounded end-to-end evaluation against the oracle (CPLEX API absent / present), histories with in-place mutation",
            "Also (C06/E): partition admits an optimum, flagged results are optimal, along histories on shared objects."),
    "C07": ("the real partition code on a real Dataset with a scripted cost cube: cascade families over 5-7 groups, big "
            "consecutive groups",
            "Also: Q2 on cascade families (first fusion anywhere, d groups absorbed backwards, following boundary) and on "
            "groups with 10 / 12 cross pairs."),
    "C08": ("relative comparisons written as combinations of the accepted gains; bounded end-to-end evaluation with histories; "
            "decoding of a 290-bucket final row (L8)",
            "Also: a comparison between cost-dependent values whose outcome the signs of the gains do not force is explored "
            "both ways with two accepted moves in different sweeps (L1 relative-exit)."),
    "C09": ("numpy array text modelled (elision beyond 1000 items); 1003-element scenario; departure rows of real BioConsert "
            "objects built from real starting algorithms (same-named starters included); move deltas (C08/L5, L7)",
            "Also: two 1003-element rankings differing in the middle are both departure points (N3)."),
    "C10": ("real entry point on a real Dataset with the scorer scripted; 1003-element scenario; real-valued score profiles; "
            "completeness flag for 1..26, 100, 257, 300 rankings",
            "Also: K6 long rankings keep their own scores; K5 after mutators."),
    "C11": ("orderings at three magnitudes; placement routine on a real object: symbolic costs and numeric decisions over several "
            "rankings; emission on 4 and 7 elements with a consistent placement oracle; any source of randomness",
            "Also: V2 at 1e9- and 1e-9-scale costs (exact comparison); V4 by evaluation on real instances."),
    "C12": ("datasets with equal exact means over different numbers of rankings",
            "Also (C12/E): elements with the same exact mean over different presence counts are tied."),
    "C13": ("the counter on concrete cost cubes (three magnitudes, 130 elements); wiring on real instances",
            "Also: O1 at 1e9 / 1e-9 scale, O2 coverage for 4, 7 and 130 elements."),
    "C14": ("complete-by-mutation datasets; shared termination obligations of the local search; accepted schemes are computed "
            "end to end (C03/W2 datasets)",
            "Also: datasets that became complete through in-place removals are never refused (A3); A6 = C08/L1, L3."),
    "C15": ("sequences on shared objects compared with runs on fresh objects",
            "Also: I6 a sequence of runs on one algorithm / Dataset / scheme object equals runs on fresh objects, step by "
            "step; I3 (writes to the algorithm object) is recorded, not a violation."),
    "C16": ("independence of derived datasets, wide matrices with integer dtype ranges, flags for 1..26 rankings",
            "Also: U6 a derived dataset and its source do not share state; projection on every kept subset; a 130-bucket "
            "ranking; flags and sizes for every number of rankings from 1 to 26."),
    "C17": ("type-based refinement of the rendering taint; equality after in-place modification",
            "Also: Y4 compare, modify in place, compare again; Y1 counts a rendering only when the rendered value may hold a set."),
    "C18": ("static ambiguity analysis of regular expressions (stdlib regex parser, automaton product search)",
            "Also: P5 no regular expression of the parsing modules has an exponentially ambiguous loop (no hang by backtracking)."),
    "C19": ("exact products and presets on real instances; scale-free equivalence pool",
            "Also: products exact for factors from 1e-13 to 1e9; equivalence pool with 2^-34 / 2^40 multiples; presets and "
            "nickname by evaluation on real instances."),
    "C20": ("constructor flags for 1..26 complete rankings",
            "Also: M6 the Dataset built from m complete rankings is flagged complete for every m from 1 to 26."),
}


def main():
    checks = []
    na = []
    for i in range(1, 21):
        pid = f"C{i:02d}"
        have = os.path.exists(os.path.join(HERE, "csa", "rules", f"{pid}.py")) and pid in PROPS
        if not have:
            na.append({"property_id": pid, "reason": "static check not built yet in this session (design in DESIGN.md "
                                                     "section 3); not claimed until its rules exist"})
            continue
        tech, text, note, ref = PROPS[pid]
        if pid in EXTRA:
            tech = tech + "; " + EXTRA[pid][0]
            text = text + " " + EXTRA[pid][1]
        checks.append({
            "property_id": pid,
            "quick_cmd": f"./check {pid} --tier quick",
            "thorough_cmd": f"./check {pid} --tier thorough",
            "evidence_file": f"/verif/evidence/{pid}.json",
            "replay_cmd_template": "./check --replay {path}",
            "engine": "csa",
            "technique": "static analysis: " + tech,
            "level_claimed": {"category": "other", "text": text, "design_ref": ref},
            "level_note": note,
        })
    extra_na = globals().get("NOT_APPLICABLE", {})
    manifest = {
        "version": 1,
        "setup_cmd": "python3-vt -m compileall -q csa >/dev/null 2>&1; ./check --selfcheck",
        "hooks": {
            "guard": "CORANKCO_VERIF",
            "enable": "none: static analysis reads /repo's source, no instrumentation is compiled in",
            "baseline_off_cmd": PINNED,
            "source_commits": [],
            "add_only": True,
        },
        "engines": [{
            "name": "csa",
            "path": "csa/",
            "serves_properties": [c["property_id"] for c in checks],
            "kind_free_text": "repository-specific static analyser: ast loader with import/class/MRO resolution, "
                              "annotation-driven types, resolved call graph (CHA), abstract evaluator over finite order "
                              "types and linear forms, structured dataflow; stdlib only",
        }],
        "checks": checks,
        "not_applicable": na,
        "notes": "Exit codes of ./check: 0 hold or only KNOWN-FINDING lines; 1 with a VIOLATION line; 2 ANALYSIS-ERROR "
                 "(anchor vanished / idiom not understood / instance floor not met) - never a VIOLATION line. Fixed and "
                 "known defects: KNOWN_FINDINGS.txt.",
    }
    with open(os.path.join(HERE, "MANIFEST.json"), "w") as fh:
        json.dump(manifest, fh, indent=1)
        fh.write("\n")
    print(f"claimed {len(checks)}, not applicable {len(na)}")


if __name__ == "__main__":
    main()

#!/usr/bin/env python3
"""Regenerates /verif/MANIFEST.json from the per-property table below (claimed iff csa/rules/<id>.py exists)."""
import json
import os

HERE = os.path.dirname(os.path.dirname(os.path.abspath(__file__)))

PINNED = ("cd /repo && /venv/bin/python -m pytest -ra -q -p no:cacheprovider --timeout=900 "
          "--continue-on-collection-errors")

# id -> (technique, claimed text, level_note (not decided / trusted), design_ref)
PROPS = {
    "C01": ("must-pass-through gate + def-use role pairing + slot coverage modulo extracted scheme constraints (ast)",
            "Decides structural necessary conditions of the score definition for all inputs: the completeness gate "
            "dominates scoring and its exception is not swallowed; the two count vectors are dotted with B and T in "
            "that order; every counter slot that is never written is justified by a constraint the scheme constructor "
            "enforces; prefix/suffix missing-element arrays feed the right slots.",
            "NOT decided: numeric correctness of the n.log n inversion / run-length counting. Trusted: numpy vdot/cumsum.",
            "DESIGN.md section 3 C01"),
    "C02": ("abstract evaluation of the kernel over the 6 order types of a pair (finite table extraction) + def-use checks",
            "Decides, for every scheme and dataset, that the cost kernel implements exactly the definitional 6x3 penalty "
            "table with per-ranking weights, visits every unordered pair and ranking once, mirrors (y,x) from (x,y), uses "
            "positions only through comparisons (so positions and bucket ids give the same table), and that the unranked "
            "sentinel / B,T rows / matrix orientation agree between Dataset, Ranking, ScoringScheme and the wrapper.",
            "NOT decided: that selected entries sum to the Kemeny score (composition with C01's numeric core). "
            "Trusted: numba nopython semantics, numpy broadcasting of `row * weights[:, newaxis]`.",
            "DESIGN.md section 3 C02"),
    "C04": ("abstract evaluation of the score producers (lazy path scenarios, BioConsert initial-score table with a "
            "symbolic cost matrix, local-search delta bookkeeping, selection scenarios) + producer enumeration + "
            "optional-value guard rule reading the dependency's source",
            "Decides for all inputs: which code stores a reported score (closed set of producers), that the lazy path "
            "computes the missing score from the first ranking with the object's own dataset and scheme and never "
            "overwrites a supplied one, that every algorithm's Consensus carries the caller's dataset and scheme, that "
            "BioConsert's initial score is the definitional sum over pairs with row-major strides, that the local "
            "search returns the sum of accepted deltas, that BioConsert reports the minimum final score, and that a "
            "possibly-None solver value is never stored unguarded.",
            "NOT decided: float accumulation error of deltas; the number a solver reports as objective value. Trusted: "
            "numba nopython semantics; numpy amin/where/flatten/reshape as modelled in rules/bioc.py.",
            "DESIGN.md section 3 C04"),
    "C08": ("exhaustive abstract evaluation of the local search on every dense bucket-id vector of <= 4 (thorough: 5) "
            "elements with a symbolic cost matrix and a policy for acceptance tests",
            "Decides the fix-point protocol, both neighbourhoods, the negative thresholds, complete candidate coverage, "
            "that each tested accumulated value equals the definitional move delta, the highest-bucket bookkeeping, "
            "dense renumbering after a move and absence of out-of-range indexing - for every cost matrix, on all order "
            "types of bucket-id vectors of the bounded universe (ids are only compared and shifted by one, so larger "
            "universes add no new guard combination).",
            "NOT decided: float accumulation error. Small-scope argument for universes > 5 elements is an argument, not "
            "a check. Trusted: numba nopython semantics.",
            "DESIGN.md section 3 C08"),
    "C09": ("abstract evaluation of the departure-ranking builder on scenarios whose derived datasets number "
            "elements differently from the caller (id-space agreement), plus the C04/C08 tables",
            "Decides that every starting row is encoded with the caller's element ids (the ids the cost matrix and the "
            "decoder use), that the start set is every distinct unified ranking plus the all-tied row or one row per "
            "starter computed on the caller's inputs, that initial scores are definitional, that only strictly "
            "improving moves are applied, and that exactly the minimal rows are returned.",
            "NOT decided: numeric agreement of float deltas; that starters return complete rankings (C03).",
            "DESIGN.md section 3 C09"),
    "C11": ("abstract evaluation of the vectorised status counts with symbolic B/T over one-, two- and three-ranking "
            "worlds, of the decision tree over the 13 weak orderings of three costs, and of the three-way partition "
            "over all 27 sign assignments",
            "Decides the per-step placement rule for every dataset, scheme and pivot: the three costs are the "
            "definitional before/tied/after costs, tie is chosen iff cheapest (ties preferred) else before iff <= after, "
            "negative/zero/positive go before/with/after the pivot exactly once, and the pivot is drawn from the "
            "remaining elements.",
            "NOT decided: the mathematical implication from the placement rule to pivot independence for coherent "
            "preferences. Trusted: numpy count_nonzero/vdot on integer vectors.",
            "DESIGN.md section 3 C11"),
    "C13": ("abstract evaluation of the pair counter over the order types of (before, after) and of the "
            "ordering/grouping code over the 13 weak orderings of three scores",
            "Decides the counting rule (1 / 0.5 / 0 and the victory-equality-defeat columns, each unordered pair once, "
            "tie slot irrelevant), the descending order with grouping of equal scores, and that the feature "
            "dictionaries are the same arrays keyed by the same id map - for every dataset and scheme.",
            "Trusted: numpy argsort (any stable or unstable order among equal scores gives the same buckets).",
            "DESIGN.md section 3 C13"),
    "C19": ("abstract evaluation of the constructor over a grid realising every order type of the constrained entries "
            "(finite truth table), of scaling with symbolic penalties, of the proportionality test over a pool of "
            "table pairs, and of preset builders / nickname dispatch",
            "Decides the validation truth table and exception classes, fresh storage, scaling through the validating "
            "constructor with self untouched, equivalence = positive multiple on both vectors over the compared "
            "prefix, the documented preset tables and the nickname of each preset.",
            "NOT decided: homogeneity of Kemeny scores under scaling (linear algebra), float exactness of ratios.",
            "DESIGN.md section 3 C19"),
}


def main():
    checks = []
    na = []
    for i in range(1, 21):
        pid = f"C{i:02d}"
        have = os.path.exists(os.path.join(HERE, "csa", "rules", f"{pid}.py")) and pid in PROPS
        if not have:
            na.append({"property_id": pid, "reason": "static check not built yet in this session (design in DESIGN.md "
                                                     "section 3); not claimed until its rules exist"})
            continue
        tech, text, note, ref = PROPS[pid]
        checks.append({
            "property_id": pid,
            "quick_cmd": f"./check {pid} --tier quick",
            "thorough_cmd": f"./check {pid} --tier thorough",
            "evidence_file": f"/verif/evidence/{pid}.json",
            "replay_cmd_template": "./check --replay {path}",
            "engine": "csa",
            "technique": "static analysis: " + tech,
            "level_claimed": {"category": "other", "text": text, "design_ref": ref},
            "level_note": note,
        })
    extra_na = globals().get("NOT_APPLICABLE", {})
    manifest = {
        "version": 1,
        "setup_cmd": "python3-vt -m compileall -q csa >/dev/null 2>&1; ./check --selfcheck",
        "hooks": {
            "guard": "CORANKCO_VERIF",
            "enable": "none: static analysis reads /repo's source, no instrumentation is compiled in",
            "baseline_off_cmd": PINNED,
            "source_commits": [],
            "add_only": True,
        },
        "engines": [{
            "name": "csa",
            "path": "csa/",
            "serves_properties": [c["property_id"] for c in checks],
            "kind_free_text": "repository-specific static analyser: ast loader with import/class/MRO resolution, "
                              "annotation-driven types, resolved call graph (CHA), abstract evaluator over finite order "
                              "types and linear forms, structured dataflow; stdlib only",
        }],
        "checks": checks,
        "not_applicable": na,
        "notes": "Exit codes of ./check: 0 hold or only KNOWN-FINDING lines; 1 with a VIOLATION line; 2 ANALYSIS-ERROR "
                 "(anchor vanished / idiom not understood / instance floor not met) - never a VIOLATION line. Fixed and "
                 "known defects: KNOWN_FINDINGS.txt.",
    }
    with open(os.path.join(HERE, "MANIFEST.json"), "w") as fh:
        json.dump(manifest, fh, indent=1)
        fh.write("\n")
    print(f"claimed {len(checks)}, not applicable {len(na)}")


if __name__ == "__main__":
    main()

#!/usr/bin/env python3
"""Regenerates /verif/MANIFEST.json from the per-property table below (claimed iff csa/rules/<id>.py exists)."""
import json
import os

HERE = os.path.dirname(os.path.dirname(os.path.abspath(__file__)))

PINNED = ("cd /repo && /venv/bin/python -m pytest -ra -q -p no:cacheprovider --timeout=900 "
          "--continue-on-collection-errors")

# id -> (technique, claimed text, level_note (not decided / trusted), design_ref)
PROPS = {
    "C01": ("must-pass-through gate + def-use role pairing + slot coverage modulo extracted scheme constraints (ast)",
            "Decides structural necessary conditions of the score definition for all inputs: the completeness gate "
            "dominates scoring and its exception is not swallowed; the two count vectors are dotted with B and T in "
            "that order; every counter slot that is never written is justified by a constraint the scheme constructor "
            "enforces; prefix/suffix missing-element arrays feed the right slots.",
            "NOT decided: numeric correctness of the n.log n inversion / run-length counting. Trusted: numpy vdot/cumsum.",
            "DESIGN.md section 3 C01"),
    "C02": ("abstract evaluation of the kernel over the 6 order types of a pair (finite table extraction) + def-use checks",
            "Decides, for every scheme and dataset, that the cost kernel implements exactly the definitional 6x3 penalty "
            "table with per-ranking weights, visits every unordered pair and ranking once, mirrors (y,x) from (x,y), uses "
            "positions only through comparisons (so positions and bucket ids give the same table), and that the unranked "
            "sentinel / B,T rows / matrix orientation agree between Dataset, Ranking, ScoringScheme and the wrapper.",
            "NOT decided: that selected entries sum to the Kemeny score (composition with C01's numeric core). "
            "Trusted: numba nopython semantics, numpy broadcasting of `row * weights[:, newaxis]`.",
            "DESIGN.md section 3 C02"),
}


def main():
    checks = []
    na = []
    for i in range(1, 21):
        pid = f"C{i:02d}"
        have = os.path.exists(os.path.join(HERE, "csa", "rules", f"{pid}.py")) and pid in PROPS
        if not have:
            na.append({"property_id": pid, "reason": "static check not built yet in this session (design in DESIGN.md "
                                                     "section 3); not claimed until its rules exist"})
            continue
        tech, text, note, ref = PROPS[pid]
        checks.append({
            "property_id": pid,
            "quick_cmd": f"./check {pid} --tier quick",
            "thorough_cmd": f"./check {pid} --tier thorough",
            "evidence_file": f"/verif/evidence/{pid}.json",
            "replay_cmd_template": "./check --replay {path}",
            "engine": "csa",
            "technique": "static analysis: " + tech,
            "level_claimed": {"category": "other", "text": text, "design_ref": ref},
            "level_note": note,
        })
    extra_na = globals().get("NOT_APPLICABLE", {})
    manifest = {
        "version": 1,
        "setup_cmd": "python3-vt -m compileall -q csa >/dev/null 2>&1; ./check --selfcheck",
        "hooks": {
            "guard": "CORANKCO_VERIF",
            "enable": "none: static analysis reads /repo's source, no instrumentation is compiled in",
            "baseline_off_cmd": PINNED,
            "source_commits": [],
            "add_only": True,
        },
        "engines": [{
            "name": "csa",
            "path": "csa/",
            "serves_properties": [c["property_id"] for c in checks],
            "kind_free_text": "repository-specific static analyser: ast loader with import/class/MRO resolution, "
                              "annotation-driven types, resolved call graph (CHA), abstract evaluator over finite order "
                              "types and linear forms, structured dataflow; stdlib only",
        }],
        "checks": checks,
        "not_applicable": na,
        "notes": "Exit codes of ./check: 0 hold or only KNOWN-FINDING lines; 1 with a VIOLATION line; 2 ANALYSIS-ERROR "
                 "(anchor vanished / idiom not understood / instance floor not met) - never a VIOLATION line. Fixed and "
                 "known defects: KNOWN_FINDINGS.txt.",
    }
    with open(os.path.join(HERE, "MANIFEST.json"), "w") as fh:
        json.dump(manifest, fh, indent=1)
        fh.write("\n")
    print(f"claimed {len(checks)}, not applicable {len(na)}")


if __name__ == "__main__":
    main()

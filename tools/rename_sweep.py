#!/usr/bin/env python3
"""
Robustness sweep (development tool, not a registered check): every private function / method of the package is renamed
consistently (in memory), and the properties anchored in the touched files are re-decided. A behaviour-preserving rename
must never give a VIOLATION (exit-1 equivalent); an ANALYSIS-ERROR (anchor not recognised) is tolerated but listed.
Usage: python3-vt tools/rename_sweep.py [max]
"""
import json, os, re, sys
from concurrent.futures import ProcessPoolExecutor
sys.path.insert(0, os.path.dirname(os.path.dirname(os.path.abspath(__file__))))
from csa.loader import Project, AnalysisError, REPO_ROOT      # noqa: E402
from csa.main import run_rules, anchor_files, ALL              # noqa: E402
from csa.report import Result                                   # noqa: E402


def candidates():
    proj = Project()
    out = []
    for f in proj.all_functions():
        n = f.name
        if n.startswith("_") and not (n.startswith("__") and n.endswith("__")):
            out.append((n, f.cls.name if f.cls is not None else None, f.module.relpath))
    seen, res = set(), []
    for n, c, p in out:
        if n not in seen:
            seen.add(n)
            res.append((n, c, p))
    return res, proj.sources


def one(job):
    name, cls, relpath, sources = job
    new = name + "_rn"
    overlay = {}
    pat = re.compile(r"(?<![A-Za-z0-9_])" + re.escape(name) + r"(?![A-Za-z0-9_])")
    for p, src in sources.items():
        s2 = pat.sub(new, src)
        if name.startswith("__") and cls:
            s2 = s2.replace(f"_{cls}{name}", f"_{cls}{new}")
        if s2 != src:
            overlay[p] = s2
    touched = set(overlay)
    props = [p for p in ALL if touched & set(anchor_files(p))] or ALL
    rows = []
    for prop in props:
        Result.registry.clear()
        try:
            proj = Project(overlay=overlay)
            res = run_rules(prop, proj, "quick", 0)
            if res.violations:
                v = res.violations[0]
                rows.append((prop, 1, f"{v.rule} {v.key}: {v.detail[:200]}"))
            else:
                rows.append((prop, 0, ""))
        except AnalysisError as exc:
            partial = [r for r in Result.registry if r.prop == prop and r.violations]
            if partial:
                v = partial[0].violations[0]
                rows.append((prop, 1, f"{v.rule} {v.key}: {v.detail[:200]}"))
            else:
                rows.append((prop, 2, str(exc)[:200]))
        except Exception as exc:        # noqa
            rows.append((prop, 2, "internal: " + repr(exc)[:200]))
    return name, relpath, rows


if __name__ == "__main__":
    cands, sources = candidates()
    if len(sys.argv) > 1:
        cands = [c for c in cands if any(a in c[2] for a in sys.argv[1:])]
    jobs = [(n, c, p, sources) for n, c, p in cands]
    bad = 0
    with ProcessPoolExecutor(max_workers=6) as ex:
        for name, relpath, rows in ex.map(one, jobs):
            line = " ".join(f"{p}:{rc}" for p, rc, _ in rows)
            print(f"{relpath}:{name}  {line}", flush=True)
            for p, rc, info in rows:
                if rc == 1:
                    bad += 1
                    print(f"    FALSE-VIOLATION {p}: {info}", flush=True)
                elif rc == 2:
                    print(f"    analysis-error {p}: {info}", flush=True)
    print("false violations:", bad)

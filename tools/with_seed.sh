#!/bin/sh
# usage: tools/with_seed.sh <seed-name> <command...>   — applies the seed to /repo, runs the command in /verif, restores /repo
seed="$1"; shift
cd /verif || exit 3
[ -z "$(git -C /repo status --porcelain)" ] || { echo "/repo not clean"; exit 3; }
git -C /repo apply "/verif/seeded/$seed/patch.diff" || exit 3
"$@"; rc=$?
git -C /repo checkout -- .
git -C /repo clean -fdq -- corankco 2>/dev/null
exit $rc

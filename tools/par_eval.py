#!/usr/bin/env python3
"""Regression tool: evaluate many patches in parallel, each on its own scratch worktree of /repo (never on /repo itself).

  tools/par_eval.py benign <diff files...>   every quick check on each refactoring; prints the non-silent (file, property)
  tools/par_eval.py seeds [seed dirs...]     the seed's own property on each seed; prints the seeds that are not exit 1

Scratch worktrees are created under /tmp/par_eval and removed at the end; evidence goes to a scratch directory
(CSA_EVIDENCE_DIR), so /verif/evidence is left to the registered commands.
"""
import json
import os
import shutil
import subprocess
import sys
from concurrent.futures import ThreadPoolExecutor

VERIF = os.path.dirname(os.path.dirname(os.path.abspath(__file__)))
ROOT = "/tmp/par_eval"
PROPS = [f"C{i:02d}" for i in range(1, 21)]


def sh(*cmd, **kw):
    return subprocess.run(cmd, capture_output=True, text=True, **kw)


def make_worktree(k):
    wt = f"{ROOT}/wt{k}"
    if os.path.isdir(wt):
        sh("git", "-C", "/repo", "worktree", "remove", "--force", wt)
    r = sh("git", "-C", "/repo", "worktree", "add", "--detach", wt, "HEAD")
    if r.returncode:
        raise SystemExit(r.stderr)
    return wt


def run_checks(wt, patch, props):
    sh("git", "-C", wt, "checkout", "--", ".")
    sh("git", "-C", wt, "clean", "-fdq")
    r = sh("git", "-C", wt, "apply", patch)
    if r.returncode:
        return [(None, 3, f"does not apply: {r.stderr.strip()[:200]}")]
    out = []
    ev = f"{wt}.evidence"
    env = dict(os.environ, CSA_REPO=wt, CSA_EVIDENCE_DIR=ev, PYTHONDONTWRITEBYTECODE="1")
    for p in props:
        r = sh(os.path.join(VERIF, "check"), p, env=env, cwd=VERIF)
        lines = [l for l in r.stdout.splitlines() if l.startswith(("VIOLATION", "ANALYSIS-ERROR", "  corankco", "  csa"))]
        out.append((p, r.returncode, " ".join(lines[:2])[:400]))
    sh("git", "-C", wt, "checkout", "--", ".")
    sh("git", "-C", wt, "clean", "-fdq")
    shutil.rmtree(ev, ignore_errors=True)
    return out


def main():
    mode, items = sys.argv[1], sys.argv[2:]
    jobs = []
    if mode == "benign":
        jobs = [(os.path.abspath(f), PROPS, f) for f in items]
    else:
        seeds = items or sorted(os.listdir(os.path.join(VERIF, "seeded")))
        for s in seeds:
            d = os.path.join(VERIF, "seeded", os.path.basename(s.rstrip("/")))
            if os.path.isfile(os.path.join(d, "patch.diff")):
                prop = json.load(open(os.path.join(d, "meta.json")))["property"]
                jobs.append((os.path.join(d, "patch.diff"), [prop], os.path.basename(d)))
    nw = int(os.environ.get("PAR", "5"))
    os.makedirs(ROOT, exist_ok=True)
    wts = [make_worktree(k) for k in range(nw)]
    free = list(wts)
    bad = 0

    def work(job):
        patch, props, label = job
        wt = free.pop()
        try:
            return label, run_checks(wt, patch, props)
        finally:
            free.append(wt)
    try:
        with ThreadPoolExecutor(max_workers=nw) as ex:
            for label, results in ex.map(work, jobs):
                for p, rc, text in results:
                    expected = 0 if mode == "benign" else 1
                    if rc != expected:
                        bad += 1
                        print(f"{label} {p} exit={rc} {text}", flush=True)
    finally:
        for wt in wts:
            sh("git", "-C", "/repo", "worktree", "remove", "--force", wt)
        shutil.rmtree(ROOT, ignore_errors=True)
    print(f"done: {len(jobs)} patches, {bad} unexpected outcome(s)")
    return 1 if bad else 0


if __name__ == "__main__":
    sys.exit(main())

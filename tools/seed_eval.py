#!/usr/bin/env python3
"""
Evaluate independently written property-breaking changes ("seeds").

  tools/seed_eval.py verify <src_seed_dir> <worktree> <PROP> <name>
        confirm in the scratch worktree that (clean: demo passes) and (patched: the 52 pinned tests pass, demo
        fails); copy patch.diff / demo.py / meta.json to /verif/seeded/<name>/.
  tools/seed_eval.py check [name ...]
        for each kept seed: git apply to /repo, run ./check for its property (and optionally all), git checkout,
        record the outcome in /verif/seeded/<name>/result.json; regenerate /verif/seeded/README.md.
Never commits anything to /repo; always restores it.
"""
import json
import os
import shutil
import subprocess
import sys

VERIF = os.path.dirname(os.path.dirname(os.path.abspath(__file__)))
SEEDED = os.path.join(VERIF, "seeded")
PY = "/venv/bin/python"


def sh(cmd, cwd=None, env=None, timeout=1800):
    e = dict(os.environ)
    if env:
        e.update(env)
    r = subprocess.run(cmd, cwd=cwd, env=e, shell=isinstance(cmd, str), capture_output=True, text=True, timeout=timeout)
    return r.returncode, r.stdout + r.stderr


def clean_pycache(root):
    sh(f"find {root} -name __pycache__ -type d -prune -exec rm -rf {{}} +")


def verify(src, wt, prop, name):
    patch = os.path.join(src, "patch.diff")
    demo = os.path.join(src, "demo.py")
    assert os.path.exists(patch) and os.path.exists(demo), "patch.diff / demo.py missing"
    env = {"PYTHONPATH": wt}
    sh("git checkout -- .", cwd=wt)
    clean_pycache(wt)
    rc0, out0 = sh([PY, demo], cwd=src, env=env, timeout=900)
    rc, out = sh(["git", "apply", "--check", patch], cwd=wt)
    if rc != 0:
        return {"ok": False, "why": "patch does not apply: " + out[-300:]}
    sh(["git", "apply", patch], cwd=wt)
    clean_pycache(wt)
    rct, outt = sh([PY, "-m", "pytest", "-q", "-p", "no:cacheprovider", "--timeout=900"], cwd=wt, env=env, timeout=1800)
    rc1, out1 = sh([PY, demo], cwd=src, env=env, timeout=900)
    files = sh("git diff --name-only", cwd=wt)[1].split()
    sh("git checkout -- .", cwd=wt)
    clean_pycache(wt)
    tests_ok = rct == 0 and "52 passed" in outt
    res = {"ok": rc0 == 0 and tests_ok and rc1 != 0, "demo_clean_rc": rc0, "tests_patched_ok": tests_ok,
           "demo_patched_rc": rc1, "files": files, "tests_tail": outt.strip().splitlines()[-1:] if outt.strip() else []}
    if res["ok"]:
        dst = os.path.join(SEEDED, name)
        os.makedirs(dst, exist_ok=True)
        shutil.copy(patch, os.path.join(dst, "patch.diff"))
        shutil.copy(demo, os.path.join(dst, "demo.py"))
        for extra in os.listdir(src):
            if extra not in ("patch.diff", "demo.py", "meta.json") and os.path.isfile(os.path.join(src, extra)) \
                    and os.path.getsize(os.path.join(src, extra)) < 200000 and not extra.endswith(".pyc"):
                shutil.copy(os.path.join(src, extra), os.path.join(dst, extra))
        meta = {}
        try:
            meta = json.load(open(os.path.join(src, "meta.json")))
        except Exception:
            pass
        meta["property"] = prop
        meta["files_changed"] = files
        meta["confirmed"] = {"clean_tree_demo_exit": rc0, "patched_tree_tests": "52 passed", "patched_tree_demo_exit": rc1,
                             "how": "scratch git worktree of /repo HEAD, PYTHONPATH=<worktree>; pytest -q -p "
                                    "no:cacheprovider --timeout=900; demo.py before and after `git apply patch.diff`"}
        json.dump(meta, open(os.path.join(dst, "meta.json"), "w"), indent=1)
    return res


def check(names, all_props=False):
    rows = []
    for name in names:
        d = os.path.join(SEEDED, name)
        meta = json.load(open(os.path.join(d, "meta.json")))
        prop = meta["property"]
        st = sh("git status --porcelain", cwd="/repo")[1].strip()
        assert not st, "/repo is not clean: " + st
        rc, out = sh(["git", "apply", os.path.join(d, "patch.diff")], cwd="/repo")
        if rc != 0:
            rows.append((name, prop, "patch does not apply to /repo", ""))
            continue
        try:
            props = [prop] + ([f"C{i:02d}" for i in range(1, 21) if f"C{i:02d}" != prop] if all_props else [])
            outcome = {}
            for p in props:
                rc, out = sh(["./check", p, "--tier", "quick"], cwd=VERIF, timeout=900)
                rules = sorted({ln.split("rule=")[1].split()[0] for ln in out.splitlines() if " rule=" in ln and "VIOLATION" not in ln})
                first = next((ln.strip() for ln in out.splitlines() if " rule=" in ln), "")
                outcome[p] = {"exit": rc, "rules": rules, "first": first[:400],
                              "analysis_error": next((ln for ln in out.splitlines() if ln.startswith("ANALYSIS-ERROR")), "")[:300]}
        finally:
            sh("git checkout -- .", cwd="/repo")
            # restore evidence of the clean tree for the properties touched
        json.dump(outcome, open(os.path.join(d, "result.json"), "w"), indent=1)
        rows.append((name, prop, outcome[prop]["exit"], ",".join(outcome[prop]["rules"]) or outcome[prop]["analysis_error"]))
        print(name, prop, "exit", outcome[prop]["exit"], outcome[prop]["rules"], outcome[prop]["analysis_error"][:120])
        if all_props:
            others = {p: o["exit"] for p, o in outcome.items() if p != prop and o["exit"] != 0}
            if others:
                print("   also:", others)
    return rows


def readme():
    lines = ["# Seeded property-breaking changes\n",
             "Each directory holds an independently written change (`patch.diff`) that still passes the 52 pinned tests, a",
             "demonstration (`demo.py`: exit 0 on the clean tree, non-zero with the change), `meta.json` (what it breaks, what",
             "it needs to manifest, what was run to confirm it) and `result.json` (what `./check` said with the change applied",
             "to /repo; the change was undone straight afterwards). Nothing here is ever committed to /repo.\n",
             "| seed | property | needs | ./check exit | reporting rule(s) |", "|---|---|---|---|---|"]
    for name in sorted(os.listdir(SEEDED)):
        d = os.path.join(SEEDED, name)
        if not os.path.isdir(d) or not os.path.exists(os.path.join(d, "meta.json")):
            continue
        meta = json.load(open(os.path.join(d, "meta.json")))
        res = {}
        if os.path.exists(os.path.join(d, "result.json")):
            res = json.load(open(os.path.join(d, "result.json")))
        prop = meta.get("property", "?")
        o = res.get(prop, {})
        also = [p for p, x in res.items() if p != prop and x.get("exit") == 1]
        rules = ",".join(o.get("rules", [])) or (o.get("analysis_error", "")[:60])
        if also:
            rules += " (+ " + ",".join(also) + ")"
        needs = str(meta.get("needs", "")).replace("|", "/").replace("\n", " ")[:160]
        lines.append(f"| {name} | {prop} | {needs} | {o.get('exit', '-')} | {rules} |")
    open(os.path.join(SEEDED, "README.md"), "w").write("\n".join(lines) + "\n")


if __name__ == "__main__":
    cmd = sys.argv[1]
    if cmd == "verify":
        print(json.dumps(verify(*sys.argv[2:6]), indent=1))
    elif cmd == "check":
        args = [a for a in sys.argv[2:] if not a.startswith("--")]
        names = args or sorted(n for n in os.listdir(SEEDED) if os.path.isdir(os.path.join(SEEDED, n)))
        check(names, "--all" in sys.argv)
        readme()
    elif cmd == "readme":
        readme()

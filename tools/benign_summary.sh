#!/bin/sh
# usage: tools/benign_summary.sh files...  — one line per (refactoring, property) that is not silent
cd /verif || exit 3
for f in "$@"; do
  [ -z "$(git -C /repo status --porcelain)" ] || { echo "/repo not clean"; exit 3; }
  git -C /repo apply "/verif/$f" || { echo "$f: does not apply"; continue; }
  for p in C01 C02 C03 C04 C05 C06 C07 C08 C09 C10 C11 C12 C13 C14 C15 C16 C17 C18 C19 C20; do
    out=$(./check $p 2>&1); rc=$?
    if [ $rc -ne 0 ]; then echo "$f $p exit=$rc $(echo "$out" | grep -m1 -A1 "^VIOLATION\|^ANALYSIS-ERROR" | tr '\n' ' ' | cut -c1-330)"; fi
  done
  git -C /repo checkout -- .; git -C /repo clean -fdq -- corankco
done

"""
Project loader: parses every module of the analysed package from the *current working tree* (or from an
in-memory overlay used by the self-test), and builds the symbol tables the rules need: imports (absolute,
relative, re-exports through __init__, star imports), classes with resolved bases and a C3-like MRO,
functions/methods with their decorators, and name-mangling aware attribute lookup.

Nothing of the analysed package is ever imported or executed.
"""
from __future__ import annotations

import ast
import os
from typing import Dict, List, Optional, Tuple, Iterable


class AnalysisError(Exception):
    """The analyser cannot decide (anchor vanished, unsupported idiom, floor not met). Exit code 2."""


REPO_ROOT = os.environ.get("CSA_REPO", "/repo")
PACKAGE = "corankco"


class FuncInfo:
    def __init__(self, name: str, node: ast.AST, module: "Module", cls: Optional["ClassInfo"]):
        self.name = name
        self.node = node
        self.module = module
        self.cls = cls
        self.decorators: List[str] = []
        for dec in getattr(node, "decorator_list", []):
            self.decorators.append(_dotted(dec.func) if isinstance(dec, ast.Call) else _dotted(dec))
        self.kind = "function"
        if cls is not None:
            self.kind = "method"
            if "staticmethod" in self.decorators:
                self.kind = "staticmethod"
            elif "classmethod" in self.decorators:
                self.kind = "classmethod"
            elif "property" in self.decorators:
                self.kind = "property"
            elif any(d and d.endswith(".setter") for d in self.decorators):
                self.kind = "setter"
        self.is_abstract = any(d and d.split(".")[-1] == "abstractmethod" for d in self.decorators)
        try:        # lets an evaluation started on this body know its class / module (helper resolution, name mangling)
            node._csa_cls = cls
            node._csa_module = module
        except AttributeError:
            pass

    @property
    def qualname(self) -> str:
        if self.cls is not None:
            return f"{self.module.name}:{self.cls.name}.{self.name}" + (".setter" if self.kind == "setter" else "")
        return f"{self.module.name}:{self.name}"

    @property
    def short(self) -> str:
        return f"{self.cls.name}.{self.name}" if self.cls is not None else self.name

    @property
    def params(self) -> List[ast.arg]:
        a = self.node.args
        return list(a.posonlyargs) + list(a.args)

    @property
    def param_names(self) -> List[str]:
        return [p.arg for p in self.params]

    @property
    def explicit_params(self) -> List[ast.arg]:
        """Parameters a caller supplies (without self / cls)."""
        ps = self.params
        if self.kind in ("method", "classmethod", "property", "setter") and ps:
            return ps[1:]
        return ps

    def loc(self, node: Optional[ast.AST] = None) -> str:
        n = node if node is not None else self.node
        return f"{self.module.relpath}:{getattr(n, 'lineno', 0)}"

    def body_without_docstring(self) -> List[ast.stmt]:
        body = list(self.node.body)
        if body and isinstance(body[0], ast.Expr) and isinstance(body[0].value, ast.Constant) \
                and isinstance(body[0].value.value, str):
            body = body[1:]
        return body

    def __repr__(self):
        return f"<Func {self.qualname}>"


class ClassInfo:
    def __init__(self, name: str, node: ast.ClassDef, module: "Module"):
        self.name = name
        self.node = node
        self.module = module
        self.methods: Dict[str, FuncInfo] = {}
        self.setters: Dict[str, FuncInfo] = {}
        self.class_attrs: Dict[str, ast.AST] = {}
        self.base_exprs: List[ast.expr] = list(node.bases)
        self.bases: List["ClassInfo"] = []      # resolved, package-internal bases
        self.external_bases: List[str] = []
        self.fields: List[str] = []             # annotated class-level names, in order (NamedTuple / dataclass fields)
        self.decorators: List[str] = [(_dotted(d.func) if isinstance(d, ast.Call) else _dotted(d)) or "?" for d in node.decorator_list]
        for st in node.body:
            if isinstance(st, ast.AnnAssign) and isinstance(st.target, ast.Name):
                self.fields.append(st.target.id)
            if isinstance(st, (ast.FunctionDef, ast.AsyncFunctionDef)):
                fi = FuncInfo(st.name, st, module, self)
                if fi.kind == "setter":
                    self.setters[st.name] = fi
                else:
                    self.methods[st.name] = fi
            elif isinstance(st, ast.Assign):
                for t in st.targets:
                    if isinstance(t, ast.Name):
                        self.class_attrs[t.id] = st.value
            elif isinstance(st, ast.AnnAssign) and isinstance(st.target, ast.Name) and st.value is not None:
                self.class_attrs[st.target.id] = st.value

    @property
    def qualname(self) -> str:
        return f"{self.module.name}.{self.name}"

    def __repr__(self):
        return f"<Class {self.qualname}>"


class Module:
    def __init__(self, name: str, path: str, relpath: str, source: str):
        self.name = name
        self.path = path
        self.relpath = relpath
        self.source = source
        try:
            self.tree = ast.parse(source, filename=path)
        except SyntaxError as exc:
            raise AnalysisError(f"cannot parse {relpath}: {exc}")
        self.is_package = os.path.basename(path) == "__init__.py"
        self.imports: Dict[str, str] = {}        # local name -> dotted target
        self.star_imports: List[str] = []
        self.classes: Dict[str, ClassInfo] = {}
        self.functions: Dict[str, FuncInfo] = {}
        self.globals: Dict[str, ast.AST] = {}
        self.guarded_imports: Dict[str, ast.Try] = {}   # names bound only inside try: import ... except
        self._collect(self.tree.body, None)
        for n in ast.walk(self.tree):
            for ch in ast.iter_child_nodes(n):
                ch._csa_parent = n  # type: ignore[attr-defined]

    def _abs(self, level: int, mod: Optional[str]) -> str:
        if level == 0:
            return mod or ""
        parts = self.name.split(".")
        if not self.is_package:
            parts = parts[:-1]
        if level > 1:
            parts = parts[: len(parts) - (level - 1)]
        base = ".".join(parts)
        return f"{base}.{mod}" if mod else base

    def _collect(self, body: List[ast.stmt], in_try: Optional[ast.Try]):
        for st in body:
            if isinstance(st, ast.Import):
                for al in st.names:
                    local = al.asname or al.name.split(".")[0]
                    self.imports[local] = al.name if al.asname else al.name.split(".")[0]
                    if in_try is not None:
                        self.guarded_imports[local] = in_try
            elif isinstance(st, ast.ImportFrom):
                target = self._abs(st.level, st.module)
                for al in st.names:
                    if al.name == "*":
                        self.star_imports.append(target)
                    else:
                        self.imports[al.asname or al.name] = f"{target}.{al.name}"
                        if in_try is not None:
                            self.guarded_imports[al.asname or al.name] = in_try
            elif isinstance(st, ast.ClassDef):
                self.classes[st.name] = ClassInfo(st.name, st, self)
            elif isinstance(st, (ast.FunctionDef, ast.AsyncFunctionDef)):
                self.functions[st.name] = FuncInfo(st.name, st, self, None)
            elif isinstance(st, ast.Assign):
                for t in st.targets:
                    if isinstance(t, ast.Name):
                        self.globals[t.id] = st.value
            elif isinstance(st, ast.AnnAssign) and isinstance(st.target, ast.Name) and st.value is not None:
                self.globals[st.target.id] = st.value
            elif isinstance(st, ast.Try):
                self._collect(st.body, st)
                for h in st.handlers:
                    self._collect(h.body, None)
                self._collect(st.orelse, None)
                self._collect(st.finalbody, None)
            elif isinstance(st, ast.If):
                self._collect(st.body, in_try)
                self._collect(st.orelse, in_try)


def _dotted(node: ast.AST) -> Optional[str]:
    if isinstance(node, ast.Name):
        return node.id
    if isinstance(node, ast.Attribute):
        b = _dotted(node.value)
        return f"{b}.{node.attr}" if b else None
    return None


dotted = _dotted


class Project:
    def __init__(self, root: str = None, overlay: Optional[Dict[str, str]] = None, package: str = PACKAGE):
        self.root = root or REPO_ROOT
        self.package = package
        self.overlay = overlay or {}
        self.modules: Dict[str, Module] = {}
        self.sources: Dict[str, str] = {}
        pkg_dir = os.path.join(self.root, package)
        if not os.path.isdir(pkg_dir):
            raise AnalysisError(f"package directory {pkg_dir} not found")
        for dirpath, dirnames, filenames in os.walk(pkg_dir):
            dirnames[:] = sorted(d for d in dirnames if d != "__pycache__")
            for fn in sorted(filenames):
                if not fn.endswith(".py"):
                    continue
                path = os.path.join(dirpath, fn)
                rel = os.path.relpath(path, self.root)
                if rel in self.overlay:
                    src = self.overlay[rel]
                else:
                    with open(path, "r", encoding="utf-8") as fh:
                        src = fh.read()
                modname = rel[:-3].replace(os.sep, ".")
                if modname.endswith(".__init__"):
                    modname = modname[: -len(".__init__")]
                self.sources[rel] = src
                self.modules[modname] = Module(modname, path, rel, src)
        self._link_classes()
        from .engines import resolve
        resolve.install(self)       # the project most recently loaded in this process answers un-scripted helper calls

    # ---------------------------------------------------------------- symbol resolution
    def resolve_dotted(self, dotted_name: str, _depth: int = 0):
        """Resolve 'corankco.dataset.Dataset' to ('class', ClassInfo) / ('func', FuncInfo) / ('module', Module)
        / ('external', dotted)."""
        if _depth > 12:
            return ("external", dotted_name)
        if dotted_name in self.modules:
            return ("module", self.modules[dotted_name])
        if "." in dotted_name:
            head, last = dotted_name.rsplit(".", 1)
            if head in self.modules:
                return self.resolve_in_module(self.modules[head], last, _depth + 1)
            r = self.resolve_dotted(head, _depth + 1)
            if r[0] == "class":
                ci: ClassInfo = r[1]
                m = self.lookup_method(ci, last)
                if m is not None:
                    return ("func", m)
                return ("classattr", (ci, last))
        return ("external", dotted_name)

    def resolve_in_module(self, module: Module, name: str, _depth: int = 0):
        if name in module.classes:
            return ("class", module.classes[name])
        if name in module.functions:
            return ("func", module.functions[name])
        if name in module.imports:
            return self.resolve_dotted(module.imports[name], _depth + 1)
        for star in module.star_imports:
            if star in self.modules:
                r = self.resolve_in_module(self.modules[star], name, _depth + 1)
                if r[0] != "unknown":
                    return r
        if name in module.globals:
            return ("global", (module, name))
        return ("unknown", name)

    def resolve_expr(self, module: Module, node: ast.AST):
        """Resolve a Name / dotted Attribute used as a static reference."""
        d = _dotted(node)
        if d is None:
            return ("unknown", None)
        parts = d.split(".")
        r = self.resolve_in_module(module, parts[0])
        for p in parts[1:]:
            if r[0] == "module":
                r = self.resolve_in_module(r[1], p)
            elif r[0] == "class":
                m = self.lookup_method(r[1], p)
                if m is not None:
                    r = ("func", m)
                else:
                    r = ("classattr", (r[1], p))
            elif r[0] == "external":
                r = ("external", f"{r[1]}.{p}")
            else:
                return ("unknown", d)
        return r

    # ---------------------------------------------------------------- classes
    def _link_classes(self):
        for m in self.modules.values():
            for c in m.classes.values():
                for b in c.base_exprs:
                    r = self.resolve_expr(m, b)
                    if r[0] == "class":
                        c.bases.append(r[1])
                    else:
                        c.external_bases.append(_dotted(b) or ast.dump(b))

    def all_classes(self) -> Iterable[ClassInfo]:
        for m in self.modules.values():
            yield from m.classes.values()

    def all_functions(self) -> Iterable[FuncInfo]:
        for m in self.modules.values():
            yield from m.functions.values()
            for c in m.classes.values():
                yield from c.methods.values()
                yield from c.setters.values()

    def mro(self, cls: ClassInfo) -> List[ClassInfo]:
        # C3 linearisation restricted to package classes
        def merge(seqs):
            res = []
            seqs = [list(s) for s in seqs if s]
            while seqs:
                for s in seqs:
                    cand = s[0]
                    if not any(cand in t[1:] for t in seqs):
                        break
                else:
                    raise AnalysisError(f"inconsistent MRO for {cls.qualname}")
                res.append(cand)
                seqs = [[x for x in s if x is not cand] for s in seqs]
                seqs = [s for s in seqs if s]
            return res
        return [cls] + merge([self.mro(b) for b in cls.bases] + [list(cls.bases)])

    def lookup_method(self, cls: ClassInfo, name: str) -> Optional[FuncInfo]:
        name = self.unmangle(name)
        for c in self.mro(cls):
            if name in c.methods:
                return c.methods[name]
        return None

    def lookup_class_attr(self, cls: ClassInfo, name: str) -> Optional[ast.AST]:
        for c in self.mro(cls):
            if name in c.class_attrs:
                return c.class_attrs[name]
        return None

    def subclasses(self, cls: ClassInfo, strict: bool = False) -> List[ClassInfo]:
        out = []
        for c in self.all_classes():
            if cls in self.mro(c) and (not strict or c is not cls):
                out.append(c)
        return out

    @staticmethod
    def unmangle(name: str) -> str:
        # _Class__x -> __x
        if name.startswith("_") and not name.startswith("__") and "__" in name[1:]:
            idx = name.index("__", 1)
            rest = name[idx:]
            if not rest.endswith("__"):
                return rest
        return name

    # ---------------------------------------------------------------- anchors
    def module(self, name: str) -> Module:
        if name not in self.modules:
            raise AnalysisError(f"anchor module {name} not found")
        return self.modules[name]

    def cls(self, module: str, name: str) -> ClassInfo:
        m = self.module(module)
        if name not in m.classes:
            raise AnalysisError(f"anchor class {module}.{name} not found")
        return m.classes[name]

    def func(self, module: str, name: str) -> FuncInfo:
        """name is 'func' or 'Class.method'."""
        m = self.module(module)
        if "." in name:
            cn, fn = name.split(".", 1)
            c = self.cls(module, cn)
            if fn in c.methods:
                return c.methods[fn]
            return self.method(c, fn)
        if name in m.functions:
            return m.functions[name]
        g = self._recover_function(m, name)
        if g is not None:
            return g
        raise AnalysisError(f"anchor function {module}:{name} not found")

    def _recover_function(self, m: "Module", name: str) -> Optional[FuncInfo]:
        """a private module-level routine that was renamed: the unique function of the module with nearly the same name"""
        import difflib
        if not name.startswith("_"):
            return None
        stem = name.strip("_").lower()
        cands = []
        for g in m.functions.values():
            gs = g.name.strip("_").lower()
            same_words = sorted(w_ for w_ in stem.split("_") if w_) == sorted(w_ for w_ in gs.split("_") if w_)
            if g.name.startswith("_") and (same_words or difflib.SequenceMatcher(None, stem, gs).ratio() >= 0.85):
                cands.append(g)
        if len(cands) != 1:
            return None
        if not hasattr(self, "recovered"):
            self.recovered = []
        self.recovered.append((f"{m.name}:{name}", cands[0].qualname))
        return cands[0]

    def method(self, cls: ClassInfo, name: str) -> FuncInfo:
        f = self.lookup_method(cls, name)
        if f is None:
            f = self._recover_anchor(cls, name)
        if f is None:
            raise AnalysisError(f"anchor method {cls.qualname}.{name} not found")
        return f

    def _recover_anchor(self, cls: ClassInfo, name: str) -> Optional[FuncInfo]:
        """A private routine that a refactoring renamed or moved out of its class: the unique method of the class (MRO) or
        function of its module whose name is nearly the same (same words, underscores / a prefix aside). Public names are
        never recovered (they are API). The recovery is recorded in `self.recovered`."""
        import difflib
        if not name.startswith("_") or (name.startswith("__") and name.endswith("__")):
            return None
        stem = name.strip("_").lower()
        cands = []
        pool = []
        for c in self.mro(cls):
            pool.extend(c.methods.values())
        pool.extend(cls.module.functions.values())
        for g in pool:
            gs = g.name.strip("_").lower()
            if not g.name.startswith("_"):
                continue
            ratio = difflib.SequenceMatcher(None, stem, gs).ratio()
            same_words = sorted(w_ for w_ in stem.split("_") if w_) == sorted(w_ for w_ in gs.split("_") if w_)
            if gs == stem or same_words or ratio >= 0.85 or (len(stem) >= 8 and (stem in gs or gs in stem) and ratio >= 0.7):
                cands.append((ratio, g))
        uniq = {}
        for r, g in cands:              # an override shadows the methods it overrides (pool is in MRO order)
            uniq.setdefault(g.name, (r, g))
        ranked = sorted(uniq.values(), key=lambda t: -t[0])
        if not ranked or (len(ranked) > 1 and ranked[0][0] < ranked[1][0] + 0.03):
            return None                 # nothing close, or two equally plausible candidates
        g = ranked[0][1]
        if g.is_abstract:
            return None
        if not hasattr(self, "recovered"):
            self.recovered = []
        self.recovered.append((f"{cls.qualname}.{name}", g.qualname))
        return g

    def setter(self, cls: ClassInfo, name: str) -> Optional[FuncInfo]:
        for c in self.mro(cls):
            if name in c.setters:
                return c.setters[name]
        return None


def parent(node: ast.AST) -> Optional[ast.AST]:
    return getattr(node, "_csa_parent", None)


def enclosing_stmt(node: ast.AST) -> ast.AST:
    n = node
    while n is not None and not isinstance(n, ast.stmt):
        n = parent(n)
    return n


def src(node: ast.AST) -> str:
    """Normalised source text of a node (independent of layout and comments)."""
    try:
        return ast.unparse(node)
    except Exception:  # pragma: no cover
        return ast.dump(node)

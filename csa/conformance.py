"""
Conformance of the abstract evaluator and its library stand-ins with the real interpreter / numpy.

    python3-vt -m csa.conformance [-v]

Development-time harness (it decides no property): every snippet of SNIPPETS is a small function in the idioms the
repository and plausible rewrites of it use.  It is run twice - by the abstract evaluator with the stand-ins of
engines/stdlib.py, and natively with the real numpy of the tooling environment - and the two outcomes are compared
(returned value converted to plain python data, or the class of the exception).  An `Unsupported` answer of the
evaluator is acceptable (the rules turn it into an ANALYSIS-ERROR, never into a verdict); a *different* value or
exception is a stand-in defect: a rule could report a violation the code does not have, or miss one.
"""
from __future__ import annotations

import sys
import textwrap
from typing import Any

SNIPPETS = r'''
import numpy as np
from numpy import zeros, ones, asarray, array, where, column_stack, logical_and, logical_or, logical_not
import itertools
import math
from collections import defaultdict, Counter, deque, OrderedDict
from functools import reduce, cmp_to_key
import random


def s_concat_empty():
    return np.concatenate([])

def s_concat():
    return np.concatenate([np.array([1, 2]), np.array([3])])

def s_concat_empty_parts():
    return np.concatenate([np.array([], dtype=int), np.array([3])])

def s_max_empty():
    return np.max(np.array([]))

def s_min_empty_method():
    return np.array([]).min()

def s_builtin_max_empty():
    return max([])

def s_builtin_max_default():
    return max([], default=-1)

def s_builtin_min_key():
    return min(["bb", "a", "c"], key=len)

def s_builtin_max_key_first():
    return max([(1, "a"), (1, "b")], key=lambda t: t[0])

def s_sum_empty():
    return sum([])

def s_any_all_empty():
    return any([]), all([])

def s_int_array_store_float():
    a = np.zeros(3, dtype=int)
    a[0] += 0.5
    a[1] = 1.9
    a[2] = -1.9
    return a

def s_int32_store():
    a = np.zeros(2, dtype=np.int32)
    a[0] = 7.99
    return a

def s_int_array_store_nan():
    a = np.zeros(2, dtype=int)
    a[0] = float("nan")
    return a

def s_float_array_store_int():
    a = np.zeros(2)
    a[0] = 3
    return a, str(a[0])

def s_astype_int():
    return np.array([1.9, -1.9, 0.5]).astype(int)

def s_astype_float():
    return np.array([1, 2]).astype(float)

def s_zeros_dtype_float():
    return np.zeros(2, dtype=float)

def s_array_dtype_int():
    return np.array([1.7, 2.2], dtype=int)

def s_full():
    return np.full((2, 2), -1, dtype=np.int32)

def s_bool_mask_cols():
    m = np.array([[1, 2, 3], [4, 5, 6]])
    return m[:, np.array([True, False, True])]

def s_bool_mask_rows():
    m = np.array([[1, 2, 3], [4, 5, 6]])
    return m[np.array([False, True])]

def s_fancy_cols():
    m = np.array([[1, 2, 3], [4, 5, 6]])
    return m[:, [2, 0]]

def s_mask_store():
    a = np.array([0, 1, 2, 1])
    a[a >= 1] += 1
    return a

def s_sum_axis0():
    m = np.array([[1, -1, 3], [-1, -1, 6]])
    return (m != -1).sum(axis=0)

def s_sum_axis1():
    m = np.array([[1, -1, 3], [-1, -1, 6]])
    return (m != -1).sum(axis=1)

def s_any_method():
    return (np.array([3, 1]) < 2).any(), (np.array([3, 1]) < 2).all()

def s_logical_not():
    return np.logical_not(np.array([True, False]))

def s_transpose_attr():
    return np.array([[1, 2], [3, 4]]).T

def s_where_pairs():
    m = np.array([[True, False], [True, True]])
    return [tuple(int(v) for v in p) for p in np.column_stack(np.where(m))]

def s_where_three():
    return np.where(np.array([1, -1, 2]) >= 0, 1, 0)

def s_argsort():
    return np.argsort(np.array([3, 1, 2]))

def s_argsort_ties_small():
    return np.argsort(np.array([2, 1, 2, 1]), kind="stable")

def s_argsort_axis1():
    return np.argsort(np.array([[3, 1, 2], [0, 2, 1]]), axis=1)

def s_sort_copy():
    a = np.array([3, 1, 2])
    b = np.sort(a)
    return a, b

def s_sort_inplace():
    a = np.array([3, 1, 2])
    a.sort()
    return a

def s_unique():
    return np.unique(np.array([3, 1, 3, 2]))

def s_unique_counts():
    v, c = np.unique(np.array([3, 1, 3, 2]), return_counts=True)
    return v, c

def s_cumsum():
    return np.cumsum(np.array([1, 2, 3]))

def s_count_nonzero():
    return np.count_nonzero(np.array([0, 2, 0, 1]) == 0)

def s_vdot():
    return np.vdot(np.array([1.0, 2.0]), np.array([3.0, 4.0]))

def s_mean_empty_slice():
    return float(np.mean(np.array([1.0, 2.0, 6.0])))

def s_floor_div_neg():
    return -7 // 2, -7 % 3, 7 // -2, 7.5 // 2

def s_true_div():
    return 7 / 2, 6 / 3

def s_round_even():
    return round(0.5), round(1.5), round(2.5), round(2.675, 2)

def s_np_round():
    return np.round(np.array([0.5, 1.5, 2.5]))

def s_int_trunc():
    return int(2.9), int(-2.9), int("12"), int(" 7 ")

def s_int_bad():
    return int("1.5")

def s_int_underscore():
    return int("1_0")

def s_float_parse():
    return float("1e3"), float(" 2.5 ")

def s_float_bad():
    return float("a")

def s_int_of_inf():
    return int(float("inf"))

def s_bool_arith():
    return True + True, sum([True, False, True]), True * 3

def s_zip_truncates():
    return list(zip([1, 2, 3], "ab"))

def s_enumerate_start():
    return list(enumerate("ab", 1))

def s_range_step():
    return list(range(5, 0, -2)), list(range(0)), list(range(3, 3))

def s_sorted_stable():
    return sorted([(1, "b"), (0, "z"), (1, "a")], key=lambda t: t[0])

def s_sorted_reverse_stable():
    return sorted([(1, "b"), (0, "z"), (1, "a")], key=lambda t: t[0], reverse=True)

def s_list_sort_returns_none():
    a = [3, 1, 2]
    r = a.sort()
    return a, r

def s_list_reverse():
    a = [1, 2, 3]
    b = a
    a.reverse()
    return b

def s_reversed_copy():
    a = [1, 2, 3]
    b = list(reversed(a))
    return a, b

def s_slice_copy_vs_alias():
    a = [1, 2, 3]
    b = a[:]
    b[0] = 9
    c = a
    c[1] = 8
    return a, b

def s_np_slice_is_view():
    a = np.array([1, 2, 3, 4])
    b = a[1:3]
    b[0] = 9
    return a

def s_np_row_is_view():
    m = np.zeros((2, 2), dtype=int)
    r = m[0]
    r[1] = 5
    return m

def s_np_fancy_is_copy():
    a = np.array([1, 2, 3, 4])
    b = a[[0, 1]]
    b[0] = 9
    return a

def s_np_same_buffer_appended():
    out = []
    buf = np.zeros(2, dtype=int)
    for k in range(2):
        buf[0] = k + 1
        out.append(buf)
    return np.array(out)

def s_np_copy():
    a = np.array([1, 2])
    b = a.copy()
    b[0] = 5
    return a, b

def s_broadcast_row_assign():
    m = np.zeros((2, 3), dtype=int)
    m[:] = np.arange(3)
    return m

def s_newaxis_mult():
    w = np.array([1.0, 2.0])
    v = np.array([1.0, 10.0, 100.0])
    return v * w[:, np.newaxis]

def s_dict_order():
    d = {}
    d["b"] = 1
    d["a"] = 2
    d["b"] = 3
    return list(d), list(d.values())

def s_dict_get_setdefault():
    d = {}
    d.setdefault("x", []).append(1)
    return d.get("y", 0), d

def s_defaultdict():
    d = defaultdict(list)
    d[1].append("a")
    return dict(d), 2 in d

def s_counter():
    c = Counter("abca")
    return c["a"], c["z"], c.most_common(1)

def s_deque():
    q = deque([1, 2])
    q.appendleft(0)
    q.append(3)
    return q.popleft(), q.pop(), list(q)

def s_set_ops():
    a = {1, 2, 3}
    return a & {2, 5}, a | {9}, a - {1}, a ^ {3, 4}, {1}.issubset(a), a.isdisjoint({7})

def s_set_remove_missing():
    a = {1}
    a.remove(2)

def s_set_discard_missing():
    a = {1}
    a.discard(2)
    return a

def s_list_remove_missing():
    [1].remove(2)

def s_list_index_missing():
    return [1].index(2)

def s_list_pop_empty():
    return [].pop()

def s_dict_missing():
    return {}["k"]

def s_str_digit_family():
    return ["²".isdigit(), "²".isdecimal(), "½".isnumeric(), "½".isdigit(), "12".isdecimal(), "-1".isdigit(), "".isdigit()]

def s_str_strip_chars():
    return "[{a}]".strip("[]"), "  a b ".strip(), "xxaxx".strip("x"), "{a}".lstrip("{"), "abc".strip("cba")

def s_str_split():
    return "a  b".split(), "a  b".split(" "), "".split(), "".split(","), "a,b,".split(","), "a, b".split(", ")

def s_str_partition_find():
    return "a=b=c".partition("="), "abc".find("z"), "abc".rfind("c"), "a=b".rpartition("=")

def s_str_index_missing():
    return "abc".index("z")

def s_str_join_numbers():
    return ",".join([1, 2])

def s_str_compare():
    return "10" < "9", 10 < 9, "a" < "B", [1, 2] < [1, 3], (1, "a") < (1, "b")

def s_str_int_compare():
    return "1" < 2

def s_none_attr():
    x = None
    return x.foo

def s_none_call():
    x = None
    return x.foo()

def s_is_vs_eq():
    a = [1]
    b = [1]
    return a == b, a is b, a is a

def s_chained_compare():
    return 1 < 2 < 3, 1 < 3 < 2, 3 > 2 > 2, 1 == 1 != 2

def s_and_or_values():
    return (0 or 5), (3 and 0), ([] or "d"), (None or 0), (not [] and 1)

def s_not_in():
    return 3 not in [1, 2], not 3 in [3]

def s_ternary_precedence():
    x = 5
    return 1 + (2 if x > 3 else 0), 1 + 2 if x > 9 else 0

def s_mutable_default():
    def f(x, acc=[]):
        acc.append(x)
        return list(acc)
    return f(1), f(2)

def s_closure_late_binding():
    fs = [lambda: i for i in range(3)]
    return [f() for f in fs]

def s_loop_var_after():
    for i in range(3):
        pass
    return i

def s_for_else():
    out = []
    for i in range(3):
        if i == 5:
            break
    else:
        out.append("else")
    for i in range(3):
        if i == 1:
            break
    else:
        out.append("never")
    return out

def s_while_else_break():
    i = 0
    while i < 3:
        i += 1
        if i == 2:
            break
    else:
        return "else"
    return i

def s_try_finally_return():
    def f():
        try:
            return "try"
        finally:
            pass
    def g():
        try:
            raise ValueError
        except ValueError:
            return "handled"
        finally:
            pass
    return f(), g()

def s_except_order():
    try:
        {}["k"]
    except LookupError:
        return "lookup"
    except KeyError:
        return "key"

def s_except_unrelated():
    try:
        int("x")
    except KeyError:
        return "key"

def s_except_tuple():
    try:
        [][0]
    except (KeyError, IndexError):
        return "caught"

def s_raise_from_handler():
    try:
        int("x")
    except ValueError as exc:
        raise TypeError("bad") from exc

def s_generator_once():
    g = (x * x for x in range(3))
    return list(g), list(g)

def s_iter_next_default():
    it = iter([1])
    return next(it), next(it, "end"), next(it, None)

def s_next_stop():
    it = iter([])
    return next(it)

def s_next_on_list():
    return next([1, 2])

def s_map_filter():
    return list(map(lambda x: x + 1, [1, 2])), list(filter(None, [0, 1, "", "a"]))

def s_itertools():
    return (list(itertools.combinations([1, 2, 3], 2)), list(itertools.product("ab", repeat=2))[:3],
            list(itertools.chain([1], [2, 3])), list(itertools.accumulate([1, 2, 3])),
            [(k, list(g)) for k, g in itertools.groupby([1, 1, 2, 1])], list(itertools.permutations([1, 2, 3], 2))[:3],
            list(itertools.islice(range(10), 2, 6, 2)), list(itertools.zip_longest([1, 2], [3], fillvalue=0)))

def s_reduce():
    return reduce(lambda a, b: a * b, [1, 2, 3, 4], 1)

def s_math():
    return math.floor(-1.5), math.ceil(-1.5), math.isclose(1.0, 1.0 + 1e-12), math.inf > 1e300, math.isnan(float("nan"))

def s_nan_compare():
    n = float("nan")
    return n == n, n < 1, n > 1, min([n, 1.0]), max([1.0, n]), sorted([2.0, 1.0])

def s_float_equality():
    return 0.1 + 0.2 == 0.3, 0.5 + 0.25 == 0.75, 1e16 + 1 == 1e16

def s_divmod_pow():
    return divmod(7, 2), divmod(-7, 2), pow(2, 10), 2 ** -1, abs(-3)

def s_star_unpack():
    a, *b = [1, 2, 3]
    *c, d = (1, 2, 3)
    return a, b, c, d

def s_swap():
    a, b = 1, 2
    a, b = b, a
    return a, b

def s_aug_assign_list_alias():
    a = [1]
    b = a
    a += [2]
    c = a
    a = a + [3]
    return b, c, a

def s_tuple_hash_key():
    d = {(1, 2): "x"}
    return d[(1, 2)], (2, 1) in d

def s_fstring():
    v = 1.5
    return f"{v:.2f}|{3:>3}|{'a'!r}|{v}"

def s_str_of_containers():
    return str([1, "a"]), str({1}), str((1,)), str({"k": 1}), repr("a'b"), str(1.0), str(1e20), str(True)

def s_str_of_np():
    return str(np.array([1, 2])), str(np.array([1.0, 2.5])), str(np.int64(3)), str(np.float64(2.0))

def s_random_choice_empty():
    return random.choice([])

def s_random_randint_empty():
    return random.randint(3, 2)

def s_np_randint_empty():
    return np.random.randint(0, 0)

def s_sample_too_many():
    return random.sample([1, 2], 3)

def s_np_shape_len():
    m = np.zeros((2, 3))
    return m.shape, len(m), m.size, m.ndim, np.shape(m)

def s_np_index_out():
    return np.array([1, 2])[2]

def s_np_negative_index():
    return int(np.array([1, 2, 3])[-1]), [1, 2, 3][-1]

def s_list_index_out():
    return [1, 2][2]

def s_np_scalar_iter():
    return [int(x) for x in np.array([1, 2])]

def s_np_tolist():
    return np.array([[1, 2], [3, 4]]).tolist(), np.array([1.5]).tolist()

def s_np_flatten():
    return np.array([[1, 2], [3, 4]]).flatten()

def s_np_arange():
    return np.arange(3), np.arange(1, 4), np.arange(0, 1, 0.25)

def s_np_minimum():
    return np.minimum(np.array([1, 5]), np.array([3, 2])), np.maximum(np.array([1, 5]), 2)

def s_np_argmin_ties():
    return int(np.argmin(np.array([2, 1, 1]))), int(np.argmax(np.array([2, 3, 3])))

def s_np_isclose():
    return bool(np.isclose(1.0, 1.0 + 1e-9)), bool(np.isclose(0.0, 1e-9)), bool(np.isclose(1e-9, 0.0, atol=0))

def s_np_all_compare():
    return bool((np.array([1, 2]) == np.array([1, 2])).all()), bool(np.array_equal(np.array([1]), np.array([1, 1])))

def s_np_array_truth():
    return bool(np.array([1, 2]))

def s_np_int_division():
    return np.array([7, -7]) // 2, np.array([7, -7]) % 3, np.array([7, 8]) / 2

def s_np_int_overflow_store():
    a = np.zeros(1, dtype=np.int8)
    a[0] = 300
    return a

def s_np_sum_bool():
    return int(np.sum(np.array([1, 2, 1]) == 1)), int((np.array([1, 2, 1]) == 1).sum())

def s_np_vstack_hstack():
    return np.vstack([np.array([1, 2]), np.array([3, 4])]), np.hstack([np.array([1]), np.array([2, 3])])

def s_np_bincount():
    return np.bincount(np.array([0, 2, 2]))

def s_np_diff_prod():
    return np.diff(np.array([1, 4, 9])), int(np.prod(np.array([1, 2, 3])))

def s_np_clip_sign():
    return np.clip(np.array([-2, 0, 5]), 0, 3), np.sign(np.array([-2, 0, 5]))

def s_np_searchsorted():
    return int(np.searchsorted(np.array([1, 2, 2, 3]), 2)), int(np.searchsorted(np.array([1, 2, 2, 3]), 2, side="right"))

def s_np_eye_diag():
    return np.eye(2), np.diag(np.array([[1, 2], [3, 4]]))

def s_np_fill_diagonal():
    m = np.zeros((2, 2))
    np.fill_diagonal(m, 7)
    return m

def s_np_triu_indices():
    i, j = np.triu_indices(3, 1)
    return i, j

def s_np_repeat_tile():
    return np.repeat(np.array([1, 2]), 2), np.tile(np.array([1, 2]), 2)

def s_np_take():
    return np.take(np.array([5, 6, 7]), [2, 0])

def s_np_nonzero():
    return np.nonzero(np.array([0, 3, 0, 1]))[0], np.flatnonzero(np.array([0, 3, 0, 1]))

def s_np_zeros_like():
    return np.zeros_like(np.array([1, 2])), np.ones_like(np.array([1.5]))

def s_np_dot():
    return int(np.dot(np.array([1, 2]), np.array([3, 4]))), np.dot(np.array([[1, 0], [0, 2]]), np.array([3, 4]))

def s_np_stack():
    return np.stack([np.array([1, 2]), np.array([3, 4])])

def s_np_linspace():
    return np.linspace(0, 1, 3)

def s_np_ix():
    m = np.array([[1, 2, 3], [4, 5, 6], [7, 8, 9]])
    return m[np.ix_([0, 2], [1, 2])]

def s_np_bool_index_mismatch():
    return np.array([1, 2, 3])[np.array([True, False])]

def s_np_setitem_broadcast_error():
    a = np.zeros(3)
    a[:] = np.array([1, 2])
    return a

def s_np_inplace_add_float_to_int():
    a = np.zeros(2, dtype=int)
    a += 0.5
    return a

def s_np_int_plus_float_new():
    a = np.zeros(2, dtype=int)
    b = a + 0.5
    return b

def s_np_mean_int():
    return float(np.array([1, 2]).mean()), float(np.mean(np.array([[1, 2], [3, 4]])))

def s_np_max_axis():
    m = np.array([[1, 5], [7, 2]])
    return m.max(), m.max(axis=0), m.min(axis=1), int(np.max(m))

def s_np_equal_shapes():
    return (np.array([1, 2, 3]) > 1).tolist()

def s_np_count_in_bucket():
    r = np.array([0, 1, 1, 2])
    return int(np.sum(r == 1)), int(np.count_nonzero(r == 1)), int(np.max(r)) + 1

def s_np_unique_rows():
    return np.unique(np.array([[1, 2], [1, 2], [0, 5]]), axis=0)

def s_np_lexsort_like():
    a = np.array([2, 1, 2])
    return sorted(range(3), key=lambda i: (a[i], i))

def s_list_mul_alias():
    rows = [[0] * 2] * 2
    rows[0][0] = 1
    good = [[0] * 2 for _ in range(2)]
    good[0][0] = 1
    return rows, good

def s_copy_module():
    import copy
    a = [[1], [2]]
    b = copy.copy(a)
    c = copy.deepcopy(a)
    a[0].append(9)
    return b, c

def s_dict_fromkeys_alias():
    d = dict.fromkeys([1, 2], [])
    d[1].append("x")
    return d

def s_set_of_lists():
    return {[1]}

def s_dict_iter_mutation():
    d = {1: 1}
    for k in d:
        d[k + 1] = 1
    return d

def s_list_iter_removal():
    a = [1, 2, 3, 4]
    for x in a:
        if x % 2 == 0:
            a.remove(x)
    return a

def s_sorted_mixed():
    return sorted([1, "a"])

def s_sorted_key_partial():
    return sorted(["b", "A", "c"], key=str.lower)

def s_ord_chr():
    return ord("a"), chr(98), "a".upper(), "Ab".swapcase(), "a-b".replace("-", "")

def s_isinstance_bool_int():
    return isinstance(True, int), type(True) == int, isinstance(1, float), isinstance(1.0, (int, float))

def s_int_float_eq_hash():
    return 1 == 1.0, {1: "a"}.get(1.0), len({1, 1.0, True})

def s_str_format_number():
    return "%d" % 3.9, "%.1f" % 0.25, "{:d}".format(3), str(3 / 1)

def s_bytes_no():
    return len("é"), "é".encode("utf-8") == b"\xc3\xa9"

def s_global_counter():
    total = 0
    def add(x):
        nonlocal total
        total += x
    add(2)
    add(3)
    return total

def s_lambda_default_capture():
    fs = [lambda i=i: i for i in range(3)]
    return [f() for f in fs]

def s_walrus():
    out = []
    data = [1, 2, 3]
    while (n := len(data)) > 1:
        out.append(n)
        data.pop()
    return out

def s_any_generator_short():
    seen = []
    def f(x):
        seen.append(x)
        return x > 1
    r = any(f(x) for x in [1, 2, 3])
    return r, seen

def s_min_of_tuples():
    return min([(2, "a"), (1, "z"), (1, "b")]), max([(1, "b"), (1, "z")])

def s_sum_start():
    return sum([[1], [2]], []), sum([0.1] * 3)

def s_fancy_iadd_repeated():
    r = np.zeros((3, 2), dtype=int)
    idx = np.array([0, 0, 2])
    r[idx, 1] += 1
    v = np.zeros(3, dtype=int)
    v[np.array([1, 1, 1])] += 1
    return r, v

def s_np_add_at():
    v = np.zeros(3, dtype=int)
    np.add.at(v, np.array([1, 1, 2]), 1)
    return v

def s_np_split():
    return [list(map(int, p)) for p in np.split(np.array([5, 6, 7, 8]), np.cumsum(np.array([1, 2]))[:-1])], \
           [list(map(int, p)) for p in np.split(np.array([5, 6, 7, 8]), [1, 3])]

def s_unique_counts_order():
    scores = np.array([2.0, 0.5, 2.0, 1.0])
    vals, counts = np.unique(scores, return_counts=True)
    order = np.argsort(-scores, kind="stable")
    return vals, counts, order

def s_paired_fancy():
    m = np.array([[1, 2, 3], [4, 5, 6], [7, 8, 9]])
    return m[[0, 1], [1, 2]], m[[0, 1], [2]], m[np.ix_([0, 1], [1, 2])]

def s_paired_fancy_mismatch():
    m = np.array([[1, 2, 3], [4, 5, 6], [7, 8, 9]])
    return m[[0, 1], [0, 1, 2]]

def s_bool_matrix_all():
    m = np.array([[True, False], [True, True]])
    return bool(m[[0, 1], [0, 1]].all()), bool(m.all()), bool(m.any()), m.sum()

def s_zip_all_truncates():
    a, b = [0, 1, 0], [0, 1]
    return all(x == y for x, y in zip(a, b)), a == b

def s_counter_subtract_plus():
    c = Counter(["a", "b"])
    c.subtract(["a", "a", "b"])
    return dict(c), len(+c), len(-c), dict(+c), dict(-c)

def s_counter_eq():
    return Counter("aab") == Counter("aba"), Counter("ab") == Counter("aab"), Counter(a=0) == Counter()

def s_sorted_partial_order():
    a = (frozenset({1}), frozenset({2}))
    b = (frozenset({3}),)
    rows = [a, b, a]
    return sorted(rows) == rows, [(k, len(list(g))) for k, g in itertools.groupby(sorted(rows))]

def s_all_of_zero():
    return all([0, 1]), all([None]), all([[]]), all([[0]]), any([0, None, ""])

def s_except_as_unbound():
    error = None
    for parser in (int, str):
        try:
            return parser("x") + 1
        except ValueError as error:
            continue
        except TypeError:
            pass
    raise error

def s_late_binding_generator():
    gens = []
    for table in ({"k": 1}, {"k": 2}):
        gens.append(table[x] for x in ["k"])
    return [list(g) for g in gens]

def s_generator_first_iterable_eager():
    data = [1, 2]
    g = (x for x in data)
    data = [9]
    return list(g)

def s_searchsorted_duplicates():
    scores = np.array([3.0, 3.0, 1.0])
    return np.searchsorted(np.sort(-scores), -scores), np.searchsorted(np.unique(-scores), -scores)

def s_zero_is_falsy_previous():
    out = []
    previous = None
    for score in [0.0, 0.0, 1.0, 1.0]:
        if previous is not None and score == previous:
            out.append("tie")
        elif previous and score == previous:
            out.append("tie2")
        else:
            out.append("new")
        previous = score
    return out, bool(0.0), bool(None), bool("0"), bool([0])

def s_dict_comp_last_wins():
    positions = [1, 2, 2, 4]
    return {p: i for i, p in enumerate(sorted(positions))}

def s_comprehension_scope():
    x = 5
    ys = [x for x in range(3)]
    zs = {x: x for x in "ab"}
    return x, ys, zs

def s_groupby_unsorted():
    return [(k, len(list(g))) for k, g in itertools.groupby([1, 2, 1, 1])]

def s_bincount_minlength():
    return np.bincount(np.array([0, 1]), minlength=4), np.bincount(np.array([], dtype=int), minlength=2)

def s_triu_bool():
    eq = np.array([[True, True, True], [True, True, False], [True, False, True]])
    i, j = np.nonzero(np.triu(eq, k=1))
    return i, j

def s_row_sums_compare():
    m = np.array([[0, 1, 2], [2, 0, 1], [1, 1, 0]])
    return (m < m.T).sum(axis=1), (m == m.T).sum(axis=1)

def s_argsort_negative_stable():
    s_ = np.array([1.0, 2.0, 1.0, 2.0])
    return np.argsort(-s_, kind="stable"), np.argsort(s_, kind="stable")[::-1]

def s_reverse_slice_view():
    a = np.array([1, 2, 3])
    return a[::-1], list(reversed([1, 2, 3])), [1, 2, 3][::-1], "abc"[::-1]

def s_max_first_min_first():
    data = [("a", 1), ("b", 2), ("c", 2), ("d", 1)]
    return max(data, key=lambda t: t[1]), min(data, key=lambda t: t[1]), \
        sorted(data, key=lambda t: -t[1])[0], sorted(data, key=lambda t: t[1], reverse=True)[0]

def s_int_division_mean():
    return 7 // 2, 7 / 2, sum([1, 2]) / len([1, 2]), sum([1, 2]) // len([1, 2]), np.array([1, 2]).sum() / 2

def s_inplace_vs_copy_reverse():
    rows = [[1, 2], [3, 4]]
    view = rows[0]
    view.reverse()
    srt = sorted(rows[1], reverse=True)
    return rows, srt

def s_shallow_copy_nested():
    a = [[1], [2]]
    b = list(a)
    b[0].append(9)
    b.append([3])
    return a, b

def s_set_update_from_generator():
    s = set()
    s.update(x * 2 for x in range(3))
    s |= {x for x in range(2)}
    return s

def s_str_strip_default_vs_chars():
    return " a\n".strip(), " a\n".strip(" "), "[1, 2]".strip("[]").split(", "), "{a}".replace("{", "").replace("}", "")

def s_chained_not_in_precedence():
    a = [1, 2]
    return not 1 in a or 3 in a, not (1 in a or 3 in a), 1 in a and 3 not in a

def s_try_else_finally_order():
    log = []
    try:
        log.append("try")
    except ValueError:
        log.append("except")
    else:
        log.append("else")
    finally:
        log.append("finally")
    return log

def s_finally_overrides_return():
    def f():
        try:
            return 1
        finally:
            return 2
    return f()

def s_loop_continue_skips_update():
    seen = 0
    last = None
    for x in [1, 2, 3]:
        if x == 2:
            continue
        last = x
        seen += 1
    return seen, last

def s_bool_array_arith():
    a = np.array([True, False, True])
    b = np.array([True, True, False])
    return a + b, a * b, a + (a & b), (a + b).sum(), a.sum() + b.sum(), a & b, a | b, ~a, a ^ b

def s_bool_array_sub():
    return np.array([True]) - np.array([False])

def s_bool_plus_int():
    a = np.array([True, False])
    return a + 1, a * 2, 1 * a + 1 * a, a.astype(int) + a.astype(int)

def s_bool_matmul():
    m = np.array([[True, True, False], [False, False, False]])
    v = np.array([True, True, True])
    return m @ v, m.astype(int) @ v.astype(int), (m.astype(int) @ v.astype(int)).tolist()

def s_int_matmul():
    m = np.array([[1, 2], [3, 4]])
    return m @ np.array([1, 1]), m @ m, np.array([1, 2]) @ np.array([3, 4])

def s_np_div_zero():
    return np.array([1.0, 0.0, -1.0]) / 0.0

def s_case_index():
    miss1 = np.array([True, True, False])
    miss2 = np.array([True, False, False])
    return miss1 + (miss1 & miss2), miss1.astype(int) + (miss1 & miss2)

def s_minus_one_equal():
    p1 = np.array([-1, 0, 2])
    p2 = np.array([-1, 0, -1])
    return p1 == p2, (p1 == p2) & (p1 != -1), (p1 < p2), np.array([[1, 2], [3, 4]])[:, None].shape

def s_tril_triu_order():
    n = 4
    m = np.arange(16).reshape(4, 4)
    lo = np.tril_indices(n, -1)
    up = np.triu_indices(n, 1)
    return m[lo], m[up], m.T[lo]

def s_double_argsort():
    p = np.array([[1, 1, 3, 4], [2, 1, 1, 1]])
    return p.argsort(axis=1).argsort(axis=1), np.unique(np.array([1, 1, 3, 4]), return_inverse=True)[1]

def s_floor_div_float():
    return 9.0 // 2, np.array([9.0]).sum() // 2, 9 / 2, np.float64(9.0) // 2

def s_is_int_identity():
    a = 300
    b = int("300")
    return a == b

def s_groupby_set_runs():
    items = [1, 3, 2]
    key = {1: 0, 3: 0, 2: 1}
    return [(k, len(list(g))) for k, g in itertools.groupby(items, key=lambda e: key[e])]

def s_len_of_rows():
    return len([{1, 2}, {3}]), sum(len(b) for b in [{1, 2}, {3}])

def s_np_max_initial():
    return int(np.max(np.array([[1, 2], [0, 0]]), initial=-1)), np.max(np.array([[1, 2], [0, 0]]), axis=1), int(np.max(np.array([], dtype=int), initial=-1))

def s_split_empty():
    return [p.tolist() for p in np.split(np.array([], dtype=int), np.array([], dtype=int))], [p.tolist() for p in np.split(np.array([1, 2]), [1])]

def s_c20_conversion_idiom():
    out = []
    for ranking in (np.array([-1, -1, -1]), np.array([1, -1, 0]), np.array([0, 0, 1])):
        order = np.argsort(ranking, kind="stable")
        ranked = order[np.searchsorted(ranking[order], 0):]
        starts = np.flatnonzero(np.diff(ranking[ranked])) + 1
        out.append([[int(e) for e in bucket] for bucket in np.split(ranked, starts)])
    return out

def s_count_nonzero_axis():
    m = np.array([[1, 0, 2], [0, 0, 3]])
    return np.count_nonzero(m, axis=1), np.count_nonzero(m, axis=0), int(np.count_nonzero(m)), np.count_nonzero(m == 0, axis=1)

def s_empty_array_ops():
    e = np.array([], dtype=int)
    return e[0:], np.diff(e), np.flatnonzero(np.diff(e)) + 1, e.sum(), int(np.searchsorted(e, 0)), np.argsort(e), e[np.array([], dtype=int)]

def s_list_slice_assign():
    a = [1, 2, 3, 4]
    a[1:2] = [7, 8, 9]
    b = [1, 2, 3]
    b[0:1] = []
    c = [1, 2, 3]
    c[1:1] = [5]
    d = [1, 2, 3, 4]
    d[::2] = [0, 0]
    e = [1, 2]
    e[5:] = [3]
    return a, b, c, d, e

def s_list_slice_assign_bad():
    d = [1, 2, 3, 4]
    d[::2] = [0]

def s_del_slice():
    a = [1, 2, 3, 4]
    del a[1:3]
    return a

def s_where_broadcast():
    col = np.array([0, -1, 2])[:, np.newaxis]
    row = np.array([0, -1, 2])[np.newaxis, :]
    m1, m2 = col == -1, row == -1
    case_non_ranked = m1 + (m1 & m2)
    case_both = (col > row) + 2 * (col == row)
    return np.where(np.logical_or(m1, m2), 3 + case_non_ranked, case_both), np.where(m1, 1, row), np.where(col > 0, col, 0)

def s_lookup_by_matrix():
    table = np.array([10.0, 20.0, 30.0])
    idx = np.array([[0, 2], [1, 1]])
    return table[idx], 2.0 * table[idx]

_TABLE = str.maketrans("{}", "[]")

def s_str_translate():
    return "{a}, {b}".translate(_TABLE), " x: [{1}] ".strip().rpartition(":")[2].strip().translate(str.maketrans("{}", "[]"))

def s_np_select():
    a = np.array([-1, 0, 2, -1])
    b = np.array([-1, 1, 1, 3])
    return np.select([(a == -1) & (b == -1), a == -1, b == -1, a < b, a > b], [5, 3, 4, 0, 1], default=2)

def s_np_repeat_counts():
    return np.repeat(np.arange(3), [2, 0, 1]), np.repeat(np.array([7, 8]), 2)

def s_fancy_pairs_store_from_tuples():
    m = np.full((3, 2), -1, dtype=np.int32)
    cells = [(0, 1, 5), (2, 0, 7)]
    rows, cols, vals = zip(*cells)
    m[np.asarray(rows), np.asarray(cols)] = vals
    return m

def s_bincount_situations():
    sit = np.array([5, 0, 0, 2])
    return np.bincount(sit, minlength=6), np.bincount(sit, minlength=6).astype(np.int64)

def s_generator_function():
    log = []
    def gen(n):
        log.append("start")
        for i in range(n):
            if i == 2:
                continue
            yield i * i
        yield from [100, 200]
        log.append("end")
    g = gen(4)
    before = list(log)
    out = list(g)
    return before, out, log, list(g), {x for x in gen(3)}

def s_generator_raises_on_consumption():
    def gen():
        yield 1
        raise ValueError("bad")
    g = gen()
    try:
        return list(g)
    except ValueError:
        return "raised at consumption"

def s_object_sentinel():
    missing = object()
    d = {"a": 1}
    return d.get("b", missing) is missing, d.get("a", missing) is missing, next(iter([]), missing) is missing, missing == missing, missing == object()

def s_round_half_array():
    return [round(x) for x in (0.5, 1.5, -0.5)], int(0.5 + 0.5), int(-0.5 - 0.5)
'''


def plain(v: Any, np) -> Any:
    """A value of either world as plain python data."""
    from .engines.abseval import Vec, Mat, OnceIter
    if isinstance(v, Vec):
        return ["arr"] + [plain(x, np) for x in v.vals]
    if isinstance(v, Mat):
        return ["arr"] + [["arr"] + [plain(x, np) for x in r] for r in v.rows]
    if isinstance(v, OnceIter):
        return "<iterator>"
    if np is not None and isinstance(v, np.ndarray):
        return ["arr"] + [plain(x, np) for x in v]
    if np is not None and isinstance(v, np.generic):
        return plain(v.item(), np)
    if isinstance(v, (list, tuple)):
        return [type(v).__name__] + [plain(x, np) for x in v]
    if isinstance(v, (set, frozenset)):
        return ["set"] + sorted((plain(x, np) for x in v), key=repr)
    if isinstance(v, dict):
        return ["dict"] + [[plain(k, np), plain(x, np)] for k, x in v.items()]
    if isinstance(v, float):
        if v != v:
            return "nan"
        return float(v)
    if isinstance(v, bool):
        return v
    if isinstance(v, int):
        return int(v)
    return v


def same(a, b) -> bool:
    if isinstance(a, list) and isinstance(b, list):
        return len(a) == len(b) and all(same(x, y) for x, y in zip(a, b))
    if isinstance(a, bool) or isinstance(b, bool):
        return a is b or (isinstance(a, bool) and isinstance(b, bool) and a == b)
    if isinstance(a, (int, float)) and isinstance(b, (int, float)):
        return type(a) is type(b) and (a == b or abs(a - b) <= 1e-12 * max(1.0, abs(a), abs(b)))
    return type(a) is type(b) and a == b


def main(argv) -> int:
    verbose = "-v" in argv
    only = [a for a in argv if not a.startswith("-")]
    import numpy as np
    from .loader import Module, Project
    from .engines.abseval import Evaluator, Unsupported, AbsRaise, IndexOut, LoopBound
    from .engines import resolve
    proj = Project()
    resolve.install(proj)
    src = textwrap.dedent(SNIPPETS)
    mod = Module("conformance_snippets", "<snippets>", "conformance_snippets.py", src)
    native: dict = {}
    exec(compile(src, "<snippets>", "exec"), native)
    counts = {"same": 0, "unsupported": 0, "mismatch": 0}
    for name, f in mod.functions.items():
        if only and name not in only:
            continue
        try:
            import random as _r
            _r.seed(0)
            want = ("ok", plain(native[name](), np))
        except Exception as exc:        # noqa: BLE001 - the class is the outcome
            want = ("raise", type(exc).__name__)
        ev = Evaluator({}, {})
        ev.module = mod
        ev.max_steps = 20000
        f.node._csa_module = mod
        try:
            got = ("ok", plain(ev.call_user(f.node, []), None))
        except AbsRaise as r:
            got = ("raise", r.exc_name.split(".")[-1])
        except IndexOut:
            got = ("raise", "IndexError")
        except LoopBound:
            got = ("raise", "<loop bound>")
        except Unsupported as exc:
            got = ("unsupported", str(exc))
        except Exception as exc:        # noqa: BLE001 - an internal error of the evaluator is reported as such
            got = ("internal-error", repr(exc))
        if got[0] == "unsupported":
            counts["unsupported"] += 1
            if verbose:
                print(f"  unsupported {name}: {got[1]}")
        elif got[0] == want[0] and (same(got[1], want[1]) if got[0] == "ok" else _exc_compatible(got[1], want[1])):
            counts["same"] += 1
        else:
            counts["mismatch"] += 1
            print(f"MISMATCH {name}: evaluator {got!r}  real {want!r}")
    print(f"conformance: {counts}")
    return 1 if counts["mismatch"] else 0


def _exc_compatible(got: str, want: str) -> bool:
    if got == want:
        return True
    # numpy's own exception classes derive from the builtin ones the stand-ins raise
    return (got, want) in {("IndexError", "AxisError"), ("TypeError", "UFuncTypeError"), ("TypeError", "_UFuncOutputCastingError")}


if __name__ == "__main__":
    sys.exit(main(sys.argv[1:]))

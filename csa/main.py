"""
CLI driver:  ./check C07 --tier quick|thorough     ./check --replay <file>     ./check --all

Exit codes: 0 hold / only known findings; 1 VIOLATION (line `VIOLATION property=<id> replay=<path>`);
2 ANALYSIS-ERROR (anchor vanished, idiom not understood, floor not met, internal error) - never a VIOLATION line.
"""
from __future__ import annotations

import argparse
import importlib
import json
import os
import sys
import time
import traceback

from .loader import Project, AnalysisError
from .report import Result, Known, write_evidence, write_replay, site_key, VERIF

ALL = [f"C{i:02d}" for i in range(1, 21)]


class Ctx:
    def __init__(self, proj: Project, tier: str, seed: int):
        self.proj = proj
        self.tier = tier
        self.seed = seed
        self._cg = None

    @property
    def cg(self):
        if self._cg is None:
            from .callgraph import CallGraph
            self._cg = CallGraph(self.proj)
        return self._cg

    @property
    def thorough(self) -> bool:
        return self.tier == "thorough"


THRESHOLD_ALLOW = set()          # (function, comparison text) pairs confirmed by hand - none needed today
SIZE_LIKE = ("len(", ".shape", ".size", "nb_", "_nb", "num_", "size", "count", "length", "n_elem", "nb")


def anchor_files(prop: str):
    try:
        with open(os.path.join(VERIF, "properties.jsonl"), "r", encoding="utf-8") as fh:
            for line in fh:
                rec = json.loads(line)
                if rec.get("id") == prop:
                    return list(rec.get("anchors", {}).get("files", []))
    except OSError:
        pass
    return []


def _named_constants(proj: Project):
    """identifier -> number for module-level and class-level `NAME = <number>` / `NAME: int = <number>` bindings of the
    package (a threshold hidden behind a name is still a threshold). Names bound more than once to different values
    are dropped."""
    import ast
    out, clash = {}, set()
    for mod in proj.modules.values():
        bodies = [mod.tree.body] + [c.body for c in ast.walk(mod.tree) if isinstance(c, ast.ClassDef)]
        for body in bodies:
            for st in body:
                tgt = val = None
                if isinstance(st, ast.Assign) and len(st.targets) == 1 and isinstance(st.targets[0], ast.Name):
                    tgt, val = st.targets[0].id, st.value
                elif isinstance(st, ast.AnnAssign) and isinstance(st.target, ast.Name) and st.value is not None:
                    tgt, val = st.target.id, st.value
                if tgt is None:
                    continue
                if isinstance(val, ast.UnaryOp) and isinstance(val.op, ast.USub) and isinstance(val.operand, ast.Constant):
                    val = ast.Constant(-val.operand.value) if isinstance(val.operand.value, (int, float)) else val
                if isinstance(val, ast.Constant) and isinstance(val.value, (int, float)) and not isinstance(val.value, bool):
                    key = tgt.lstrip("_")
                    if key in out and out[key] != val.value:
                        clash.add(key)
                    out[key] = val.value
    for k in clash:
        out.pop(k, None)
    return out


def bound_guard(prop: str, proj: Project, explored: int = 3):
    """Several rules decide a clause on all inputs up to a bound and argue that larger inputs add no new case. A branch
    on a numeric threshold beyond those bounds (a fast path for big inputs, a special case for size >= 5 ...) in the
    property's anchored files invalidates that argument: the check then says so instead of passing. `explored` is the
    largest threshold the rules of the property have cases on both sides of (a rule module raises it through
    Result.explored_threshold)."""
    import ast
    from .loader import src
    files = set(anchor_files(prop))
    named = _named_constants(proj)

    def value(x):
        if isinstance(x, ast.Constant) and isinstance(x.value, (int, float)) and not isinstance(x.value, bool):
            return x.value
        if isinstance(x, ast.Name) and x.id.lstrip("_") in named and x.id.isupper():
            return named[x.id.lstrip("_")]
        if isinstance(x, ast.Attribute) and x.attr.lstrip("_") in named and x.attr.lstrip("_").isupper():
            return named[x.attr.lstrip("_")]
        return None
    for f in proj.all_functions():
        if f.module.relpath not in files:
            continue
        for n in ast.walk(f.node):
            if isinstance(n, ast.Compare):
                parts = [n.left] + list(n.comparators)
                consts = [value(x) for x in parts]
                others = [src(x) for x, c in zip(parts, consts) if c is None]
                consts = [c for c in consts if c is not None]
                # equality tests are thresholds only when the other side is a size (a draw `alea == 5`, a status code
                # or an opcode compared with == is a dispatch, not a bound); the 6 entries of a penalty vector are the
                # format's constant
                if all(isinstance(o, (ast.Eq, ast.NotEq)) for o in n.ops):
                    if not any(any(k in o for k in SIZE_LIKE) for o in others):
                        continue
                    if f.module.relpath.endswith("scoringscheme.py") and set(consts) <= {2, 6}:
                        continue
                if any(abs(c) > explored for c in consts) and (f.short, src(n)) not in THRESHOLD_ALLOW:
                    raise AnalysisError(f"{f.loc(n)} {f.short}: comparison `{src(n)}` against a numeric threshold "
                                        f"({max(consts, key=abs)}) beyond the bounds this check explores ({explored}) - "
                                        f"the bounded rules cannot vouch for inputs on the other side of it")


def run_rules(prop: str, proj: Project, tier: str, seed: int) -> Result:
    mod = importlib.import_module(f"csa.rules.{prop}")
    ctx = Ctx(proj, tier, seed)
    res: Result = mod.run(ctx)
    if getattr(proj, "recovered", None):
        res.extra["recovered_anchors"] = [f"{a} -> {b}" for a, b in proj.recovered]
        res.assumptions.append("private routines found under a new name / place: " +
                               "; ".join(f"{a} -> {b}" for a, b in proj.recovered))
    for rule, floor in res.floors.items():
        n = res.count(rule)
        if n < floor and not res.violations:      # a reported violation is a verdict; floors guard silent passes
            raise AnalysisError(f"rule {rule} matched {n} instance(s), fewer than the {floor} confirmed by hand: "
                                f"the rule no longer sees the code it was written for")
    if not res.violations:
        bound_guard(prop, proj, getattr(res, 'explored_threshold', 3))     # a clean verdict must not rest on a bound the code branches beyond
    return res


def run_property(prop: str, tier: str, seed: int, overlay=None, quiet=False) -> int:
    t0 = time.time()
    res = Result(prop)
    Result.registry.clear()
    analysis_error = None
    try:
        proj = Project(overlay=overlay)
        res = run_rules(prop, proj, tier, seed)
    except AnalysisError as exc:
        partial = None
        for r in Result.registry:
            if r.prop == prop and r.violations and (partial is None or len(r.obligations) > len(partial.obligations)):
                partial = r
        if partial is None:
            print(f"ANALYSIS-ERROR property={prop} {exc}")
            write_evidence(res, tier, seed, time.time() - t0, [], [], error=str(exc))
            return 2
        # violations already established by earlier rules stand; the construct that could not be analysed is noted
        analysis_error = str(exc)
        res = partial
        print(f"note: a later rule could not be evaluated ({exc}); reporting the violations found before it")
    except BrokenPipeError:
        raise
    except Exception as exc:  # internal error: never a violation by itself
        partial = None
        for r in Result.registry:
            if r.prop == prop and r.violations and (partial is None or len(r.obligations) > len(partial.obligations)):
                partial = r
        if partial is None:
            tb = traceback.format_exc()
            print(f"ANALYSIS-ERROR property={prop} internal error: {exc!r}")
            print(tb)
            write_evidence(res, tier, seed, time.time() - t0, [], [], error=repr(exc))
            return 2
        analysis_error = repr(exc)
        res = partial
        print(f"note: a later rule failed internally ({exc!r}); reporting the violations found before it")

    known = Known()
    new, hits = [], []
    for ob in res.violations:
        k = known.match(prop, ob)
        if k is not None:
            hits.append(ob)
        else:
            new.append(ob)

    selftest = None
    if tier == "thorough":
        try:
            from . import selftest as st
            selftest = st.run_for(prop, seed)
        except Exception as exc:  # self-validation is informational; it never changes the verdict
            selftest = {"error": repr(exc)}

    write_evidence(res, tier, seed, time.time() - t0, new, hits, selftest, error=analysis_error)
    if not quiet:
        n_ok = sum(1 for o in res.obligations if o.status == "ok")
        print(f"property={prop} tier={tier} obligations={len(res.obligations)} discharged={n_ok} "
              f"functions={len(res.functions)} rules={len(res.rules_text)} wall={time.time() - t0:.2f}s")
        for rule in sorted(res.rules_text):
            print(f"  {rule}: {res.count(rule)} instance(s) - {res.rules_text[rule]}")
        if selftest is not None:
            print(f"  self-validation: {json.dumps({k: v for k, v in selftest.items() if k != 'details'})}")
    for ob in hits:
        print(f"KNOWN-FINDING: property={prop} rule={ob.rule} site={site_key(ob.key)} at {ob.loc}: {ob.detail}")
    if new:
        for k, ob in enumerate(new):
            path = write_replay(prop, ob, k)
            print(f"VIOLATION property={prop} replay={path}")
            print(f"  {ob.loc} rule={ob.rule} construct={ob.key}: {ob.detail}")
            for p in ob.path:
                print(f"    via {p}")
        return 1
    return 0


def replay(path: str) -> int:
    with open(path, "r", encoding="utf-8") as fh:
        rp = json.load(fh)
    prop = rp["property"]
    try:
        proj = Project()
        res = run_rules(prop, proj, "quick", 0)
    except AnalysisError as exc:
        print(f"ANALYSIS-ERROR property={prop} {exc}")
        return 2
    for ob in res.violations:
        if ob.rule == rp["rule"] and ob.key == rp["construct"]:
            print(f"VIOLATION property={prop} replay={path}")
            print(f"  {ob.loc} rule={ob.rule} construct={ob.key}: {ob.detail}")
            return 1
    print(f"replay: obligation rule={rp['rule']} construct={rp['construct']} no longer violated")
    return 0


def main(argv=None) -> int:
    ap = argparse.ArgumentParser(prog="check")
    ap.add_argument("prop", nargs="?")
    ap.add_argument("--tier", default=os.environ.get("VERIF_TIER", "quick"), choices=["quick", "thorough"])
    ap.add_argument("--replay")
    ap.add_argument("--all", action="store_true")
    ap.add_argument("--selfcheck", action="store_true", help="engine unit checks (used by MANIFEST.setup_cmd)")
    args = ap.parse_args(argv)
    try:
        seed = int(os.environ.get("VERIF_SEED", "0"))
    except ValueError:
        seed = 0
    if args.selfcheck:
        from . import unit
        return unit.main()
    if args.replay:
        return replay(args.replay)
    if args.all:
        worst = 0
        for p in ALL:
            if os.path.exists(os.path.join(VERIF, "csa", "rules", f"{p}.py")):
                rc = run_property(p, args.tier, seed)
                worst = max(worst, rc)
        return worst
    if not args.prop:
        ap.error("property id required")
    if not os.path.exists(os.path.join(VERIF, "csa", "rules", f"{args.prop}.py")):
        print(f"ANALYSIS-ERROR property={args.prop} no rule module")
        return 2
    return run_property(args.prop, args.tier, seed)


if __name__ == "__main__":
    sys.exit(main())

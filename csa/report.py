"""
Obligations, results, evidence files, known-findings matching, replay files.
"""
from __future__ import annotations

import json
import os
import re
import time
from typing import Any, Dict, List, Optional

VERIF = os.path.dirname(os.path.dirname(os.path.abspath(__file__)))
# (the override serves the regression tools, which evaluate scratch copies of the repository in parallel; the registered
# commands never set it)
EVIDENCE_DIR = os.environ.get("CSA_EVIDENCE_DIR") or os.path.join(VERIF, "evidence")
REPLAY_DIR = os.path.join(EVIDENCE_DIR, "replay")
KNOWN_FILE = os.path.join(VERIF, "KNOWN_FINDINGS.txt")


class Obligation:
    __slots__ = ("rule", "key", "loc", "status", "detail", "nontrivial", "path")

    def __init__(self, rule: str, key: str, loc: str, status: str, detail: str = "", nontrivial: bool = True,
                 path: Optional[List[str]] = None):
        assert status in ("ok", "violation")
        self.rule = rule
        self.key = key
        self.loc = loc
        self.status = status
        self.detail = detail
        self.nontrivial = nontrivial
        self.path = path or []

    def to_json(self) -> Dict[str, Any]:
        d = {"rule": self.rule, "construct": self.key, "at": self.loc, "status": self.status}
        if self.detail:
            d["detail"] = self.detail
        if self.path:
            d["path"] = self.path
        return d


class Result:
    registry: List["Result"] = []       # results under construction (lets the driver keep violations already found
                                        # when a later rule hits a construct it cannot analyse)

    def __init__(self, prop: str):
        Result.registry.append(self)
        self.prop = prop
        self.obligations: List[Obligation] = []
        self.functions: set = set()
        self.call_sites = 0
        self.rules_text: Dict[str, str] = {}
        self.assumptions: List[str] = []
        self.not_decided: List[str] = []
        self.extra: Dict[str, Any] = {}
        self.floors: Dict[str, int] = {}

    # -- recording ------------------------------------------------------
    def rule(self, rule: str, text: str, floor: int = 1):
        self.rules_text[rule] = text
        self.floors[rule] = floor

    def ok(self, rule: str, key: str, loc: str, detail: str = "", nontrivial: bool = True):
        self.obligations.append(Obligation(rule, key, loc, "ok", detail, nontrivial))

    def bad(self, rule: str, key: str, loc: str, detail: str, path: Optional[List[str]] = None):
        self.obligations.append(Obligation(rule, key, loc, "violation", detail, True, path))

    def check(self, cond: bool, rule: str, key: str, loc: str, ok_detail: str = "", bad_detail: str = "",
              nontrivial: bool = True):
        if cond:
            self.ok(rule, key, loc, ok_detail, nontrivial)
        else:
            self.bad(rule, key, loc, bad_detail or ok_detail)
        return cond

    def saw(self, *funcs):
        for f in funcs:
            self.functions.add(getattr(f, "qualname", str(f)))

    @property
    def violations(self) -> List[Obligation]:
        return [o for o in self.obligations if o.status == "violation"]

    def count(self, rule: str) -> int:
        return sum(1 for o in self.obligations if o.rule == rule)

    def merge(self, other: "Result"):
        self.obligations.extend(other.obligations)
        self.functions |= other.functions
        self.call_sites += other.call_sites
        self.rules_text.update(other.rules_text)
        self.floors.update(other.floors)
        for a in other.assumptions:
            if a not in self.assumptions:
                self.assumptions.append(a)
        for a in other.not_decided:
            if a not in self.not_decided:
                self.not_decided.append(a)


# ---------------------------------------------------------------------- known findings
class Known:
    def __init__(self, path: str = KNOWN_FILE):
        self.known: List[Dict[str, str]] = []
        self.fixed: List[str] = []
        if not os.path.exists(path):
            return
        with open(path, "r", encoding="utf-8") as fh:
            for line in fh:
                line = line.strip()
                if not line or line.startswith("#"):
                    continue
                if line.startswith("known:"):
                    m = re.match(r"known:\s+property=(\S+)\s+rule=(\S+)\s+site=(\S+)\s*(.*)", line)
                    if m:
                        self.known.append({"property": m.group(1), "rule": m.group(2), "site": m.group(3),
                                           "what": m.group(4)})
                elif line.startswith("fixed:"):
                    self.fixed.append(line)

    def match(self, prop: str, ob: Obligation) -> Optional[Dict[str, str]]:
        for k in self.known:
            if k["property"] == prop and k["rule"] == ob.rule and k["site"] == site_key(ob.key):
                return k
        return None


def site_key(key: str) -> str:
    """Known-findings site keys contain no blanks."""
    return re.sub(r"\s+", "", key)


# ---------------------------------------------------------------------- evidence
def write_evidence(res: Result, tier: str, seed: int, wall: float, new_violations: List[Obligation],
                   known_hits: List[Obligation], selftest: Optional[Dict[str, Any]] = None,
                   error: Optional[str] = None) -> str:
    os.makedirs(EVIDENCE_DIR, exist_ok=True)
    obs = res.obligations
    distinct = {(o.rule, o.key) for o in obs if o.nontrivial}
    per_rule: Dict[str, Dict[str, int]] = {}
    for o in obs:
        d = per_rule.setdefault(o.rule, {"obligations": 0, "discharged": 0})
        d["obligations"] += 1
        if o.status == "ok":
            d["discharged"] += 1
    samples = []
    seen_rules = set()
    for o in obs:
        if o.rule not in seen_rules or o.status == "violation":
            seen_rules.add(o.rule)
            samples.append(o.to_json())
    samples = samples[:60]
    explanation = (
        f"Static analysis of /repo's current source (ast / call graph / abstract evaluation over finite order types); "
        f"no repository code was imported or executed. {len(obs)} obligations over {len(res.functions)} functions "
        f"were decided by {len(res.rules_text)} rules: " +
        "; ".join(f"{r}: {t}" for r, t in sorted(res.rules_text.items())) +
        (". NOT decided by this check: " + "; ".join(res.not_decided) if res.not_decided else "")
    )
    cov: Dict[str, Any] = {
        "explanation": explanation,
        "evaluations": max(len(obs), 1),
        "distinct_nontrivial": len(distinct),
        "rule": "one evaluation = one obligation (rule instance at a named construct); non-trivial = its discharge "
                "needed an analysis result (table, dataflow fact, resolved call), not only finding the anchor; "
                "distinct = distinct (rule, construct key)",
        "samples": samples or [{"note": "no obligation produced"}],
        "obligations": len(obs),
        "discharged": sum(1 for o in obs if o.status == "ok"),
        "functions_analysed": sorted(res.functions),
        "n_functions_analysed": len(res.functions),
        "call_sites": res.call_sites,
        "per_rule": per_rule,
        "known_findings": [o.to_json() for o in known_hits],
        "new_violations": [o.to_json() for o in new_violations],
        "exhaustive": False,
        "trusted_base": ["CPython ast module", "the abstract evaluator / dataflow engines under /verif/csa",
                         "numpy / numba / igraph / PuLP / CPLEX semantics as tabulated in the rules"],
    }
    cov.update(res.extra)
    if selftest is not None:
        cov["selftest"] = selftest
    if error:
        cov["analysis_error"] = error
    ev = {
        "property_id": res.prop,
        "tier": tier,
        "seed": seed,
        "level": "other",
        "coverage": cov,
        "assumptions": res.assumptions,
        "wall_s": round(wall, 3),
        "violations": len(new_violations),
    }
    path = os.path.join(EVIDENCE_DIR, f"{res.prop}.json")
    tmp = path + ".tmp"
    with open(tmp, "w", encoding="utf-8") as fh:
        json.dump(ev, fh, indent=1, default=str)
    os.replace(tmp, path)
    return path


def write_replay(prop: str, ob: Obligation, k: int) -> str:
    os.makedirs(REPLAY_DIR, exist_ok=True)
    safe = re.sub(r"[^A-Za-z0-9_.-]+", "_", f"{prop}-{ob.rule}-{k}")
    path = os.path.join(REPLAY_DIR, safe + ".json")
    with open(path, "w", encoding="utf-8") as fh:
        json.dump({"property": prop, "rule": ob.rule, "construct": ob.key, "at": ob.loc, "detail": ob.detail,
                   "path": ob.path}, fh, indent=1)
    return path

"""Engine unit checks run by MANIFEST.setup_cmd: the analyser's own building blocks behave as documented."""
import ast
import sys

from .engines.abseval import Evaluator, Sym, Lin, Vec, Unsupported


def _ev(src, env):
    return Evaluator(dict(env)).ev(ast.parse(src, mode="eval").body)


def main() -> int:
    checks = []
    checks.append(_ev("a < b and b != -1", {"a": 0, "b": 1}) is True)
    checks.append(_ev("x[1] - x[0]", {"x": Sym("c")}) == Lin({Sym("c", (1,)): 1, Sym("c", (0,)): -1}))
    checks.append(_ev("2 * (x[0] + 1) - x[0] - x[0]", {"x": Sym("c")}) == Lin({}, 2))
    checks.append(_ev("max(i - 1, 0)", {"i": 0}) == 0)
    checks.append(_ev("f'x_{i}_{j}'", {"i": 1, "j": 2}) == "x_1_2")
    try:
        _ev("x[0] < x[1]", {"x": Sym("c")})
        checks.append(False)
    except Unsupported:
        checks.append(True)
    e = Evaluator({"m": Sym("m"), "n": 2})
    e.run(ast.parse("for i in range(n):\n    v = m[i]\n    v[0] += 1\n    if i > 0:\n        m[i][1] = v[0]\n").body)
    checks.append([r.target for r in e.effects] == [("m", 0, 0), ("m", 1, 0), ("m", 1, 1)])
    from .loader import Project
    from .callgraph import CallGraph
    proj = Project()
    cg = CallGraph(proj)
    st = cg.stats()
    checks.append(st.get("internal", 0) > 50)
    ok = all(checks)
    print(f"selfcheck: {sum(checks)}/{len(checks)} engine checks passed; modules={len(proj.modules)} call sites={sum(st.values())}")
    return 0 if ok else 2


if __name__ == "__main__":
    sys.exit(main())

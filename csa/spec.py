"""
Definitional tables taken from the property texts / the ScoringScheme docstring (the oracle of the table rules).

Status of an ordered pair (x, y) in one input ranking, indexed as the penalty vectors are:
  0 x before y, 1 y before x, 2 tied, 3 only x ranked, 4 only y ranked, 5 both unranked.
Placement of x relative to y in the consensus: 'before' costs B[s], 'after' costs B[sigma(s)] (sigma swaps the
roles of x and y: 0<->1, 3<->4), 'tied' costs T[s].
"""
from __future__ import annotations

STATUS_NAMES = ["LT", "GT", "EQ", "ONLY1", "ONLY2", "NONE"]
SIGMA = {0: 1, 1: 0, 2: 2, 3: 4, 4: 3, 5: 5}
UNRANKED = -1

# representatives (pos_x, pos_y) of each status, two per status where the order type has a free magnitude
REPRESENTATIVES = {
    0: [(0, 1), (2, 7)],
    1: [(1, 0), (7, 2)],
    2: [(0, 0), (3, 3)],
    3: [(0, UNRANKED), (4, UNRANKED)],
    4: [(UNRANKED, 0), (UNRANKED, 4)],
    5: [(UNRANKED, UNRANKED)],
}


def status_of(pos_x: int, pos_y: int) -> int:
    """status of the ordered pair (x, y) in a ranking that gives them these position values (-1 = unranked)"""
    if pos_x != UNRANKED and pos_y != UNRANKED:
        return 0 if pos_x < pos_y else (1 if pos_x > pos_y else 2)
    if pos_x != UNRANKED:
        return 3
    if pos_y != UNRANKED:
        return 4
    return 5


def definitional_cost(placement: str, status: int):
    """('B'|'T', index) charged for `placement` of x w.r.t. y when the input ranking has `status`."""
    if placement == "before":
        return ("B", status)
    if placement == "after":
        return ("B", SIGMA[status])
    if placement == "tied":
        return ("T", status)
    raise ValueError(placement)


# scheme constraints enforced by ScoringScheme.__init__ (extracted and re-checked by C19/G1; used as rewriting
# rules by table comparisons only as long as the constructor still enforces them)
SCHEME_EQUALITIES = [(("T", 0), ("T", 1)), (("T", 3), ("T", 4))]
SCHEME_ZEROS = [("B", 0), ("T", 2)]

# the 13 weak orderings of three scalars (a, b, c) as representative triples
WEAK_ORDERS_3 = [
    (0, 0, 0),
    (0, 0, 1), (0, 1, 0), (1, 0, 0),
    (0, 1, 1), (1, 0, 1), (1, 1, 0),
    (0, 1, 2), (0, 2, 1), (1, 0, 2), (1, 2, 0), (2, 0, 1), (2, 1, 0),
]
WEAK_ORDERS_2 = [(0, 0), (0, 1), (1, 0)]

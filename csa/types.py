"""
Light, annotation-driven type inference for the analysed package (no mypy available offline).

A type is a `T(name, args, cls)`; `cls` is the ClassInfo for package classes.  Inference is flow-insensitive
inside a function: the repo binds each local once with one type (checked: a conflicting rebinding makes the
name's type a union, and rules that need a unique type then report ANALYSIS-ERROR instead of guessing).
"""
from __future__ import annotations

import ast
from typing import Dict, List, Optional

from .loader import Project, Module, ClassInfo, FuncInfo, dotted


class T:
    __slots__ = ("name", "args", "cls")

    def __init__(self, name: str, args: Optional[List["T"]] = None, cls: Optional[ClassInfo] = None):
        self.name = name
        self.args = args or []
        self.cls = cls

    def __repr__(self):
        if self.args:
            return f"{self.name}[{', '.join(map(repr, self.args))}]"
        return self.name

    def __eq__(self, other):
        return isinstance(other, T) and repr(self) == repr(other)

    def __hash__(self):
        return hash(repr(self))

    @property
    def is_set(self):
        return self.name in ("Set", "set", "frozenset", "FrozenSet")

    @property
    def is_list(self):
        return self.name in ("List", "list")

    @property
    def is_dict(self):
        return self.name in ("Dict", "dict")

    def elem(self) -> Optional["T"]:
        if self.name in ("List", "list", "Set", "set", "frozenset", "Iterator", "Iterable", "Sequence") and self.args:
            return self.args[0]
        if self.is_dict and self.args:
            return self.args[0]
        if self.name == "Tuple" and self.args:
            return self.args[0]
        return None


UNKNOWN = T("?")
CONTAINERS = {"List": "List", "list": "List", "Set": "Set", "set": "Set", "Dict": "Dict", "dict": "Dict",
              "Tuple": "Tuple", "tuple": "Tuple", "Iterator": "Iterator", "Iterable": "Iterable",
              "FrozenSet": "Set", "frozenset": "Set", "Sequence": "List"}


def ann_to_type(proj: Project, module: Module, node: Optional[ast.AST]) -> T:
    if node is None:
        return UNKNOWN
    if isinstance(node, ast.Constant):
        if isinstance(node.value, str):
            try:
                return ann_to_type(proj, module, ast.parse(node.value, mode="eval").body)
            except SyntaxError:
                return UNKNOWN
        if node.value is None:
            return T("None")
        return UNKNOWN
    if isinstance(node, ast.Subscript):
        base = dotted(node.value)
        base_last = base.split(".")[-1] if base else None
        sl = node.slice
        items = list(sl.elts) if isinstance(sl, ast.Tuple) else [sl]
        args = [ann_to_type(proj, module, i) for i in items]
        if base_last in ("Optional",):
            return args[0]
        if base_last in ("Union",):
            non_none = [a for a in args if a.name != "None"]
            if len(non_none) == 1:
                return non_none[0]
            return T("Union", args)
        if base_last in CONTAINERS:
            return T(CONTAINERS[base_last], args)
        return T(base_last or "?", args)
    if isinstance(node, ast.BinOp) and isinstance(node.op, ast.BitOr):
        a, b = ann_to_type(proj, module, node.left), ann_to_type(proj, module, node.right)
        if a.name == "None":
            return b
        if b.name == "None":
            return a
        return T("Union", [a, b])
    d = dotted(node)
    if d is None:
        return UNKNOWN
    last = d.split(".")[-1]
    if last in CONTAINERS:
        return T(CONTAINERS[last])
    r = proj.resolve_expr(module, node)
    if r[0] == "class":
        return T(r[1].name, cls=r[1])
    if last in ("int", "str", "float", "bool", "ndarray", "bytes", "Any", "Type"):
        return T(last)
    if last == "Graph":
        return T("Graph")
    return T(last)


class ClassTypes:
    """Instance-attribute and property types of package classes (cached per project)."""

    def __init__(self, proj: Project):
        self.proj = proj
        self._attr_cache: Dict[str, Dict[str, T]] = {}

    def attr_types(self, cls: ClassInfo) -> Dict[str, T]:
        if cls.qualname in self._attr_cache:
            return self._attr_cache[cls.qualname]
        out: Dict[str, T] = {}
        self._attr_cache[cls.qualname] = out
        for c in reversed(self.proj.mro(cls)):
            for f in c.methods.values():
                env = None
                for n in ast.walk(f.node):
                    tgt = val = ann = None
                    if isinstance(n, ast.AnnAssign):
                        tgt, val, ann = n.target, n.value, n.annotation
                    elif isinstance(n, ast.Assign) and len(n.targets) == 1:
                        tgt, val = n.targets[0], n.value
                    if isinstance(tgt, ast.Attribute) and isinstance(tgt.value, ast.Name) and tgt.value.id == "self":
                        name = Project.unmangle(tgt.attr)
                        t = UNKNOWN
                        if ann is not None:
                            t = ann_to_type(self.proj, c.module, ann)
                        elif val is not None:
                            if env is None:
                                env = TypeEnv(self.proj, f, self, shallow=True)
                            t = env.type_of(val)
                        if name not in out or out[name].name == "?":
                            out[name] = t
                        elif t.name != "?" and t != out[name] and t.cls is not None:
                            prev = out[name]
                            alts = list(prev.args) if prev.name == "Union" else [prev]
                            if t not in alts:
                                alts.append(t)
                            out[name] = T("Union", alts)
        return out

    def member_type(self, cls: ClassInfo, name: str) -> T:
        """Type of `obj.name` for obj an instance of cls (property, attribute, or bound method)."""
        name = Project.unmangle(name)
        m = self.proj.lookup_method(cls, name)
        if m is not None:
            if m.kind == "property":
                return ann_to_type(self.proj, m.module, m.node.returns)
            return T("method")
        return self.attr_types(cls).get(name, UNKNOWN)


class TypeEnv:
    def __init__(self, proj: Project, func: FuncInfo, ctypes: Optional[ClassTypes] = None, shallow: bool = False):
        self.proj = proj
        self.func = func
        self.module = func.module
        self.ctypes = ctypes or ClassTypes(proj)
        self.vars: Dict[str, T] = {}
        self._pending: Dict[str, List[ast.AST]] = {}
        self._busy = set()
        self._init_params()
        if not shallow:
            self._collect_bindings()
        else:
            self._collect_bindings()

    def _init_params(self):
        f = self.func
        args = f.node.args
        allp = list(args.posonlyargs) + list(args.args) + list(args.kwonlyargs)
        for i, p in enumerate(allp):
            if i == 0 and f.cls is not None and f.kind in ("method", "property", "setter"):
                self.vars[p.arg] = T(f.cls.name, cls=f.cls)
            elif i == 0 and f.cls is not None and f.kind == "classmethod":
                self.vars[p.arg] = T("type", cls=f.cls)
            elif p.annotation is not None:
                self.vars[p.arg] = ann_to_type(self.proj, self.module, p.annotation)

    def _bind(self, target: ast.AST, kind: str, value: ast.AST):
        if isinstance(target, ast.Name):
            self._pending.setdefault(target.id, []).append((kind, value))
        elif isinstance(target, (ast.Tuple, ast.List)):
            for i, el in enumerate(target.elts):
                self._bind(el, f"{kind}.{i}", value)

    def _collect_bindings(self):
        for n in ast.walk(self.func.node):
            if isinstance(n, ast.AnnAssign) and isinstance(n.target, ast.Name):
                self._pending.setdefault(n.target.id, []).insert(0, ("ann", n.annotation))
            elif isinstance(n, ast.Assign):
                for t in n.targets:
                    self._bind(t, "val", n.value)
            elif isinstance(n, (ast.For, ast.comprehension)):
                self._bind(n.target, "iter", n.iter)
            elif isinstance(n, ast.withitem) and n.optional_vars is not None:
                self._bind(n.optional_vars, "val", n.context_expr)
            elif isinstance(n, ast.NamedExpr):
                self._bind(n.target, "val", n.value)

    def var_type(self, name: str) -> T:
        if name in self.vars:
            return self.vars[name]
        if name in self._busy:
            return UNKNOWN
        self._busy.add(name)
        res = UNKNOWN
        try:
            for kind, value in self._pending.get(name, []):
                t = self._eval_binding(kind, value)
                if t.name != "?":
                    res = t
                    break
        finally:
            self._busy.discard(name)
        self.vars[name] = res
        return res

    def _eval_binding(self, kind: str, value: ast.AST) -> T:
        parts = kind.split(".")
        if parts[0] == "ann":
            return ann_to_type(self.proj, self.module, value)
        t = self.type_of(value)
        if parts[0] == "iter":
            t = self.iter_elem(t, value)
        for idx in parts[1:]:
            if t.name == "Tuple" and t.args:
                i = int(idx)
                t = t.args[i] if i < len(t.args) else UNKNOWN
            else:
                return UNKNOWN
        return t

    # ------------------------------------------------------------------
    def iter_elem(self, t: T, expr: Optional[ast.AST] = None) -> T:
        if t.cls is not None and t.name != "type":
            it = self.proj.lookup_method(t.cls, "__iter__")
            if it is not None:
                rt = ann_to_type(self.proj, it.module, it.node.returns)
                return rt.elem() or UNKNOWN
            return UNKNOWN
        if t.name == "ndarray":
            return T("ndarray")
        e = t.elem()
        return e if e is not None else UNKNOWN

    def type_of(self, node: ast.AST) -> T:
        if isinstance(node, ast.Name):
            if node.id in self.vars or node.id in self._pending:
                return self.var_type(node.id)
            r = self.proj.resolve_in_module(self.module, node.id)
            if r[0] == "class":
                return T("type", cls=r[1])
            return UNKNOWN
        if isinstance(node, ast.Constant):
            v = node.value
            if isinstance(v, bool):
                return T("bool")
            if isinstance(v, int):
                return T("int")
            if isinstance(v, float):
                return T("float")
            if isinstance(v, str):
                return T("str")
            if v is None:
                return T("None")
            return UNKNOWN
        if isinstance(node, ast.JoinedStr):
            return T("str")
        if isinstance(node, (ast.Set, ast.SetComp)):
            el = UNKNOWN
            if isinstance(node, ast.Set) and node.elts:
                el = self.type_of(node.elts[0])
            elif isinstance(node, ast.SetComp):
                el = self._comp_elt(node)
            return T("Set", [el])
        if isinstance(node, (ast.List, ast.ListComp)):
            el = UNKNOWN
            if isinstance(node, ast.List) and node.elts:
                el = self.type_of(node.elts[0])
            elif isinstance(node, ast.ListComp):
                el = self._comp_elt(node)
            return T("List", [el])
        if isinstance(node, ast.GeneratorExp):
            return T("Iterator", [self._comp_elt(node)])
        if isinstance(node, (ast.Dict, ast.DictComp)):
            return T("Dict")
        if isinstance(node, ast.Tuple):
            return T("Tuple", [self.type_of(e) for e in node.elts])
        if isinstance(node, ast.Attribute):
            bt = self.type_of(node.value)
            if bt.cls is not None:
                if bt.name == "type":
                    m = self.proj.lookup_method(bt.cls, node.attr)
                    if m is not None:
                        return T("method")
                    return UNKNOWN
                return self.ctypes.member_type(bt.cls, node.attr)
            return UNKNOWN
        if isinstance(node, ast.Subscript):
            bt = self.type_of(node.value)
            if isinstance(node.slice, ast.Slice):
                return bt
            if bt.cls is not None and bt.name != "type":
                gi = self.proj.lookup_method(bt.cls, "__getitem__")
                if gi is not None:
                    return ann_to_type(self.proj, gi.module, gi.node.returns)
                return UNKNOWN
            if bt.is_list and bt.args:
                return bt.args[0]
            if bt.is_dict and len(bt.args) == 2:
                return bt.args[1]
            if bt.name == "Tuple" and bt.args and isinstance(node.slice, ast.Constant) \
                    and isinstance(node.slice.value, int) and node.slice.value < len(bt.args):
                return bt.args[node.slice.value]
            if bt.name == "ndarray":
                return T("ndarray")
            return UNKNOWN
        if isinstance(node, ast.Call):
            return self._call_type(node)
        if isinstance(node, ast.BinOp):
            lt, rt = self.type_of(node.left), self.type_of(node.right)
            if lt.is_set or rt.is_set:
                return lt if lt.is_set else rt
            if lt.name == "ndarray" or rt.name == "ndarray":
                return T("ndarray")
            if lt.name == "str" and isinstance(node.op, (ast.Add, ast.Mod)):
                return T("str")
            if lt.is_list and isinstance(node.op, (ast.Add, ast.Mult)):
                return lt
            return lt if lt.name != "?" else rt
        if isinstance(node, ast.IfExp):
            a = self.type_of(node.body)
            return a if a.name != "?" else self.type_of(node.orelse)
        if isinstance(node, (ast.Compare, ast.BoolOp)) or (isinstance(node, ast.UnaryOp) and isinstance(node.op, ast.Not)):
            return T("bool")
        if isinstance(node, ast.UnaryOp):
            return self.type_of(node.operand)
        if isinstance(node, ast.Starred):
            return self.type_of(node.value)
        return UNKNOWN

    def _comp_elt(self, node) -> T:
        # comprehension targets are registered as pending bindings by _collect_bindings (ast.comprehension)
        return self.type_of(node.elt)

    def _call_type(self, node: ast.Call) -> T:
        f = node.func
        if isinstance(f, ast.Name):
            n = f.id
            if n in self.vars or n in self._pending:
                return UNKNOWN
            r = self.proj.resolve_in_module(self.module, n)
            if r[0] == "class":
                return T(r[1].name, cls=r[1])
            if r[0] == "func":
                return ann_to_type(self.proj, r[1].module, r[1].node.returns)
            if n in ("set", "frozenset"):
                if node.args:
                    return T("Set", [self.iter_elem(self.type_of(node.args[0]))])
                return T("Set", [UNKNOWN])
            if n in ("list", "sorted", "reversed"):
                if node.args:
                    return T("List", [self.iter_elem(self.type_of(node.args[0]))])
                return T("List", [UNKNOWN])
            if n == "tuple":
                return T("Tuple", [])
            if n == "dict":
                return T("Dict")
            if n in ("len", "int", "sum", "abs", "round", "hash"):
                return T("int")
            if n in ("str", "repr"):
                return T("str")
            if n == "float":
                return T("float")
            if n in ("isinstance", "bool", "any", "all"):
                return T("bool")
            if n == "enumerate" and node.args:
                return T("Iterator", [T("Tuple", [T("int"), self.iter_elem(self.type_of(node.args[0]))])])
            if n == "zip":
                return T("Iterator", [T("Tuple", [self.iter_elem(self.type_of(a)) for a in node.args])])
            if n == "range":
                return T("List", [T("int")])
            if n == "iter" and node.args:
                return T("Iterator", [self.iter_elem(self.type_of(node.args[0]))])
            if n == "super":
                if self.func.cls is not None:
                    return T("super", cls=self.func.cls)
                return UNKNOWN
            if r[0] == "external":
                return self._external_ret(r[1], node)
            return UNKNOWN
        if isinstance(f, ast.Attribute):
            d = dotted(f)
            if d in ("copy.deepcopy", "copy.copy", "deepcopy") and node.args:
                return self.type_of(node.args[0])
            bt = self.type_of(f.value)
            if bt.name == "super" and bt.cls is not None:
                mro = self.proj.mro(bt.cls)[1:]
                for c in mro:
                    if f.attr in c.methods:
                        return ann_to_type(self.proj, c.module, c.methods[f.attr].node.returns)
                return UNKNOWN
            if bt.cls is not None:
                m = self.proj.lookup_method(bt.cls, f.attr)
                if m is not None:
                    if bt.name == "type" and m.name == "__init__":
                        return T("None")
                    rt = ann_to_type(self.proj, m.module, m.node.returns)
                    return rt
                return UNKNOWN
            if bt.is_dict:
                if f.attr == "items":
                    return T("Iterator", [T("Tuple", list(bt.args[:2]))]) if len(bt.args) == 2 else T("Iterator")
                if f.attr == "keys":
                    return T("Iterator", bt.args[:1])
                if f.attr == "values":
                    return T("Iterator", bt.args[1:2])
                if f.attr in ("get", "pop", "setdefault") and len(bt.args) == 2:
                    return bt.args[1]
                if f.attr == "copy":
                    return bt
            if bt.is_set:
                if f.attr in ("intersection", "union", "difference", "copy", "symmetric_difference"):
                    return bt
            if bt.is_list and f.attr == "copy":
                return bt
            if bt.name == "str":
                if f.attr in ("strip", "replace", "lower", "upper", "join", "lstrip", "rstrip", "format"):
                    return T("str")
                if f.attr in ("split", "splitlines"):
                    return T("List", [T("str")])
                if f.attr in ("find", "rfind", "index", "count"):
                    return T("int")
                if f.attr in ("isdigit", "startswith", "endswith"):
                    return T("bool")
            if bt.name == "ndarray":
                return T("ndarray")
            r = self.proj.resolve_expr(self.module, f)
            if r[0] == "func":
                return ann_to_type(self.proj, r[1].module, r[1].node.returns)
            if r[0] == "class":
                return T(r[1].name, cls=r[1])
            if r[0] == "external":
                return self._external_ret(r[1], node)
        return UNKNOWN

    @staticmethod
    def _external_ret(name: str, node: ast.Call) -> T:
        if name.startswith("numpy."):
            last = name.split(".")[-1]
            if last in ("count_nonzero", "sum", "max", "amin", "amax", "min", "vdot"):
                return T("number")
            if last == "where":
                return T("Tuple", [T("ndarray")])
            return T("ndarray")
        if name == "collections.Counter":
            return T("Counter")
        return UNKNOWN

"""
Resolved call graph of the package.  For each ast.Call inside a function: the set of possible package callees
(constructor -> __init__; polymorphic receiver -> the method found by MRO plus every override in subclasses,
i.e. class-hierarchy analysis), or an external dotted name, or 'unknown'.
"""
from __future__ import annotations

import ast
from typing import Dict, List, Optional, Tuple, Set

from .loader import Project, FuncInfo, ClassInfo, dotted, AnalysisError
from .types import TypeEnv, ClassTypes, T

# attribute names that belong to builtin containers / str / numpy: never resolved by unique-name CHA
BUILTIN_METHODS = {
    "append", "extend", "insert", "pop", "remove", "clear", "add", "discard", "update", "sort", "reverse",
    "setdefault", "popitem", "get", "items", "keys", "values", "copy", "index", "count", "join", "split", "strip",
    "replace", "find", "rfind", "startswith", "endswith", "isdigit", "lower", "upper", "format", "intersection",
    "union", "difference", "issubset", "issuperset", "fill", "flatten", "reshape", "transpose", "tolist", "astype",
    "read", "write", "close", "value", "solve", "components", "add_vertex", "add_edges", "set",
}


class CallSite:
    __slots__ = ("caller", "node", "callees", "external", "kind", "via_instance", "receiver_type")

    def __init__(self, caller: FuncInfo, node: ast.Call):
        self.caller = caller
        self.node = node
        self.callees: List[FuncInfo] = []
        self.external: Optional[str] = None
        self.kind = "unknown"           # internal | constructor | external | builtin | unknown
        self.via_instance = False       # bound call: first parameter supplied implicitly
        self.receiver_type: Optional[T] = None


class CallGraph:
    def __init__(self, proj: Project):
        self.proj = proj
        self.ctypes = ClassTypes(proj)
        self.envs: Dict[str, TypeEnv] = {}
        self.sites: Dict[str, List[CallSite]] = {}
        self.by_node: Dict[int, CallSite] = {}
        self._method_names: Dict[str, List[FuncInfo]] = {}
        for f in proj.all_functions():
            if f.cls is not None:
                self._method_names.setdefault(f.name, []).append(f)
        for f in proj.all_functions():
            self.sites[f.qualname] = self._resolve_function(f)

    def env(self, f: FuncInfo) -> TypeEnv:
        if f.qualname not in self.envs:
            self.envs[f.qualname] = TypeEnv(self.proj, f, self.ctypes)
        return self.envs[f.qualname]

    # ------------------------------------------------------------------
    def _virtual(self, cls: ClassInfo, name: str) -> List[FuncInfo]:
        """Method found on cls by MRO plus all overrides in subclasses (deduplicated)."""
        out: List[FuncInfo] = []
        m = self.proj.lookup_method(cls, name)
        if m is not None:
            out.append(m)
        for sub in self.proj.subclasses(cls, strict=True):
            uname = self.proj.unmangle(name)
            if uname in sub.methods and sub.methods[uname] not in out:
                out.append(sub.methods[uname])
        return out

    def _resolve_function(self, f: FuncInfo) -> List[CallSite]:
        env = self.env(f)
        out = []
        for n in ast.walk(f.node):
            if isinstance(n, ast.Call):
                cs = self._resolve_call(f, env, n)
                out.append(cs)
                self.by_node[id(n)] = cs
        return out

    def _resolve_call(self, f: FuncInfo, env: TypeEnv, n: ast.Call) -> CallSite:
        cs = CallSite(f, n)
        fn = n.func
        proj = self.proj
        if isinstance(fn, ast.Name):
            if fn.id in env.vars or fn.id in env._pending:
                t = env.type_of(fn)
                if t.name == "type" and t.cls is not None:
                    return self._ctor(cs, t.cls)
                cs.kind = "unknown"
                return cs
            r = proj.resolve_in_module(f.module, fn.id)
            if r[0] == "class":
                return self._ctor(cs, r[1])
            if r[0] == "func":
                cs.kind = "internal"
                cs.callees = [r[1]]
                return cs
            if r[0] == "external":
                cs.kind = "external"
                cs.external = r[1]
                return cs
            cs.kind = "builtin"
            cs.external = fn.id
            return cs
        if isinstance(fn, ast.Attribute):
            # super().m(...)
            if isinstance(fn.value, ast.Call) and isinstance(fn.value.func, ast.Name) and fn.value.func.id == "super" \
                    and f.cls is not None:
                for c in proj.mro(f.cls)[1:]:
                    if fn.attr in c.methods:
                        cs.kind = "internal"
                        cs.callees = [c.methods[fn.attr]]
                        cs.via_instance = True
                        return cs
                cs.kind = "external"
                cs.external = f"super.{fn.attr}"
                return cs
            bt = env.type_of(fn.value)
            cs.receiver_type = bt
            if bt.name == "Union" and any(a.cls is not None for a in bt.args):
                ms: List[FuncInfo] = []
                for a in bt.args:
                    if a.cls is not None:
                        for m in self._virtual(a.cls, fn.attr):
                            if m not in ms:
                                ms.append(m)
                if ms:
                    cs.kind = "internal"
                    cs.callees = ms
                    cs.via_instance = True
                    return cs
            if bt.cls is not None:
                if bt.name == "type":
                    # Class.method(...) : static / class / explicit-self call
                    m = proj.lookup_method(bt.cls, fn.attr)
                    if m is not None:
                        cs.kind = "internal"
                        # `cls.x()` inside a classmethod may be overridden; Class.x() is exact
                        cs.callees = [m]
                        cs.via_instance = m.kind == "classmethod"
                        return cs
                    cs.kind = "unknown"
                    return cs
                ms = self._virtual(bt.cls, fn.attr)
                if ms:
                    cs.kind = "internal"
                    cs.callees = ms
                    cs.via_instance = True
                    return cs
                # callable attribute?
                cs.kind = "unknown"
                return cs
            r = proj.resolve_expr(f.module, fn)
            if r[0] == "func":
                cs.kind = "internal"
                cs.callees = [r[1]]
                return cs
            if r[0] == "class":
                return self._ctor(cs, r[1])
            if r[0] == "external":
                cs.kind = "external"
                cs.external = r[1]
                return cs
            # unique-method-name CHA for untyped receivers
            if fn.attr not in BUILTIN_METHODS and fn.attr in self._method_names and bt.name == "?":
                cs.kind = "internal"
                cs.callees = list(self._method_names[fn.attr])
                cs.via_instance = True
                return cs
            cs.kind = "builtin" if bt.name != "?" or fn.attr in BUILTIN_METHODS else "unknown"
            cs.external = f"<{bt!r}>.{fn.attr}"
            return cs
        # call of a call / subscript result, e.g. (table[k])(**params)
        cs.kind = "unknown"
        return cs

    def _ctor(self, cs: CallSite, cls: ClassInfo) -> CallSite:
        cs.kind = "constructor"
        init = self.proj.lookup_method(cls, "__init__")
        cs.callees = [init] if init is not None else []
        cs.via_instance = True
        cs.receiver_type = T(cls.name, cls=cls)
        return cs

    # ------------------------------------------------------------------
    def callees_of(self, f: FuncInfo) -> List[FuncInfo]:
        out = []
        for cs in self.sites.get(f.qualname, []):
            for c in cs.callees:
                if c not in out:
                    out.append(c)
        return out

    def reachable(self, roots: List[FuncInfo]) -> List[FuncInfo]:
        seen: List[FuncInfo] = []
        work = list(roots)
        while work:
            f = work.pop()
            if f in seen:
                continue
            seen.append(f)
            # property reads are calls too
            for p in self.property_reads(f):
                if p not in seen:
                    work.append(p)
            for c in self.callees_of(f):
                if c not in seen:
                    work.append(c)
        return seen

    def property_reads(self, f: FuncInfo) -> List[FuncInfo]:
        env = self.env(f)
        out = []
        for n in ast.walk(f.node):
            if isinstance(n, ast.Attribute) and isinstance(n.ctx, ast.Load):
                bt = env.type_of(n.value)
                if bt.cls is not None and bt.name != "type":
                    m = self.proj.lookup_method(bt.cls, n.attr)
                    if m is not None and m.kind == "property" and m not in out:
                        out.append(m)
        return out

    def callers_of(self, target: FuncInfo) -> List[CallSite]:
        out = []
        for sites in self.sites.values():
            for cs in sites:
                if target in cs.callees:
                    out.append(cs)
        return out

    def stats(self) -> Dict[str, int]:
        st: Dict[str, int] = {}
        for sites in self.sites.values():
            for cs in sites:
                st[cs.kind] = st.get(cs.kind, 0) + 1
        return st

"""
Abstract counterparts of the few external functions the package's pure-Python layer uses (copy, collections,
itertools, operator, math, a slice of numpy on lists / Mat / Vec).  Registered in Runtime.externals.
"""
from __future__ import annotations

import collections

import itertools
import math
from typing import Any, Dict

from .abseval import Unsupported, Obj, Mat, Vec, Sym, Lin, OnceIter, AbsRaise, norm_dtype, check_dtype, DType
from .npmodel import Cube, GraphObj
from .instances import Runtime, Instance, ExternalFunc


def deep(v, memo=None):
    if memo is None:
        memo = {}
    if id(v) in memo:
        return memo[id(v)]
    if isinstance(v, Instance):
        o = Instance(v.rt, v.cls)
        memo[id(v)] = o
        o.attrs = {k: deep(x, memo) for k, x in v.attrs.items()}
        v.rt.created.append(o)
        return o
    if isinstance(v, list):
        out = []
        memo[id(v)] = out
        out.extend(deep(x, memo) for x in v)
        return out
    if isinstance(v, set):
        return {deep(x, memo) for x in v}
    if isinstance(v, frozenset):
        return frozenset(deep(x, memo) for x in v)
    if isinstance(v, tuple):
        return tuple(deep(x, memo) for x in v)
    if isinstance(v, dict):
        return {deep(k, memo): deep(x, memo) for k, x in v.items()}
    if isinstance(v, Mat):
        return Mat([list(r) for r in v.rows])
    if isinstance(v, Vec):
        return Vec(list(v.vals))
    return v


class CounterObj(collections.Counter):
    """collections.Counter itself (missing keys count 0, most_common, subtract, unary + / -, multiset operators)."""


class DequeObj(list):
    """collections.deque as a list with the extra operations at the left end (no maxlen)."""

    def appendleft(self, x):
        self.insert(0, x)

    def popleft(self):
        if not self:
            raise IndexError("pop from an empty deque")
        return self.pop(0)

    def extendleft(self, it):
        for x in it:
            self.insert(0, x)

    def rotate(self, n=1):
        if self:
            n %= len(self)
            self[:] = self[-n:] + self[:-n]


class RandomPolicy:
    """Which item of its range every random draw returns: "first", "last" or "middle"; `log` keeps the range sizes."""

    def __init__(self):
        self.mode = "first"
        self.log = []

    def index(self, n: int) -> int:
        self.log.append(("draw", n))
        return 0 if self.mode == "first" else (n - 1 if self.mode == "last" else n // 2)


def install(rt: Runtime) -> Runtime:
    ex = rt.externals

    def fn(f):
        def call(args, kw, ev, node):
            try:
                return f(*args, **kw)
            except (Unsupported, AbsRaise):
                raise
            except (KeyError, IndexError, ValueError, ZeroDivisionError) as exc:
                raise AbsRaise(type(exc).__name__, node)
            except Exception as exc:        # the abstract counterpart does not cover this use
                raise Unsupported(f"abstract library function failed: {exc!r}", node)
        return ExternalFunc(call)

    ex["copy.deepcopy"] = fn(lambda v: deep(v))
    ex["copy.copy"] = fn(lambda v: list(v) if isinstance(v, list) else (set(v) if isinstance(v, set) else (dict(v) if isinstance(v, dict) else v)))

    def counter(it=(), **kw):
        c = CounterObj()
        if hasattr(it, "abs_iter"):
            it = it.abs_iter()
        if isinstance(it, (set, frozenset)):
            from .abseval import set_items
            it = set_items(it)
        c.update(it, **kw)
        return c
    ex["collections.Counter"] = fn(counter)
    ex["itertools.combinations"] = fn(lambda seq, k: OnceIter([tuple(c) for c in itertools.combinations(
        sorted(seq) if isinstance(seq, (set, frozenset)) else list(seq), k)]))

    def groupby(seq, key=None):
        out = []
        for x in seq:
            k = key(x) if key else x
            if out and out[-1][0] == k:
                out[-1][1].append(x)
            else:
                out.append((k, [x]))
        return out
    ex["operator.itemgetter"] = fn(lambda i: (lambda x: x[i]))
    ex["math.isnan"] = fn(lambda v: isinstance(v, float) and math.isnan(v))
    import posixpath as _pp
    for _n in ("basename", "dirname", "join", "split", "splitext", "normpath", "isabs", "relpath", "commonprefix"):
        ex[f"os.path.{_n}"] = fn(getattr(_pp, _n))
    ex["os.path.abspath"] = fn(lambda p: _pp.normpath(p if _pp.isabs(p) else _pp.join("/cwd", p)))
    ex["os.path.pardir"] = ".."
    ex["os.path.sep"] = "/"
    ex["os.sep"] = "/"
    ex["os.pardir"] = ".."
    ex["os.curdir"] = "."
    ex["time.time"] = fn(lambda: 0.0)

    # ---- wider slice of itertools / functools / collections / operator / math ------------------------------------
    def fn2(f):
        """like fn, but the model receives (ev, node) first so that it can apply abstract callables"""
        def call(args, kw, ev, node):
            try:
                return f(ev, node, *args, **kw)
            except (Unsupported, AbsRaise):
                raise
            except (KeyError, IndexError, ValueError, ZeroDivisionError) as exc:
                raise AbsRaise(type(exc).__name__, node)
            except Exception as exc:
                raise Unsupported(f"abstract library function failed: {exc!r}", node)
        return ExternalFunc(call)

    def seq_of(v):
        if hasattr(v, "abs_iter"):
            return list(v.abs_iter())
        if isinstance(v, Vec):
            return list(v.vals)
        if isinstance(v, Mat):
            return [Vec.view(r, v.dtype) for r in v.rows]
        if isinstance(v, (set, frozenset)):
            from .abseval import set_items
            return set_items(v)
        if isinstance(v, dict):
            return list(v)
        if isinstance(v, (list, tuple, str, range)):
            return list(v)
        raise Unsupported("iteration over an abstract value in a library function")

    def apply(ev, node, f, *a):
        if hasattr(f, "abs_call"):
            return f.abs_call(list(a), {}, ev, node)
        if callable(f):
            return f(*a)
        raise Unsupported("call of a non-callable in a library function")

    ex["itertools.product"] = fn(lambda *seqs, repeat=1: OnceIter(
        [tuple(t) for t in itertools.product(*[seq_of(q) for q in seqs], repeat=repeat)]))
    ex["itertools.permutations"] = fn(lambda seq, r=None: OnceIter([tuple(t) for t in itertools.permutations(seq_of(seq), r)]))
    ex["itertools.combinations_with_replacement"] = fn(lambda seq, r: OnceIter(
        [tuple(t) for t in itertools.combinations_with_replacement(seq_of(seq), r)]))
    ex["itertools.chain"] = fn(lambda *seqs: OnceIter([x for q in seqs for x in seq_of(q)]))
    ex["itertools.chain.from_iterable"] = fn(lambda seqs: OnceIter([x for q in seq_of(seqs) for x in seq_of(q)]))
    ex["itertools.chain"].attrs = {"from_iterable": ex["itertools.chain.from_iterable"]}
    ex["itertools.islice"] = fn(lambda seq, *a: OnceIter(list(itertools.islice(seq_of(seq), *a))))
    ex["itertools.repeat"] = fn(lambda v, n: OnceIter([v] * n))
    ex["itertools.zip_longest"] = fn(lambda *seqs, fillvalue=None: OnceIter(
        [tuple(t) for t in itertools.zip_longest(*[seq_of(q) for q in seqs], fillvalue=fillvalue)]))
    ex["itertools.pairwise"] = fn(lambda seq: OnceIter(list(zip(seq_of(seq), seq_of(seq)[1:]))))

    def accumulate(ev, node, seq, func=None, initial=None):
        out = [] if initial is None else [initial]
        for x in seq_of(seq):
            if not out:
                out.append(x)
            else:
                out.append(apply(ev, node, func, out[-1], x) if func is not None else out[-1] + x)
        return OnceIter(out)
    ex["itertools.accumulate"] = fn2(accumulate)
    ex["itertools.starmap"] = fn2(lambda ev, node, f, seq: OnceIter([apply(ev, node, f, *t) for t in seq_of(seq)]))

    def takewhile(ev, node, pred, seq):
        out = []
        for x in seq_of(seq):
            if not apply(ev, node, pred, x):
                break
            out.append(x)
        return OnceIter(out)
    ex["itertools.takewhile"] = fn2(takewhile)

    def dropwhile(ev, node, pred, seq):
        items = seq_of(seq)
        k = 0
        while k < len(items) and apply(ev, node, pred, items[k]):
            k += 1
        return OnceIter(items[k:])
    ex["itertools.dropwhile"] = fn2(dropwhile)

    def groupby2(ev, node, seq, key=None):
        out = []
        for x in seq_of(seq):
            k = apply(ev, node, key, x) if key is not None else x
            if out and out[-1][0] == k:
                out[-1][1].append(x)
            else:
                out.append((k, [x]))
        return OnceIter(out)
    ex["itertools.groupby"] = fn2(groupby2)

    def reduce_(ev, node, f, seq, *init):
        items = seq_of(seq)
        if init:
            acc = init[0]
        elif items:
            acc, items = items[0], items[1:]
        else:
            raise AbsRaise("TypeError", node)
        for x in items:
            acc = apply(ev, node, f, acc, x)
        return acc
    ex["functools.reduce"] = fn2(reduce_)

    class Partial(Obj):
        def __init__(self, f, a, k):
            super().__init__("functools.partial")
            self.f, self.a, self.k = f, list(a), dict(k)

        def abs_call(self, args, kw, ev, node):
            k2 = dict(self.k)
            k2.update(kw)
            if hasattr(self.f, "abs_call"):
                return self.f.abs_call(self.a + list(args), k2, ev, node)
            return self.f(*(self.a + list(args)), **k2)
    ex["functools.partial"] = fn(lambda f, *a, **k: Partial(f, a, k))
    ex["functools.lru_cache"] = fn(lambda *a, **k: (a[0] if a and (callable(a[0]) or hasattr(a[0], "abs_call")) else (lambda f: f)))
    ex["functools.cache"] = fn(lambda f: f)

    class DefaultDict(dict):
        """collections.defaultdict: a missing key read through [] is created with the factory (see Evaluator._e_Subscript)"""
        default_factory = None

    def defaultdict(factory=None, *a, **k):
        d = DefaultDict(*a, **k)
        d.default_factory = factory
        return d
    ex["collections.defaultdict"] = fn(defaultdict)
    ex["collections.OrderedDict"] = fn(lambda *a, **k: dict(*[seq_of(x) if not isinstance(x, dict) else x for x in a], **k))
    def deque_ctor(it=(), maxlen=None):
        if maxlen is not None:
            raise Unsupported("deque with a maximum length")
        return DequeObj(seq_of(it))
    ex["collections.deque"] = fn(deque_ctor)
    ex["operator.attrgetter"] = fn(lambda name: ExternalFunc(lambda a, k, ev, node: ev.getattr_value(a[0], name, node)))
    for _op, _f in (("add", lambda a, b: a + b), ("mul", lambda a, b: a * b), ("sub", lambda a, b: a - b),
                    ("lt", lambda a, b: a < b), ("le", lambda a, b: a <= b), ("gt", lambda a, b: a > b),
                    ("ge", lambda a, b: a >= b), ("eq", lambda a, b: a == b), ("ne", lambda a, b: a != b),
                    ("neg", lambda a: -a), ("truediv", lambda a, b: a / b), ("floordiv", lambda a, b: a // b)):
        ex[f"operator.{_op}"] = fn(_f)
    for _m in ("floor", "ceil", "sqrt", "fsum", "log", "log2", "exp", "isfinite", "isinf", "comb", "factorial", "gcd",
               "pow", "trunc", "copysign", "prod"):
        ex[f"math.{_m}"] = fn(getattr(math, _m))
    ex["math.pi"] = math.pi
    ex["math.e"] = math.e
    ex["math.nan"] = float("nan")

    # ---- re: the standard matcher applied to the concrete strings of an evaluation (never to repository code) ------
    import re as _re

    class MatchObj(Obj):
        def __init__(self, m):
            super().__init__("re.Match")
            self.m = m
            self.methods = {
                "group": lambda ev, c, a, k: m.group(*a), "groups": lambda ev, c, a, k: m.groups(*a),
                "start": lambda ev, c, a, k: m.start(*a), "end": lambda ev, c, a, k: m.end(*a),
                "span": lambda ev, c, a, k: m.span(*a), "groupdict": lambda ev, c, a, k: m.groupdict(),
            }
            self.attrs = {"string": m.string, "lastindex": m.lastindex}

        def abs_getitem(self, idx, node):
            return self.m[idx]

    def wrap_match(m):
        return None if m is None else MatchObj(m)

    class PatternObj(Obj):
        def __init__(self, pat):
            super().__init__("re.Pattern")
            self.pat = pat
            self.methods = {
                "match": lambda ev, c, a, k: wrap_match(pat.match(*a)),
                "fullmatch": lambda ev, c, a, k: wrap_match(pat.fullmatch(*a)),
                "search": lambda ev, c, a, k: wrap_match(pat.search(*a)),
                "finditer": lambda ev, c, a, k: [MatchObj(m) for m in pat.finditer(*a)],
                "findall": lambda ev, c, a, k: pat.findall(*a),
                "split": lambda ev, c, a, k: pat.split(*a, **k),
                "sub": lambda ev, c, a, k: self._sub(a, k),
            }
            self.attrs = {"pattern": pat.pattern, "flags": pat.flags}

        def _sub(self, a, k):
            if not isinstance(a[0], str):
                raise Unsupported("re.sub with a function replacement")
            return self.pat.sub(*a, **k)

    def re_compile(pattern, flags=0):
        if not isinstance(pattern, str):
            raise Unsupported("re.compile of a non-constant pattern")
        return PatternObj(_re.compile(pattern, flags))

    def re_fn(name):
        def call(pattern, *a, **k):
            po = pattern if isinstance(pattern, PatternObj) else re_compile(pattern, k.pop("flags", 0))
            return po.methods[name](None, None, list(a), k)
        return call
    ex["re.compile"] = fn(re_compile)
    for _n in ("match", "fullmatch", "search", "finditer", "findall", "split", "sub"):
        ex[f"re.{_n}"] = fn(re_fn(_n))
    ex["re.escape"] = fn(_re.escape)
    for _f in ("IGNORECASE", "I", "MULTILINE", "M", "DOTALL", "S", "VERBOSE", "X", "ASCII", "A"):
        ex[f"re.{_f}"] = int(getattr(_re, _f))

    # ---- numpy slice ----------------------------------------------------------------------------------------
    def infer_dtype(cells):
        """dtype numpy would give an array built from these python values (None when it cannot be told)."""
        if not cells:
            return "float64"
        if all(isinstance(x, bool) for x in cells):
            return "bool_"
        if all(isinstance(x, int) for x in cells):
            return "int64"
        if all(isinstance(x, (int, float)) for x in cells):
            return "float64"
        return None

    def dtype_of(v):
        if isinstance(v, (Vec, Mat)) and v.dtype:
            return v.dtype
        cells = v.vals if isinstance(v, Vec) else ([x for r in v.rows for x in r] if isinstance(v, Mat) else None)
        return infer_dtype(cells) if cells is not None else None

    def np_full(shape, value, dtype=None):
        dt = norm_dtype(dtype) or infer_dtype([value])
        r = np_full0(shape, check_dtype(dt, value, None))
        if isinstance(r, (Mat, Vec)) and isinstance(dt, str):
            r.dtype = dt
        return r

    def np_full0(shape, value, dtype=None):
        if isinstance(shape, tuple) and len(shape) == 3:
            c = Cube([[[value] * shape[2] for _ in range(shape[1])] for _ in range(shape[0])])
            c.as_matrix = True
            return c
        if isinstance(shape, tuple) and len(shape) == 2:
            return Mat([[value] * shape[1] for _ in range(shape[0])])
        if isinstance(shape, tuple) and len(shape) == 1:
            return Vec([value] * shape[0])
        if isinstance(shape, int):
            return Vec([value] * shape)
        raise Unsupported("full shape")

    def np_zeros(shape, dtype=None):
        return np_full(shape, 0, dtype or "float64")        # numpy's default element type is float64

    def np_ones(shape, dtype=None):
        return np_full(shape, 1, dtype or "float64")

    def np_asarray(v, dtype=None):
        dt = norm_dtype(dtype)
        if isinstance(dt, str) and not isinstance(v, (Sym, Cube)):
            if isinstance(v, (Mat, Vec)):
                cells = v.vals if isinstance(v, Vec) else [x for r in v.rows for x in r]
                same = v.dtype == dt or (v.dtype is None and all(check_dtype(dt, x, None) is x or
                                                                 (type(check_dtype(dt, x, None)) is type(x)) for x in cells))
                if same:
                    return v            # no conversion needed: the same array
            return np_array(v, dt)
        if isinstance(v, (Mat, Vec, Sym, Cube)):
            return v
        if isinstance(v, tuple):
            v = list(v)
        if isinstance(v, list):
            v = [list(r) if isinstance(r, tuple) else (list(r.vals) if isinstance(r, Vec) else r) for r in v]
            if v and all(isinstance(r, list) for r in v):
                if len({len(r) for r in v}) != 1:
                    raise ValueError("setting an array element with a sequence (inhomogeneous shape)")
                return Mat([list(r) for r in v])
            return Vec(list(v))
        if isinstance(v, (int, float, bool)):
            return v
        raise Unsupported("asarray operand")

    def np_max(v, axis=None, initial=None):
        if isinstance(v, Mat) and axis is not None:
            return v._reduce(max, axis, None)
        vals = v.vals if isinstance(v, Vec) else v
        if isinstance(v, Mat):
            vals = [x for r in v.rows for x in r]
        vals = list(vals) + ([initial] if initial is not None else [])
        if not vals:
            raise ValueError("zero-size array to reduction operation maximum which has no identity")
        return max(vals)

    def np_sum(v, axis=None):
        if isinstance(v, Mat):
            return v._sum(axis)
        vals = v.vals if isinstance(v, Vec) else v
        return sum(1 if x is True else (0 if x is False else x) for x in vals)

    def np_sort(v, axis=-1, kind=None):
        if isinstance(v, Mat):
            if axis in (-1, 1):
                return Mat([sorted(r) for r in v.rows])
            if axis == 0:
                cols = [sorted(c) for c in zip(*v.rows)]
                return Mat([list(r) for r in zip(*cols)])
            if axis is None:
                return Vec(sorted(x for r in v.rows for x in r))
            raise Unsupported("sort axis")
        vals = v.vals if isinstance(v, Vec) else list(v)
        return Vec(sorted(vals))

    def np_cumsum(v):
        vals = v.vals if isinstance(v, Vec) else list(v)
        out, tot = [], 0
        for x in vals:
            tot = tot + x
            out.append(tot)
        return Vec(out)

    def np_concatenate(parts, axis=0):
        parts = list(parts.abs_iter()) if hasattr(parts, "abs_iter") else list(parts)
        if not parts:
            raise ValueError("need at least one array to concatenate")
        if any(isinstance(p_, Mat) for p_ in parts):
            if not all(isinstance(p_, Mat) for p_ in parts) or axis not in (0,):
                raise Unsupported("concatenate of matrices along this axis")
            return Mat([list(r) for p_ in parts for r in p_.rows])
        out = []
        for p_ in parts:
            out.extend(p_.vals if isinstance(p_, Vec) else list(p_))
        return Vec(out)

    def np_vdot(a, b):
        av = a.vals if isinstance(a, Vec) else list(a)
        bv = b.vals if isinstance(b, Vec) else list(b)
        if len(av) != len(bv):
            raise Unsupported("vdot length mismatch")
        tot = 0
        for x, y in zip(av, bv):
            tot = tot + x * y
        return tot

    def np_array(v, dtype=None):
        r = np_asarray(v)
        dt = norm_dtype(dtype)
        if isinstance(r, Vec):
            out = Vec([check_dtype(dt, x, None) for x in r.vals])
            out.dtype = dt if isinstance(dt, str) else r.dtype
            return out
        if isinstance(r, Mat):
            out = Mat([[check_dtype(dt, x, None) for x in row] for row in r.rows])
            out.dtype = dt if isinstance(dt, str) else r.dtype
            return out
        return r

    def np_min(v, axis=None, initial=None):
        if isinstance(v, Mat) and axis is not None:
            return v._reduce(min, axis, None)
        vals = v.vals if isinstance(v, Vec) else ([x for r in v.rows for x in r] if isinstance(v, Mat) else list(v))
        vals = list(vals) + ([initial] if initial is not None else [])
        if not vals:
            raise ValueError("zero-size array to reduction operation minimum which has no identity")
        return min(vals)

    def np_where(v, *alt):
        if alt:
            a, b = alt
            if isinstance(v, Vec) and not isinstance(a, Mat) and not isinstance(b, Mat):
                av = a.vals if isinstance(a, Vec) else [a] * len(v.vals)
                bv = b.vals if isinstance(b, Vec) else [b] * len(v.vals)
                if len(av) != len(v.vals) or len(bv) != len(v.vals):
                    raise ValueError("operands could not be broadcast together")
                return Vec([x if c else y for c, x, y in zip(v.vals, av, bv)])
            if isinstance(v, Mat):
                from .abseval import broadcast2
                cr, ar = broadcast2(v, a, None)                     # condition and first choice to a common shape
                cr2, br = broadcast2(Mat(cr), b, None)              # then with the second choice
                _c3, ar = broadcast2(Mat(cr2), Mat(ar), None)       # the first choice follows
                return Mat([[x if c else y for c, x, y in zip(r, r1, r2)] for r, r1, r2 in zip(cr2, ar, br)])
            return a if v else b
        if isinstance(v, Vec):
            return (Vec([i for i, m in enumerate(v.vals) if m]),)
        if isinstance(v, Mat):
            idx = [(i, j) for i, r in enumerate(v.rows) for j, m in enumerate(r) if m]
            return (Vec([i for i, _ in idx]), Vec([j for _, j in idx]))
        raise Unsupported("where operand")

    def np_vstack(parts):
        rows = []
        for p_ in parts:
            if isinstance(p_, Mat):
                rows.extend([list(r) for r in p_.rows])
            elif isinstance(p_, Vec):
                rows.append(list(p_.vals))
            else:
                raise Unsupported("vstack operand")
        return Mat(rows)

    def np_argsort(v, axis=-1, kind=None):
        if isinstance(v, Mat):
            if axis in (-1, 1):
                return Mat([sorted(range(len(r)), key=lambda i, r=r: r[i]) for r in v.rows])
            if axis == 0:
                cols = [sorted(range(len(c)), key=lambda i, c=c: c[i]) for c in zip(*v.rows)]
                return Mat([list(r) for r in zip(*cols)])
            raise Unsupported("argsort axis")
        vals = v.vals if isinstance(v, Vec) else list(v)
        return Vec(sorted(range(len(vals)), key=lambda i: vals[i]))

    def np_count_nonzero(v, axis=None):
        if isinstance(v, Mat):
            if axis is None:
                return sum(1 for r in v.rows for x in r if x)
            if axis in (1, -1):
                return Vec([sum(1 for x in r if x) for r in v.rows])
            if axis == 0:
                return Vec([sum(1 for x in c if x) for c in zip(*v.rows)])
            raise Unsupported("count_nonzero axis")
        vals = v.vals if isinstance(v, Vec) else list(v)
        return sum(1 for x in vals if x)

    def np_shape(v):
        if isinstance(v, Cube):
            return (v.n, v.n, 3)
        if isinstance(v, Mat):
            return (len(v.rows), len(v.rows[0]) if v.rows else 0)
        if isinstance(v, Vec):
            return (len(v.vals),)
        raise Unsupported("shape operand")

    def np_logical(op):
        def f(a, b):
            from .abseval import broadcast2, ColVec
            if isinstance(a, (Mat, ColVec)) or isinstance(b, (Mat, ColVec)):
                ar, br = broadcast2(a, b, None)
                return Mat([[op(x, y) for x, y in zip(r1, r2)] for r1, r2 in zip(ar, br)])
            if isinstance(a, Vec) and isinstance(b, Vec):
                if len(a.vals) != len(b.vals) and 1 not in (len(a.vals), len(b.vals)):
                    raise ValueError("operands could not be broadcast together")
                av = a.vals * len(b.vals) if len(a.vals) == 1 else a.vals
                bv = b.vals * len(a.vals) if len(b.vals) == 1 else b.vals
                return Vec([op(x, y) for x, y in zip(av, bv)])
            if isinstance(a, Vec) or isinstance(b, Vec):
                vec, other = (a, b) if isinstance(a, Vec) else (b, a)
                if isinstance(other, (bool, int, float)):
                    return Vec([op(x, other) if vec is a else op(other, x) for x in vec.vals])
            if isinstance(a, (bool, int, float)) and isinstance(b, (bool, int, float)):
                return op(a, b)
            raise Unsupported("logical operands")
        return f

    def np_column_stack(t):
        cols = [c.vals if isinstance(c, Vec) else list(c) for c in t]
        return [list(x) for x in zip(*cols)]

    def elementwise(f2):
        def g(a, b, **kw):
            if isinstance(a, Mat) or isinstance(b, Mat):
                from .abseval import broadcast2
                ar, br = broadcast2(a, b, None)
                return Mat([[f2(x, y, **kw) for x, y in zip(r1, r2)] for r1, r2 in zip(ar, br)])
            if isinstance(a, Vec) or isinstance(b, Vec):
                n = len(a.vals) if isinstance(a, Vec) else len(b.vals)
                av = a.vals if isinstance(a, Vec) else [a] * n
                bv = b.vals if isinstance(b, Vec) else [b] * n
                if len(av) != len(bv):
                    if len(av) == 1:
                        av = av * len(bv)
                    elif len(bv) == 1:
                        bv = bv * len(av)
                    else:
                        raise ValueError("operands could not be broadcast together")
                return Vec([f2(x, y, **kw) for x, y in zip(av, bv)])
            return f2(a, b, **kw)
        return g

    def isclose(x, y, rtol=1e-05, atol=1e-08, equal_nan=False):
        return abs(x - y) <= (atol + rtol * abs(y))
    ex["numpy.isclose"] = fn(elementwise(isclose))
    ex["numpy.allclose"] = fn(lambda a, b, **kw: all(elementwise(isclose)(a, b, **kw).vals) if isinstance(a, Vec) or isinstance(b, Vec) else isclose(a, b, **kw))
    ex["numpy.minimum"] = fn(elementwise(lambda x, y: min(x, y)))
    ex["numpy.maximum"] = fn(elementwise(lambda x, y: max(x, y)))
    ex["numpy.abs"] = fn(lambda v: Vec([abs(x) for x in v.vals]) if isinstance(v, Vec) else abs(v))
    ex["numpy.absolute"] = ex["numpy.abs"]
    ex["numpy.argmin"] = fn(lambda v: min(range(len(v.vals)), key=lambda i: v.vals[i]))
    ex["numpy.argmax"] = fn(lambda v: max(range(len(v.vals)), key=lambda i: v.vals[i]))
    def np_mean(v, axis=None):
        if isinstance(v, Mat):
            return v._mean(axis, None)
        cells = v.vals if isinstance(v, Vec) else list(v)
        if not cells:
            return float("nan")         # numpy: mean of an empty slice (with a warning)
        tot = 0
        for x in cells:
            tot = tot + (1 if x is True else (0 if x is False else x))
        return tot / len(cells)
    ex["numpy.mean"] = fn(np_mean)
    ex["numpy.average"] = fn(np_mean)
    def flat(v):
        if isinstance(v, Mat):
            return [x for r in v.rows for x in r]
        return v.vals if isinstance(v, Vec) else v
    ex["numpy.any"] = fn(lambda v: any(flat(v)))
    ex["numpy.all"] = fn(lambda v: all(flat(v)))
    ex["numpy.round"] = fn(lambda v, d=0: Vec([round(x, d) for x in v.vals]) if isinstance(v, Vec) else round(v, d))
    ex["numpy.flatnonzero"] = fn(lambda v: Vec([i for i, m in enumerate(v.vals) if m]))
    ex["numpy.nonzero"] = fn(lambda v: (Vec([i for i, r in enumerate(v.rows) for x in r if x]),
                                        Vec([j for r in v.rows for j, x in enumerate(r) if x])) if isinstance(v, Mat)
                             else (Vec([i for i, m in enumerate(vals_of(v)) if m]),))
    ex["numpy.inf"] = float("inf")
    ex["math.inf"] = float("inf")
    ex["math.fabs"] = fn(lambda x: abs(x))
    ex["math.isclose"] = fn(lambda x, y, rel_tol=1e-09, abs_tol=0.0: abs(x - y) <= max(rel_tol * max(abs(x), abs(y)), abs_tol))
    # ---- sources of randomness: every draw goes through one policy (first / last / middle item of the range), so a
    # rule can evaluate the same code under several draws; the argument checks of the real functions are kept
    pol = rt.random = RandomPolicy()

    def seq_items(seq):
        if isinstance(seq, Vec):
            return list(seq.vals)
        if isinstance(seq, int) and not isinstance(seq, bool):
            return list(range(seq))
        if isinstance(seq, (set, frozenset, dict)):
            raise TypeError("population must be a sequence")
        return list(seq.abs_iter()) if hasattr(seq, "abs_iter") else list(seq)

    def r_choice(seq, size=None, replace=True, p=None):
        items = seq_items(seq)
        if not items:
            raise IndexError("cannot choose from an empty sequence")
        if size is not None:
            return Vec([items[pol.index(len(items))] for _ in range(size)])
        return items[pol.index(len(items))]

    def np_choice(seq, size=None, replace=True, p=None):
        items = seq_items(seq)
        if not items:
            raise ValueError("a cannot be empty")
        return r_choice(items, size)

    def r_randint(a, b):
        if b < a:
            raise ValueError("empty range for randint")
        return a + pol.index(b - a + 1)

    def r_randrange(a, b=None, step=1):
        if b is None:
            a, b = 0, a
        n = len(range(a, b, step))
        if n <= 0:
            raise ValueError("empty range for randrange")
        return a + step * pol.index(n)

    def np_integers(low, high=None, size=None, dtype=None, endpoint=False):
        if high is None:
            low, high = 0, low
        if endpoint:
            high = high + 1
        if high <= low:
            raise ValueError("low >= high")
        if size is not None:
            return Vec([low + pol.index(high - low) for _ in range(size)])
        return low + pol.index(high - low)

    def r_shuffle(seq):
        cells = seq.vals if isinstance(seq, Vec) else seq
        if pol.mode != "first":
            cells.reverse()
        pol.log.append(("shuffle", len(cells)))

    def r_permutation(seq):
        items = seq_items(seq)
        if pol.mode != "first":
            items.reverse()
        pol.log.append(("shuffle", len(items)))
        return Vec(items)

    def r_sample(seq, k):
        items = seq_items(seq)
        if not 0 <= k <= len(items):
            raise ValueError("Sample larger than population or is negative")
        if pol.mode != "first":
            items.reverse()
        return items[:k]

    def r_random(size=None):
        v = {"first": 0.0, "last": 1.0 - 2.0 ** -53, "middle": 0.5}[pol.mode]
        pol.log.append(("random", v))
        return v if size is None else Vec([v] * size)

    def r_uniform(a=0.0, b=1.0, size=None):
        return a + (b - a) * r_random()
    ex["random.choice"] = fn(lambda seq: r_choice(seq))
    ex["random.shuffle"] = fn(r_shuffle)
    ex["random.random"] = fn(lambda: r_random())
    ex["random.uniform"] = fn(r_uniform)
    ex["random.randint"] = fn(r_randint)
    ex["random.randrange"] = fn(r_randrange)
    ex["random.sample"] = fn(r_sample)
    ex["random.seed"] = fn(lambda *a, **k: None)
    ex["numpy.random.seed"] = fn(lambda *a, **k: None)
    ex["numpy.random.randint"] = fn(np_integers)
    def r_stream(k):
        # k distinct values of [0, 1) in no particular order (an array of independent draws)
        pol.log.append(("random", k))
        base = {"first": 0.0, "last": 0.5, "middle": 0.25}[pol.mode]
        return [(base + (i + 1) * 0.6180339887498949) % 1.0 for i in range(k)]

    def np_rand(*shape):
        if not shape:
            return r_random()
        if len(shape) == 1:
            return Vec(r_stream(shape[0]))
        if len(shape) == 2:
            vals = r_stream(shape[0] * shape[1])
            return Mat([vals[i * shape[1]:(i + 1) * shape[1]] for i in range(shape[0])])
        raise Unsupported("random array of more than two dimensions")
    ex["numpy.random.rand"] = fn(np_rand)
    ex["numpy.random.random"] = fn(r_random)
    ex["numpy.random.random_sample"] = fn(r_random)
    ex["numpy.random.uniform"] = fn(r_uniform)
    ex["numpy.random.choice"] = fn(np_choice)
    ex["numpy.random.shuffle"] = fn(r_shuffle)
    ex["numpy.random.permutation"] = fn(r_permutation)

    def rng_object(kind):
        def make(*a, **k):
            m = {"random": lambda ev, call, args, kw: r_random(*args, **kw),
                 "uniform": lambda ev, call, args, kw: r_uniform(*args, **kw),
                 "shuffle": lambda ev, call, args, kw: r_shuffle(*args),
                 "permutation": lambda ev, call, args, kw: r_permutation(*args),
                 "seed": lambda ev, call, args, kw: None}
            if kind == "python":
                m.update(choice=lambda ev, call, args, kw: r_choice(*args), randint=lambda ev, call, args, kw: r_randint(*args),
                         randrange=lambda ev, call, args, kw: r_randrange(*args, **kw),
                         sample=lambda ev, call, args, kw: r_sample(*args, **kw))
            else:
                m["random"] = lambda ev, call, args, kw: (np_rand(*(args[0] if isinstance(args[0], tuple) else (args[0],)))
                                                          if args or kw.get("size") else r_random())
                m.update(choice=lambda ev, call, args, kw: np_choice(*args, **kw),
                         integers=lambda ev, call, args, kw: np_integers(*args, **kw),
                         randint=lambda ev, call, args, kw: np_integers(*args, **kw),
                         rand=lambda ev, call, args, kw: r_random())

            def guarded(f):
                def g(ev, call, args, kw):
                    try:
                        return f(ev, call, args, kw)
                    except (Unsupported, AbsRaise):
                        raise
                    except (KeyError, IndexError, ValueError, TypeError) as exc:
                        raise AbsRaise(type(exc).__name__, call)
                return g
            return Obj("RNG", {}, {k_: guarded(f_) for k_, f_ in m.items()})
        return make
    ex["random.Random"] = fn(rng_object("python"))
    ex["random.SystemRandom"] = fn(rng_object("python"))
    ex["numpy.random.default_rng"] = fn(rng_object("numpy"))
    ex["numpy.random.RandomState"] = fn(rng_object("numpy"))
    ex["numpy.random.Generator"] = "Generator"

    def np_searchsorted(a, v, side="left", sorter=None):
        import bisect
        av = a.vals if isinstance(a, Vec) else list(a)
        f = bisect.bisect_left if side == "left" else bisect.bisect_right
        if isinstance(v, Vec) or isinstance(v, list):
            return Vec([f(av, x) for x in (v.vals if isinstance(v, Vec) else v)])
        return f(av, v)
    ex["numpy.searchsorted"] = fn(np_searchsorted)

    def np_fill_diagonal(m, value, wrap=False):
        if not isinstance(m, Mat) or getattr(m, "frozen", False):
            raise Unsupported("fill_diagonal operand")
        for i in range(min(len(m.rows), len(m.rows[0]) if m.rows else 0)):
            m.rows[i][i] = check_dtype(m.dtype, value, None)
        return None

    def np_eye_general(n, m, k, dtype):
        dt = norm_dtype(dtype) or "float64"
        out = Mat([[check_dtype(dt, 1 if j - i == k else 0, None) for j in range(m or n)] for i in range(n)])
        out.dtype = dt
        return out

    def np_eye(n, dtype=None):
        dt = norm_dtype(dtype) or "float64"
        m = Mat([[check_dtype(dt, 1 if i == j else 0, None) for j in range(n)] for i in range(n)])
        m.dtype = dt
        return m
    ex["numpy.fill_diagonal"] = fn(np_fill_diagonal)

    def np_ix(*seqs):
        if len(seqs) != 2:
            raise Unsupported("ix_ with other than two sequences")
        return ("ix_",) + tuple(list(q.vals) if isinstance(q, Vec) else list(q) for q in seqs)
    ex["numpy.ix_"] = fn(np_ix)
    def rows_of(v):
        if isinstance(v, Mat):
            return [list(r) for r in v.rows]
        if isinstance(v, list) and v and all(isinstance(r, (list, Vec)) for r in v):
            return [list(r.vals) if isinstance(r, Vec) else list(r) for r in v]
        return None

    def vals_of(v):
        if isinstance(v, Vec):
            return list(v.vals)
        if isinstance(v, (list, tuple)):
            return list(v)
        raise Unsupported("vector operand")

    def num(x):
        return 1 if x is True else (0 if x is False else x)

    def np_triu_indices(n, k=0, m=None):
        m = n if m is None else m
        idx = [(i, j) for i in range(n) for j in range(m) if j - i >= k]
        return (Vec([i for i, _ in idx]), Vec([j for _, j in idx]))

    def np_tril_indices(n, k=0, m=None):
        m = n if m is None else m
        idx = [(i, j) for i in range(n) for j in range(m) if j - i <= k]
        return (Vec([i for i, _ in idx]), Vec([j for _, j in idx]))
    ex["numpy.triu_indices"] = fn(np_triu_indices)
    ex["numpy.tril_indices"] = fn(np_tril_indices)

    def np_bincount(x, weights=None, minlength=0):
        xs = vals_of(x)
        if any((not isinstance(v, int)) or v < 0 for v in xs):
            raise AbsRaise("ValueError", None)
        n = max([minlength] + [v + 1 for v in xs])
        ws = vals_of(weights) if weights is not None else None
        out = [0.0 if ws is not None else 0] * n
        for k_, v in enumerate(xs):
            out[v] = out[v] + (num(ws[k_]) if ws is not None else 1)
        return Vec(out)
    ex["numpy.bincount"] = fn(np_bincount)

    def np_unique2(v, return_counts=False, return_inverse=False, return_index=False, axis=None):
        if axis == 0 and isinstance(v, Mat):
            rows = [tuple(r) for r in v.rows]
            u = sorted(set(rows))
            out = [Mat([list(r) for r in u])]
            if return_index:
                out.append(Vec([rows.index(r) for r in u]))
            if return_inverse:
                out.append(Vec([u.index(r) for r in rows]))
            if return_counts:
                out.append(Vec([rows.count(r) for r in u]))
            return out[0] if len(out) == 1 else tuple(out)
        if axis not in (None, 0):
            raise Unsupported("unique along this axis")
        return np_unique1(v, return_counts, return_inverse, return_index)

    def np_unique1(v, return_counts=False, return_inverse=False, return_index=False):
        xs = vals_of(v) if not isinstance(v, Mat) else [x for r in v.rows for x in r]
        u = sorted(set(xs))
        out = [Vec(u)]
        if return_index:
            out.append(Vec([xs.index(x) for x in u]))
        if return_inverse:
            out.append(Vec([u.index(x) for x in xs]))
        if return_counts:
            out.append(Vec([xs.count(x) for x in u]))
        return out[0] if len(out) == 1 else tuple(out)
    ex["numpy.unique"] = fn(np_unique2)
    ex["numpy.diff"] = fn(lambda v: Vec([b - a for a, b in zip(vals_of(v), vals_of(v)[1:])]))
    ex["numpy.prod"] = fn(lambda v: math.prod(num(x) for x in vals_of(v)))
    def np_dot(a, b):
        from .abseval import _matmul
        if isinstance(a, (Mat, Vec)) and isinstance(b, (Mat, Vec)) and (isinstance(a, Mat) or isinstance(b, Mat)):
            return _matmul(a, b, None)          # shapes checked, boolean operands give booleans
        if isinstance(a, Mat) and isinstance(b, Mat):
            cols = list(zip(*b.rows))
            return Mat([[sum(x * y for x, y in zip(r, c)) for c in cols] for r in a.rows])
        if isinstance(a, Mat):
            bv = b.vals if isinstance(b, Vec) else list(b)
            return Vec([sum(x * y for x, y in zip(r, bv)) for r in a.rows])
        if isinstance(b, Mat):
            av = a.vals if isinstance(a, Vec) else list(a)
            return Vec([sum(x * y for x, y in zip(av, c)) for c in zip(*b.rows)])
        return np_vdot(a, b)
    ex["numpy.dot"] = fn(np_dot)
    ex["numpy.matmul"] = fn(np_dot)
    ex["numpy.sign"] = fn(lambda v: Vec([(x > 0) - (x < 0) for x in v.vals]) if isinstance(v, Vec) else (v > 0) - (v < 0))
    ex["numpy.clip"] = fn(lambda v, lo, hi: Vec([min(max(x, lo), hi) for x in v.vals]) if isinstance(v, Vec) else min(max(v, lo), hi))
    ex["numpy.floor"] = fn(lambda v: Vec([float(math.floor(x)) for x in v.vals]) if isinstance(v, Vec) else float(math.floor(v)))
    ex["numpy.ceil"] = fn(lambda v: Vec([float(math.ceil(x)) for x in v.vals]) if isinstance(v, Vec) else float(math.ceil(v)))
    ex["numpy.sqrt"] = fn(lambda v: Vec([math.sqrt(x) for x in v.vals]) if isinstance(v, Vec) else math.sqrt(v))
    ex["numpy.isnan"] = fn(lambda v: Vec([isinstance(x, float) and math.isnan(x) for x in v.vals]) if isinstance(v, Vec)
                           else (Mat([[isinstance(x, float) and math.isnan(x) for x in r] for r in v.rows]) if isinstance(v, Mat)
                                 else isinstance(v, float) and math.isnan(v)))
    ex["numpy.isfinite"] = fn(lambda v: Vec([math.isfinite(x) for x in v.vals]) if isinstance(v, Vec) else math.isfinite(v))
    ex["numpy.array_equal"] = fn(lambda a, b: (rows_of(a) == rows_of(b)) if rows_of(a) is not None or rows_of(b) is not None
                                 else vals_of(a) == vals_of(b))
    ex["numpy.nan"] = float("nan")
    ex["numpy.pi"] = math.pi

    def like(v, value, dtype=None):
        dt = norm_dtype(dtype) or dtype_of(v)
        value = check_dtype(dt, value, None)
        if isinstance(v, Mat):
            m = Mat([[value] * len(r) for r in v.rows])
            m.dtype = dt
            return m
        out = Vec([value] * len(vals_of(v)))
        out.dtype = dt
        return out
    ex["numpy.zeros_like"] = fn(lambda v, dtype=None: like(v, 0, dtype))
    ex["numpy.ones_like"] = fn(lambda v, dtype=None: like(v, 1, dtype))
    ex["numpy.full_like"] = fn(lambda v, value, dtype=None: like(v, value, dtype))
    ex["numpy.empty"] = fn(lambda shape, dtype=None: np_full(shape, 0, dtype or "float64"))
    ex["numpy.empty_like"] = fn(lambda v, dtype=None: like(v, 0, dtype))
    ex["numpy.eye"] = fn(lambda n, m=None, k=0, dtype=None: np_eye(n, dtype) if m in (None, n) and k == 0 else np_eye_general(n, m, k, dtype))
    ex["numpy.identity"] = ex["numpy.eye"]
    ex["numpy.hstack"] = fn(lambda parts: np_concatenate(parts))
    ex["numpy.stack"] = fn(lambda parts, axis=0: np_vstack(parts))
    ex["numpy.tile"] = fn(lambda v, n: Vec(vals_of(v) * n))
    def np_repeat(v, n, axis=None):
        cells = vals_of(v) if not isinstance(v, (int, float, bool)) else [v]
        if isinstance(n, (Vec, list, tuple)):
            counts = vals_of(n)
            if len(counts) != len(cells):
                if len(counts) == 1:
                    counts = counts * len(cells)
                else:
                    raise ValueError("operands could not be broadcast together")
        else:
            counts = [n] * len(cells)
        if any((not isinstance(c, int)) or isinstance(c, bool) or c < 0 for c in counts):
            raise ValueError("repeats may not contain negative values / must be integers")
        return Vec([x for x, c in zip(cells, counts) for _ in range(c)])
    ex["numpy.repeat"] = fn(np_repeat)

    def np_select(condlist, choicelist, default=0):
        conds = [c for c in condlist]
        choices = [c for c in choicelist]
        if len(conds) != len(choices):
            raise ValueError("list of cases must be same length as list of conditions")
        n_ = None
        for c in conds + choices:
            if isinstance(c, Vec):
                n_ = len(c.vals)
        if n_ is None:
            for c, ch in zip(conds, choices):
                if c:
                    return ch
            return default
        if any(isinstance(c, Mat) for c in conds + choices):
            raise Unsupported("select on matrices")

        def cells(x):
            if isinstance(x, Vec):
                if len(x.vals) != n_:
                    raise ValueError("shape mismatch")
                return list(x.vals)
            return [x] * n_
        cc = [cells(c) for c in conds]
        hh = [cells(c) for c in choices]
        dd = cells(default)
        out = []
        for i in range(n_):
            for c, h in zip(cc, hh):
                if c[i]:
                    out.append(h[i])        # the first condition that holds decides
                    break
            else:
                out.append(dd[i])
        return Vec(out)
    ex["numpy.select"] = fn(np_select)
    ex["numpy.take"] = fn(lambda v, idx: Vec([vals_of(v)[i] for i in vals_of(idx)]))
    ex["numpy.transpose"] = fn(lambda m: Mat([list(c) for c in zip(*m.rows)]))
    ex["numpy.argwhere"] = fn(lambda v: Mat([[i] for i, x in enumerate(vals_of(v)) if x]) if not isinstance(v, Mat)
                              else Mat([[i, j] for i, r in enumerate(v.rows) for j, x in enumerate(r) if x]))
    def zero_like(x):
        return False if isinstance(x, bool) else (0.0 if isinstance(x, float) else 0)
    ex["numpy.triu"] = fn(lambda m, k=0: Mat([[x if j - i >= k else zero_like(x) for j, x in enumerate(r)] for i, r in enumerate(m.rows)]))
    ex["numpy.tril"] = fn(lambda m, k=0: Mat([[x if j - i <= k else zero_like(x) for j, x in enumerate(r)] for i, r in enumerate(m.rows)]))
    ex["numpy.diag"] = fn(lambda m: Vec([m.rows[i][i] for i in range(min(len(m.rows), len(m.rows[0]) if m.rows else 0))])
                          if isinstance(m, Mat) else Mat([[x if i == j else 0 for j in range(len(vals_of(m)))] for i, x in enumerate(vals_of(m))]))
    ex["numpy.linspace"] = fn(lambda a, b, n=50: Vec([a + (b - a) * i / (n - 1) for i in range(n)] if n > 1 else [a]))
    ex["numpy.float_"] = DType("float64")
    ex["numpy.int_"] = DType("int64")
    ex["numpy.array"] = fn(np_array)
    ex["numpy.min"] = fn(np_min)
    ex["numpy.amin"] = fn(np_min)
    ex["numpy.where"] = fn(np_where)
    ex["numpy.vstack"] = fn(np_vstack)
    ex["numpy.argsort"] = fn(np_argsort)
    ex["numpy.count_nonzero"] = fn(np_count_nonzero)
    ex["numpy.shape"] = fn(np_shape)
    ex["numpy.logical_and"] = fn(np_logical(lambda x, y: bool(x) and bool(y)))
    ex["numpy.logical_or"] = fn(np_logical(lambda x, y: bool(x) or bool(y)))
    ex["numpy.logical_xor"] = fn(np_logical(lambda x, y: bool(x) != bool(y)))

    def np_logical_not(a):
        if isinstance(a, Mat):
            return Mat([[not bool(x) for x in r] for r in a.rows])
        if isinstance(a, Vec):
            return Vec([not bool(x) for x in a.vals])
        if isinstance(a, (bool, int, float)):
            return not bool(a)
        raise Unsupported("logical_not operand")
    ex["numpy.logical_not"] = fn(np_logical_not)
    ex["numpy.invert"] = fn(np_logical_not)
    ex["numpy.transpose"] = fn(lambda m: Mat([list(c) for c in zip(*m.rows)]) if isinstance(m, Mat) else m)
    ex["numpy.column_stack"] = fn(np_column_stack)
    ex["numpy.newaxis"] = None

    def graph_ctor(*a, **kw):
        g = GraphObj()
        g.directed = kw.get("directed", a[0] if a else False)
        return g
    ex["igraph.Graph"] = fn(graph_ctor)
    ex["numba.jit"] = fn(lambda *a, **kw: (lambda f: f))

    def np_add_at(a, idx, values):
        """np.add.at: unbuffered - an index present several times is incremented as many times."""
        cells = a.vals if isinstance(a, Vec) else None
        if cells is None:
            raise Unsupported("add.at target")
        ids = vals_of(idx) if not isinstance(idx, int) else [idx]
        vs = vals_of(values) if isinstance(values, (Vec, list, tuple)) else [values] * len(ids)
        if len(vs) != len(ids):
            raise ValueError("shape mismatch")
        for i, v in zip(ids, vs):
            cells[i] = check_dtype(a.dtype, cells[i] + v, None)
        return None
    ex["numpy.add.at"] = fn(np_add_at)

    def np_split(a, sections, axis=0):
        cells = vals_of(a)
        if isinstance(sections, int):
            if sections <= 0 or len(cells) % sections:
                raise ValueError("array split does not result in an equal division")
            step = len(cells) // sections
            cuts = [step * k for k in range(1, sections)]
        else:
            cuts = [int(x) for x in vals_of(sections)]
        out, prev = [], 0
        for c in cuts + [len(cells)]:
            c = max(0, min(c if c >= 0 else len(cells) + c, len(cells)))
            out.append(Vec(cells[prev:c] if c >= prev else []))
            prev = c
        return out
    ex["numpy.split"] = fn(np_split)
    ex["numpy.array_split"] = fn(np_split)
    ex["numpy.sort"] = fn(np_sort)
    ex["numpy.cumsum"] = fn(np_cumsum)
    ex["numpy.concatenate"] = fn(np_concatenate)
    ex["numpy.vdot"] = fn(np_vdot)
    for mod in ("numpy",):
        ex[f"{mod}.full"] = fn(np_full)
        ex[f"{mod}.zeros"] = fn(np_zeros)
        ex[f"{mod}.ones"] = fn(np_ones)
        ex[f"{mod}.asarray"] = fn(np_asarray)
        ex[f"{mod}.max"] = fn(np_max)
        ex[f"{mod}.amax"] = fn(np_max)
        ex[f"{mod}.sum"] = fn(np_sum)
        ex[f"{mod}.arange"] = fn(lambda *a, dtype=None: Vec(list(range(*a))) if all(isinstance(x, int) for x in a)
                                 else Vec([a[0] + i * (a[2] if len(a) > 2 else 1) for i in range(int(math.ceil((a[1] - a[0]) / (a[2] if len(a) > 2 else 1))))]))
        for _dt in ("int8", "uint8", "int16", "uint16", "int32", "uint32", "int64", "uint64", "float32", "bool_"):
            ex[f"{mod}.{_dt}"] = DType(_dt)
        ex[f"{mod}.float64"] = DType("float64")
        ex[f"{mod}.ndarray"] = "ndarray"
    return rt

"""
Fallback resolution of calls to *package* functions for evaluations that run a single function body with scripted
hooks (the per-mechanism rules): a call the rule did not script - typically a helper a refactoring extracted - is
resolved in the project (class of the running method, classes by name, module-level functions, imports between
package modules) and its real body is evaluated with the same hooks and policies.  Without this, extracting three lines
into a private helper would turn a decided rule into an ANALYSIS-ERROR.
"""
from __future__ import annotations

import ast
from typing import Any, Optional, Tuple

from . import abseval
from .abseval import Evaluator, Unsupported, Obj, Sym


class ClassMarker(Obj):
    def __init__(self, cls):
        super().__init__(f"class {cls.name}")
        self.cls = cls

    def abs_getattr(self, name, ev, node):
        proj = PROJECT[0]
        expr = proj.lookup_class_attr(self.cls, proj.unmangle(name)) if proj is not None else None
        if expr is None and proj is not None:
            f = proj.lookup_method(self.cls, name)
            if f is not None and f.kind in ("staticmethod", "classmethod", "method"):
                return FuncValue(f, self if f.kind == "classmethod" else None)
        if expr is None:
            raise Unsupported(f"attribute {name} of class {self.cls.name}", node)
        sub = Evaluator({}, ev.funcs)
        sub.module = self.cls.module
        return sub.ev(expr)


PROJECT = [None]


class FuncValue(Obj):
    """A package function / method used as a value (stored in a table, passed as a callback) and called later."""

    def __init__(self, f, first=None):
        super().__init__(f"function {f.short}")
        self.f = f
        self.first = first

    def abs_call(self, args, kw, ev, node):
        self.f.node._csa_module = self.f.module
        self.f.node._csa_cls = self.f.cls
        return ev.call_user(self.f.node, ([self.first] if self.first is not None else []) + list(args), dict(kw))


def install(proj) -> None:
    PROJECT[0] = proj
    classes = {}
    for c in proj.all_classes():
        classes.setdefault(c.name, []).append(c)

    def find_class(name: str, ev: Evaluator):
        cs = classes.get(name) or []
        if len(cs) == 1:
            return cs[0]
        if ev.module is not None:
            for c in cs:
                if c.module is ev.module:
                    return c
        return None

    def call(ev: Evaluator, f, args, kw):
        f.node._csa_module = f.module
        f.node._csa_cls = f.cls
        return ev.call_user(f.node, list(args), dict(kw))

    def resolver(ev: Evaluator, node: ast.Call, name: Optional[str]) -> Tuple[bool, Any]:
        if name is None:
            return False, None
        parts = name.split(".")
        if len(parts) == 2:
            base, meth = parts
            cls = None
            recv = None
            via_instance = False
            if base == ev.self_name and ev.cls_ctx is not None and base in ev.env:
                cls, recv, via_instance = ev.cls_ctx, ev.env[base], True
            elif base == "cls" and ev.cls_ctx is not None:
                cls = ev.cls_ctx
            elif base not in ev.env:
                cls = find_class(base, ev)
            if cls is None:
                if base not in ev.env and ev.module is not None:
                    target = ev.module.imports.get(base)        # np.isclose(...) with `import numpy as np`
                    if target and not target.startswith(proj.package):
                        return external(ev, node, f"{target}.{meth}")
                return False, None
            mname = meth
            if meth.startswith("__") and not meth.endswith("__"):
                mname = meth          # loader.lookup_method un-mangles
            f = proj.lookup_method(cls, mname)
            if f is None or f.is_abstract:
                return False, None
            args, kw = ev._call_args(node)
            if f.kind == "staticmethod":
                return True, call(ev, f, args, kw)
            if f.kind == "classmethod":
                return True, call(ev, f, [ClassMarker(cls)] + args, kw)
            if f.kind == "method":
                if via_instance:
                    return True, call(ev, f, [recv] + args, kw)
                return True, call(ev, f, args, kw)          # Class.method(obj, ...)
            return False, None
        if len(parts) == 1 and parts[0] not in ev.env:
            mod = ev.module
            if mod is None:
                return False, None
            try:
                r = proj.resolve_in_module(mod, parts[0])
            except Exception:
                return False, None
            if r and r[0] == "func":
                args, kw = ev._call_args(node)
                return True, call(ev, r[1], args, kw)
            if r and r[0] == "external":
                return external(ev, node, r[1])
            if r and r[0] == "class":
                # a private record / helper class of the package constructed inside the evaluated body
                shared_runtime()
                args, kw = ev._call_args(node)
                return True, ext["rt"].new(r[1], args, kw, None)
        if len(parts) >= 2 and parts[0] not in ev.env and ev.module is not None:
            # np.isclose(...) / np.random.randint(...) with `import numpy as np`
            target = ev.module.imports.get(parts[0])
            if target and not target.startswith(proj.package):
                return external(ev, node, ".".join([target] + parts[1:]))
        return False, None

    ext = {}

    def shared_runtime():
        if not ext:
            from .instances import Runtime
            from .stdlib import install as install_std
            ext["rt"] = install_std(Runtime(proj))
            ext["table"] = ext["rt"].externals

    def external(ev: Evaluator, node: ast.Call, dotted_name: str) -> Tuple[bool, Any]:
        """numpy / math / itertools ... functions the rule did not script: the shared model of engines/stdlib.py."""
        shared_runtime()
        h = ext["table"].get(dotted_name)
        if h is None or not hasattr(h, "abs_call"):
            return False, None
        args, kw = ev._call_args(node)
        return True, h.abs_call(args, kw, ev, node)

    abseval.FALLBACK_RESOLVER = resolver
    values = {}

    def names(ev: Evaluator, name: str, node) -> Tuple[bool, Any]:
        """Module-level constants of the module the running body belongs to (or imported from another package module);
        a project class referred to by name is a ClassMarker (its attributes resolve through class_attr)."""
        mod = ev.module
        if mod is None:
            return False, None
        try:
            r = proj.resolve_in_module(mod, name)
        except Exception:
            return False, None
        if not r:
            return False, None
        if r[0] == "global":
            m, nm = r[1]
            key = (m.name, nm)
            if key not in values:
                sub = Evaluator({}, ev.funcs)
                sub.module = m
                values[key] = sub.ev(m.globals[nm])
            return True, values[key]
        if r[0] == "class":
            return True, ClassMarker(r[1])
        if r[0] == "external":
            # a constant or a function of a library imported by name (`from numpy import newaxis, int32, argsort`)
            shared_runtime()
            if r[1] in ext["table"]:
                return True, ext["table"][r[1]]
        return False, None

    abseval.FALLBACK_NAMES = names

    def module_attr(ev: Evaluator, dotted_name: str):
        """`np.int32`, `np.newaxis`, `math.inf`: an attribute of a library module imported under an alias."""
        parts = dotted_name.split(".")
        if len(parts) < 2 or parts[0] in ev.env or ev.module is None:
            return False, None
        target = ev.module.imports.get(parts[0])
        if not target or target.startswith(proj.package):
            return False, None
        shared_runtime()
        key = ".".join([target] + parts[1:])
        if key in ext["table"]:
            return True, ext["table"][key]
        return False, None

    abseval.FALLBACK_MODULE_ATTR = module_attr

    def class_attr(ev: Evaluator, name: str, node) -> Tuple[bool, Any]:
        cls = ev.cls_ctx
        if cls is None:
            return False, None
        expr = proj.lookup_class_attr(cls, proj.unmangle(name))
        if expr is None:
            return False, None
        sub = Evaluator({}, ev.funcs)
        sub.module = cls.module
        return True, sub.ev(expr)

    abseval.FALLBACK_CLASS_ATTR = class_attr

"""
Fallback resolution of calls to *package* functions for evaluations that run a single function body with scripted
hooks (the per-mechanism rules): a call the rule did not script - typically a helper a refactoring extracted - is
resolved in the project (class of the running method, classes by name, module-level functions, imports between
package modules) and its real body is evaluated with the same hooks and policies.  Without this, extracting three lines
into a private helper would turn a decided rule into an ANALYSIS-ERROR.
"""
from __future__ import annotations

import ast
from typing import Any, Optional, Tuple

from . import abseval
from .abseval import Evaluator, Unsupported, Obj, Sym


class ClassMarker(Obj):
    def __init__(self, cls):
        super().__init__(f"class {cls.name}")
        self.cls = cls


def install(proj) -> None:
    classes = {}
    for c in proj.all_classes():
        classes.setdefault(c.name, []).append(c)

    def find_class(name: str, ev: Evaluator):
        cs = classes.get(name) or []
        if len(cs) == 1:
            return cs[0]
        if ev.module is not None:
            for c in cs:
                if c.module is ev.module:
                    return c
        return None

    def call(ev: Evaluator, f, args, kw):
        f.node._csa_module = f.module
        f.node._csa_cls = f.cls
        return ev.call_user(f.node, list(args), dict(kw))

    def resolver(ev: Evaluator, node: ast.Call, name: Optional[str]) -> Tuple[bool, Any]:
        if name is None:
            return False, None
        parts = name.split(".")
        if len(parts) == 2:
            base, meth = parts
            cls = None
            recv = None
            via_instance = False
            if base == ev.self_name and ev.cls_ctx is not None and base in ev.env:
                cls, recv, via_instance = ev.cls_ctx, ev.env[base], True
            elif base == "cls" and ev.cls_ctx is not None:
                cls = ev.cls_ctx
            elif base not in ev.env:
                cls = find_class(base, ev)
            if cls is None:
                return False, None
            mname = meth
            if meth.startswith("__") and not meth.endswith("__"):
                mname = meth          # loader.lookup_method un-mangles
            f = proj.lookup_method(cls, mname)
            if f is None or f.is_abstract:
                return False, None
            args, kw = ev._call_args(node)
            if f.kind == "staticmethod":
                return True, call(ev, f, args, kw)
            if f.kind == "classmethod":
                return True, call(ev, f, [ClassMarker(cls)] + args, kw)
            if f.kind == "method":
                if via_instance:
                    return True, call(ev, f, [recv] + args, kw)
                return True, call(ev, f, args, kw)          # Class.method(obj, ...)
            return False, None
        if len(parts) == 1 and parts[0] not in ev.env:
            mod = ev.module
            if mod is None:
                return False, None
            try:
                r = proj.resolve_in_module(mod, parts[0])
            except Exception:
                return False, None
            if r and r[0] == "func":
                args, kw = ev._call_args(node)
                return True, call(ev, r[1], args, kw)
        return False, None

    abseval.FALLBACK_RESOLVER = resolver

"""
Abstract evaluator over the syntax tree (engines A, F4, G, H and the C19 validation table share it).

The evaluator never runs repository code: it walks `ast` nodes of the constructs it understands and
computes over a small value domain chosen by the rule:

* plain Python ints / floats / bools / strings / tuples / lists for *representatives* of a finite set of
  order types (e.g. the six statuses of a pair of positions), loop indices of a bounded universe, ...
* `Sym` – an opaque, indexable symbol (`B`, `T`, a cost matrix, a weight row ...),
* `Lin` – a linear form over symbols (sum of coef * Sym + const), closed under + - and scalar *,
* `Vec` – a vector of such values (used for numpy-style element-wise predicates over a status table).

Anything else raises `Unsupported`, which rules turn into ANALYSIS-ERROR (never into a verdict).
Stores / augmented assignments to subscripted or attribute targets are not executed: they are *recorded* as
effects (target key, operator, abstract value) for the rule to compare with the definitional table.
"""
from __future__ import annotations

import ast
import collections
from fractions import Fraction
from typing import Any, Callable, Dict, List, Optional, Set, Tuple


class Unsupported(Exception):
    def __init__(self, msg: str, node: Optional[ast.AST] = None):
        super().__init__(msg)
        self.node = node


class AbsRaise(Exception):
    """A `raise` statement reached during abstract evaluation."""

    def __init__(self, exc_name: str, node: ast.AST):
        super().__init__(exc_name)
        self.exc_name = exc_name
        self.node = node


class ColVec:
    """A vector reshaped as a column (`v[:, newaxis]`): multiplying a row vector by it gives the outer product."""

    def __init__(self, vals):
        self.vals = list(vals)


class IndexOut(Unsupported):
    """A concrete container of the abstract state was indexed outside its bounds."""

    def __init__(self, idx, size, node):
        super().__init__(f"index {idx} outside a container of size {size}", node)
        self.idx = idx
        self.size = size


class LoopBound(Unsupported):
    """A `while` loop of the evaluated code exceeded the iteration bound on a finite abstract state."""


class Sym:
    """Opaque symbol, optionally indexed: Sym('B', (3,))."""
    __slots__ = ("name", "idx")

    def __init__(self, name: str, idx: Tuple = ()):
        self.name = name
        self.idx = tuple(idx)

    def __getitem__(self, i):
        if isinstance(i, tuple):
            return Sym(self.name, self.idx + tuple(i))
        return Sym(self.name, self.idx + (i,))

    def __repr__(self):
        return self.name + "".join(f"[{i}]" for i in self.idx)

    def __eq__(self, other):
        return isinstance(other, Sym) and self.name == other.name and self.idx == other.idx

    def __hash__(self):
        return hash((self.name, self.idx))

    def key(self):
        return (self.name, tuple(str(i) for i in self.idx))


class Lin:
    """Linear form: sum coef[sym] * sym + const."""
    __slots__ = ("terms", "const")

    def __init__(self, terms: Optional[Dict[Sym, Any]] = None, const: Any = 0):
        self.terms = {k: v for k, v in (terms or {}).items() if v != 0}
        self.const = const

    @staticmethod
    def of(v) -> "Lin":
        if isinstance(v, Lin):
            return v
        if isinstance(v, Sym):
            return Lin({v: 1})
        if isinstance(v, bool):
            return Lin({}, int(v))
        if isinstance(v, (int, float, Fraction)):
            return Lin({}, v)
        raise Unsupported(f"not a linear value: {v!r}")

    def __add__(self, o):
        o = Lin.of(o)
        t = dict(self.terms)
        for k, v in o.terms.items():
            t[k] = t.get(k, 0) + v
        return Lin(t, self.const + o.const)

    __radd__ = __add__

    def __neg__(self):
        return Lin({k: -v for k, v in self.terms.items()}, -self.const)

    def __sub__(self, o):
        return self + (-Lin.of(o))

    def __rsub__(self, o):
        return Lin.of(o) - self

    def scale(self, c):
        return Lin({k: v * c for k, v in self.terms.items()}, self.const * c)

    def __mul__(self, o):
        if isinstance(o, (int, float, Fraction)) and not isinstance(o, bool):
            return self.scale(o)
        o = Lin.of(o)
        if not o.terms:
            return self.scale(o.const)
        if not self.terms:
            return o.scale(self.const)
        raise Unsupported("product of two symbolic values")

    __rmul__ = __mul__

    def is_const(self):
        return not self.terms

    def __eq__(self, o):
        try:
            o = Lin.of(o)
        except Unsupported:
            return False
        return self.terms == o.terms and self.const == o.const

    def __hash__(self):
        return hash((frozenset(self.terms.items()), self.const))

    def __repr__(self):
        parts = []
        for k, v in sorted(self.terms.items(), key=lambda kv: repr(kv[0])):
            if v == 1:
                parts.append(f"+{k!r}")
            elif v == -1:
                parts.append(f"-{k!r}")
            else:
                parts.append(f"{'+' if v > 0 else ''}{v}*{k!r}")
        if self.const != 0 or not parts:
            parts.append(f"{'+' if self.const >= 0 else ''}{self.const}")
        s = "".join(parts)
        return s[1:] if s.startswith("+") else s


class Vec:
    """Element-wise vector over a finite index set (status table rows)."""
    __slots__ = ("vals", "frozen", "dtype")

    def __init__(self, vals):
        self.vals = list(vals)
        self.frozen = False
        self.dtype = None

    @staticmethod
    def view(row: list, dtype=None) -> "Vec":
        v = Vec([])
        v.vals = row            # shares storage with the row it was taken from (numpy view semantics)
        v.dtype = dtype
        return v

    @staticmethod
    def slice_copy(vals) -> "Vec":
        """Value of a basic slice. numpy hands out a *view*; the model hands out a copy and refuses in-place writes
        through it (Unsupported) rather than silently losing them."""
        v = Vec(vals)
        v.frozen = True
        return v

    def __len__(self):
        return len(self.vals)

    def __repr__(self):
        return f"Vec{self.vals!r}"


class OnceIter:
    """One-shot iterator (itertools.combinations, generators ...): items are consumed as they are iterated."""

    def __init__(self, items):
        self.items = list(items)
        self.pos = 0

    def abs_next(self):
        if self.pos >= len(self.items):
            return False, None
        v = self.items[self.pos]
        self.pos += 1
        return True, v

    def abs_iter(self):
        rest = self.items[self.pos:]
        self.pos = len(self.items)
        return rest

    def __iter__(self):             # model code (stdlib stand-ins, rule hooks) iterating a one-shot value consumes it too
        return iter(self.abs_iter())


def _is_generator(fnode) -> bool:
    cached = getattr(fnode, "_csa_is_gen", None)
    if cached is not None:
        return cached

    def has_yield(node):
        for ch in ast.iter_child_nodes(node):
            if isinstance(ch, (ast.FunctionDef, ast.AsyncFunctionDef, ast.Lambda, ast.ClassDef)):
                continue
            if isinstance(ch, (ast.Yield, ast.YieldFrom)) or has_yield(ch):
                return True
        return False
    r = has_yield(fnode)
    try:
        fnode._csa_is_gen = r
    except AttributeError:
        pass
    return r


def fresh_number(x):
    """What an array hands out for a cell: a new python number object each time (identity is never shared)."""
    if isinstance(x, int) and not isinstance(x, bool) and not -5 <= x <= 256:
        return int(str(x))
    if isinstance(x, float):
        return float(repr(x))
    return x


class LazyIter(OnceIter):
    """A generator expression: its outermost iterable is evaluated when the expression is, everything else when the
    generator is first consumed - free variables are read then (late binding)."""

    def __init__(self, thunk):
        self._thunk = thunk
        self._items = None
        self.pos = 0

    @property
    def items(self):
        if self._items is None:
            thunk, self._thunk = self._thunk, None
            self._items = list(thunk())
        return self._items


class Obj:
    """Abstract object of a scenario: attributes and methods supplied by the rule."""

    def __init__(self, name: str, attrs: Optional[Dict[str, Any]] = None, methods: Optional[Dict[str, Callable]] = None):
        self.name = name
        self.attrs = attrs or {}
        self.methods = methods or {}

    def __repr__(self):
        return f"<{self.name}>"


class Mat(Obj):
    """2-D array of the abstract state (rows are python lists, shared by reference like numpy views of rows)."""

    def __init__(self, rows: List[List[Any]]):
        super().__init__("Mat")
        self.rows = rows
        self.dtype = None
        self.methods = {
            "flatten": lambda ev, call, args, kw: Vec([x for r in self.rows for x in r]),
            "tolist": lambda ev, call, args, kw: [[fresh_number(x) for x in r] for r in self.rows],
            "transpose": lambda ev, call, args, kw: Mat([list(c) for c in zip(*self.rows)]) if self.rows else Mat([]),
            "copy": lambda ev, call, args, kw: Mat([list(r) for r in self.rows]),
            "astype": lambda ev, call, args, kw: self._astype(args[0] if args else kw.get("dtype"), call),
            # a value that identifies the content (what bytes / a hashable digest are used for)
            "tobytes": lambda ev, call, args, kw: ("bytes",) + tuple(x for r in self.rows for x in r),
            "tostring": lambda ev, call, args, kw: ("bytes",) + tuple(x for r in self.rows for x in r),
            "ravel": lambda ev, call, args, kw: Vec([x for r in self.rows for x in r]),
            "any": lambda ev, call, args, kw: any(bool(x) for r in self.rows for x in r),
            "all": lambda ev, call, args, kw: all(bool(x) for r in self.rows for x in r),
            "sum": lambda ev, call, args, kw: self._sum(kw.get("axis", args[0] if args else None)),
            "max": lambda ev, call, args, kw: self._reduce(max, kw.get("axis", args[0] if args else None), call),
            "min": lambda ev, call, args, kw: self._reduce(min, kw.get("axis", args[0] if args else None), call),
            "mean": lambda ev, call, args, kw: self._mean(kw.get("axis", args[0] if args else None), call),
            "argsort": lambda ev, call, args, kw: self._argsort(kw.get("axis", args[0] if args else -1), call),
            "reshape": lambda ev, call, args, kw: self._reshape(args, call),
            "nonzero": lambda ev, call, args, kw: (Vec([i for i, r in enumerate(self.rows) for x in r if x]),
                                                   Vec([j for r in self.rows for j, x in enumerate(r) if x])),
        }

    def _reduce(self, f, axis, node):
        cells = [x for r in self.rows for x in r]
        if any(isinstance(x, (Sym, Lin)) for x in cells):
            raise Unsupported("reduction of symbolic values", node)
        if not cells:
            raise AbsRaise("ValueError", node)
        if axis is None:
            return f(cells)
        if axis in (1, -1):
            return Vec([f(r) for r in self.rows])
        if axis == 0:
            return Vec([f(c) for c in zip(*self.rows)])
        raise Unsupported("reduction axis", node)

    def _reshape(self, args, node):
        shape = tuple(args[0]) if len(args) == 1 and isinstance(args[0], (tuple, list)) else tuple(args)
        cells = [x for r in self.rows for x in r]
        if len(shape) == 1 and shape[0] in (-1, len(cells)):
            out = Vec(cells)
            out.dtype = self.dtype
            return out
        if len(shape) == 2 and all(isinstance(x, int) for x in shape):
            r, c = shape
            if r == -1 and c > 0 and len(cells) % c == 0:
                r = len(cells) // c
            elif c == -1 and r > 0 and len(cells) % r == 0:
                c = len(cells) // r
            if r >= 0 and c >= 0 and r * c == len(cells):
                m = Mat([cells[i * c:(i + 1) * c] for i in range(r)])
                m.dtype = self.dtype
                return m
            raise AbsRaise("ValueError", node)
        raise Unsupported("reshape to this shape", node)

    def _argsort(self, axis, node):
        if axis in (1, -1):
            return Mat([sorted(range(len(r)), key=lambda i, r=r: r[i]) for r in self.rows])
        if axis == 0:
            cols = [sorted(range(len(c)), key=lambda i, c=c: c[i]) for c in zip(*self.rows)]
            return Mat([list(r) for r in zip(*cols)])
        raise Unsupported("argsort axis", node)

    def _mean(self, axis, node):
        n_ = sum(len(r) for r in self.rows)
        if axis is None:
            return _arith(ast.Div(), self._sum(None), n_, node)
        if axis in (1, -1):
            return Vec([_arith(ast.Div(), x, len(self.rows[0]), node) for x in self._sum(1).vals])
        if axis == 0:
            return Vec([_arith(ast.Div(), x, len(self.rows), node) for x in self._sum(0).vals])
        raise Unsupported("mean axis", node)

    def _astype(self, dtype, node):
        dt = norm_dtype(dtype)
        m = Mat([[check_dtype(dt, x, node) for x in r] for r in self.rows])
        m.dtype = dt
        return m

    def _sum(self, axis):
        num = lambda x: 1 if x is True else (0 if x is False else x)
        if axis is None:
            return sum(num(x) for r in self.rows for x in r)
        if axis == 1:
            return Vec([sum(num(x) for x in r) for r in self.rows])
        if axis == 0:
            return Vec([sum(num(x) for x in col) for col in zip(*self.rows)])
        raise Unsupported(f"sum over axis {axis!r}")

    def abs_len(self):
        return len(self.rows)

    def abs_iter(self):
        return [Vec.view(r, self.dtype) for r in self.rows]      # iterating a 2-D array yields its rows (views)

    def abs_getattr(self, name, ev, node):
        if name == "shape":
            return (len(self.rows), len(self.rows[0]) if self.rows else 0)
        if name == "T":
            return Mat([list(c) for c in zip(*self.rows)])
        if name == "size":
            return sum(len(r) for r in self.rows)
        if name == "ndim":
            return 2
        if name == "dtype":
            return self.dtype or "float64"
        raise Unsupported(f"attribute {name} of a matrix", node)

    def _mask_cells(self, mask, node):
        if len(mask.rows) != len(self.rows) or any(len(a) != len(b) for a, b in zip(mask.rows, self.rows)):
            raise AbsRaise("IndexError", node)          # boolean index did not match the indexed array
        if not all(x is True or x is False for r in mask.rows for x in r):
            raise Unsupported("matrix indexed by a non-boolean matrix", node)
        return [(i, j) for i, r in enumerate(mask.rows) for j, x in enumerate(r) if x]

    def _index_pairs(self, idx, node):
        """(i, j) cells selected by m[rows, cols] when both are integer index arrays (or one is, the other an integer):
        numpy pairs them element by element, broadcasting an array of one item; other lengths do not match."""
        if not (isinstance(idx, tuple) and len(idx) == 2):
            return None

        def ints(x):
            vals = x.vals if isinstance(x, Vec) else (x if isinstance(x, list) else None)
            if vals is None or not all(isinstance(i, int) and not isinstance(i, bool) for i in vals):
                return None
            return list(vals)
        r, c = idx
        ri, ci = ints(r), ints(c)
        if ri is None and ci is None:
            return None
        if ri is None:
            if not (isinstance(r, int) and not isinstance(r, bool)):
                return None
            ri = [r] * len(ci)
        if ci is None:
            if not (isinstance(c, int) and not isinstance(c, bool)):
                return None
            ci = [c] * len(ri)
        if len(ri) != len(ci):
            if len(ri) == 1:
                ri = ri * len(ci)
            elif len(ci) == 1:
                ci = ci * len(ri)
            else:
                raise AbsRaise("IndexError", node)          # shape mismatch: indexing arrays could not be broadcast
        ncols = len(self.rows[0]) if self.rows else 0
        out = []
        for i, j in zip(ri, ci):
            if not (-len(self.rows) <= i < len(self.rows) and -ncols <= j < ncols):
                raise IndexOut((i, j), len(self.rows), node)
            out.append((i % len(self.rows), j % ncols))
        return out

    def abs_getitem(self, idx, node):
        if isinstance(idx, int) and not isinstance(idx, bool):
            if not 0 <= idx < len(self.rows):
                raise IndexOut(idx, len(self.rows), node)
            return Vec.view(self.rows[idx], self.dtype)
        if isinstance(idx, tuple) and len(idx) == 2 and all(isinstance(i, int) and not isinstance(i, bool) for i in idx):
            if not (0 <= idx[0] < len(self.rows) and 0 <= idx[1] < len(self.rows[idx[0]])):
                raise IndexOut(idx, len(self.rows), node)
            return self.rows[idx[0]][idx[1]]
        if isinstance(idx, Vec) and all(isinstance(i, int) and not isinstance(i, bool) for i in idx.vals):
            idx = list(idx.vals)
        if isinstance(idx, list) and all(isinstance(i, int) for i in idx):
            for i in idx:
                if not 0 <= i < len(self.rows):
                    raise IndexOut(i, len(self.rows), node)
            return Mat([self.rows[i] for i in idx])
        ncols = len(self.rows[0]) if self.rows else 0
        if isinstance(idx, Mat) and type(idx) is Mat:
            cells = self._mask_cells(idx, node)
            return Vec([self.rows[i][j] for i, j in cells])       # selected cells in row-major order (a copy)
        if isinstance(idx, tuple) and len(idx) == 3 and idx[0] == "ix_":
            ri, ci = idx[1], idx[2]
            for i in ri:
                if not -len(self.rows) <= i < len(self.rows):
                    raise IndexOut(i, len(self.rows), node)
            for j in ci:
                if not -ncols <= j < ncols:
                    raise IndexOut(j, ncols, node)
            m = Mat([[self.rows[i][j] for j in ci] for i in ri])       # the block rows x columns (a copy)
            m.dtype = self.dtype
            return m
        pair = self._index_pairs(idx, node)
        if pair is not None:
            return Vec([self.rows[i][j] for i, j in pair])       # fancy indexing copies (element-wise pairs, not a block)
        if isinstance(idx, Vec) and idx.vals and all(isinstance(x, bool) for x in idx.vals) and len(idx.vals) == len(self.rows):
            return Mat([list(r) for r, m in zip(self.rows, idx.vals) if m])               # boolean row mask copies
        if isinstance(idx, slice):
            return Mat(self.rows[idx])              # a range of rows: the row lists are shared (view semantics)
        if isinstance(idx, tuple) and len(idx) == 2:
            r, c = idx
            if isinstance(r, slice) and isinstance(c, int) and not isinstance(c, bool):
                if not -ncols <= c < ncols:
                    raise IndexOut(c, ncols, node)
                return Vec.slice_copy([row[c] for row in self.rows[r]])
            if isinstance(r, int) and not isinstance(r, bool) and isinstance(c, slice):
                if not 0 <= r < len(self.rows):
                    raise IndexOut(r, len(self.rows), node)
                return Vec.slice_copy(self.rows[r][c])
            if isinstance(r, slice) and isinstance(c, slice):
                if c == slice(None):
                    return Mat(self.rows[r])
                m = Mat([row[c] for row in self.rows[r]])
                m.frozen = True
                return m
        if isinstance(idx, tuple) and len(idx) == 2:
            # one axis selected by a slice, the other by an index array or a boolean mask: a copy (fancy indexing)
            def axis(ix, n):
                if isinstance(ix, slice):
                    return list(range(n))[ix]
                vals = ix.vals if isinstance(ix, Vec) else (ix if isinstance(ix, list) else None)
                if vals is None:
                    return None
                if vals and all(isinstance(x, bool) for x in vals):
                    if len(vals) != n:
                        raise AbsRaise("IndexError", node)      # boolean index did not match the indexed array
                    return [i for i, m in enumerate(vals) if m]
                if all(isinstance(x, int) and not isinstance(x, bool) for x in vals):
                    for x in vals:
                        if not -n <= x < n:
                            raise IndexOut(x, n, node)
                    return [x % n if n else x for x in vals]
                return None
            r, c = idx
            if isinstance(r, slice) != isinstance(c, slice):
                ri, ci = axis(r, len(self.rows)), axis(c, ncols)
                if ri is not None and ci is not None:
                    m = Mat([[self.rows[i][j] for j in ci] for i in ri])
                    m.dtype = self.dtype
                    m.ncols_hint = len(ci)
                    return m
        raise Unsupported(f"matrix index {idx!r}", node)

    def abs_setitem(self, idx, op, value, ev, stmt):
        """Stores through slices: m[a:b, k] = v, m[a:b] = v, m[i, a:b] = v, m[a:b, c:d] = v (scalars broadcast)."""
        if getattr(self, "frozen", False):
            raise Unsupported("in-place write through a slice view (not modelled)", stmt)
        ncols = len(self.rows[0]) if self.rows else 0
        binop = AUG_BINOP.get(op)

        def put(row, j, v):
            row[j] = v if op == "=" else _arith(binop, row[j], v, stmt)

        def seq(v, n, what):
            if isinstance(v, Vec):
                v = v.vals
            if isinstance(v, (list, tuple)):
                if len(v) != n:
                    raise AbsRaise("ValueError", stmt)      # numpy: could not broadcast
                return list(v)
            return [v] * n
        if isinstance(idx, slice):
            idx = (idx, slice(None))
        if isinstance(idx, tuple) and len(idx) == 2:
            r, c = idx
            rows_i = list(range(len(self.rows)))[r] if isinstance(r, slice) else None
            cols_j = list(range(ncols))[c] if isinstance(c, slice) else None
            if rows_i is not None and isinstance(c, int) and not isinstance(c, bool):
                if not -ncols <= c < ncols:
                    raise IndexOut(c, ncols, stmt)
                vals = seq(value, len(rows_i), "column")
                for i, v in zip(rows_i, vals):
                    put(self.rows[i], c, v)
                return
            if cols_j is not None and isinstance(r, int) and not isinstance(r, bool):
                if not 0 <= r < len(self.rows):
                    raise IndexOut(r, len(self.rows), stmt)
                vals = seq(value, len(cols_j), "row")
                for j, v in zip(cols_j, vals):
                    put(self.rows[r], j, v)
                return
            if rows_i is not None and cols_j is not None:
                if isinstance(value, Mat):
                    if len(value.rows) != len(rows_i) or any(len(x) != len(cols_j) for x in value.rows):
                        raise AbsRaise("ValueError", stmt)
                    for i, vr in zip(rows_i, value.rows):
                        for j, v in zip(cols_j, vr):
                            put(self.rows[i], j, v)
                    return
                vals = seq(value, len(cols_j), "row")
                for i in rows_i:
                    for j, v in zip(cols_j, vals):
                        put(self.rows[i], j, v)
                return
        raise Unsupported(f"matrix store index {idx!r}", stmt)

    def __repr__(self):
        return f"Mat{self.rows!r}"

    def __eq__(self, other):
        return isinstance(other, Mat) and self.rows == other.rows

    def __hash__(self):
        return id(self)


INT_DTYPE_RANGE = {"int8": (-128, 127), "uint8": (0, 255), "int16": (-32768, 32767), "uint16": (0, 65535),
                   "int32": (-2 ** 31, 2 ** 31 - 1), "uint32": (0, 2 ** 32 - 1), "int64": (-2 ** 63, 2 ** 63 - 1),
                   "uint64": (0, 2 ** 64 - 1)}


class DType(str):
    """A numpy scalar type: its name as a dtype, and a converter when called (np.int64(x), np.float64(x))."""

    def abs_call(self, args, kw, ev, node):
        if len(args) != 1 or kw:
            raise Unsupported("numpy scalar type called with other than one value", node)
        v = args[0]
        if isinstance(v, (Vec, Mat, Sym, Lin)):
            raise Unsupported("numpy scalar type applied to an array", node)
        if isinstance(v, str):
            try:
                v = float(v) if str(self).startswith("float") else int(v)
            except ValueError:
                raise AbsRaise("ValueError", node)
        return check_dtype(str(self), v, node)


def norm_dtype(dtype):
    """Name of a numpy dtype given as a string, a numpy scalar type name or a python type (int -> int64 ...)."""
    if isinstance(dtype, DType):
        dtype = str(dtype)
    if dtype is None or isinstance(dtype, str):
        return "bool_" if dtype == "bool" else dtype
    return {int: "int64", float: "float64", bool: "bool_"}.get(dtype)


def check_dtype(dtype, value, node):
    """The value an array of type `dtype` holds after `value` is stored in one of its cells: numpy (>= 2) refuses a python
    integer that an integer type cannot hold, and silently truncates a float towards zero; a float array makes floats
    of integers; symbolic values are left alone."""
    if dtype in INT_DTYPE_RANGE:
        if isinstance(value, bool):
            return int(value)
        if isinstance(value, float):
            if value != value:
                raise AbsRaise("ValueError", node)          # cannot convert float NaN to integer
            if value in (float("inf"), float("-inf")):
                raise AbsRaise("OverflowError", node)
            value = int(value)
        if isinstance(value, int):
            lo, hi = INT_DTYPE_RANGE[dtype]
            if not lo <= value <= hi:
                raise AbsRaise("OverflowError", node)
    elif dtype in ("float64", "float32") and isinstance(value, (int, bool)):
        return float(value)
    elif dtype == "bool_" and isinstance(value, (int, float)):
        return bool(value)
    return value


SET_ORDER = ["asc"]         # iteration order given to sets: canonical ("asc") or reversed ("desc"). Python leaves the
                            # order of a set unspecified (it follows hashes, and string hashes change from run to
                            # run): a rule may evaluate the same scenario under both orders - results must agree.


def set_items(s) -> list:
    items = sorted(s, key=repr)
    return items if SET_ORDER[0] == "asc" else items[::-1]


def _b_len(x):
    if hasattr(x, "abs_len"):
        return x.abs_len()
    if isinstance(x, (Sym, Lin)):
        raise Unsupported("len of symbolic")
    return len(x)


# builtin functions that may be used as values (key=len, map(abs, ...)) or called on concrete values
BUILTIN_FUNCS = {"len": _b_len, "abs": abs, "ord": ord, "chr": chr, "repr": repr, "id": id}
BUILTIN_TYPES = {"list": list, "set": set, "dict": dict, "int": int, "float": float, "str": str, "tuple": tuple,
                 "bool": bool, "frozenset": frozenset}
# methods of concrete containers that may be taken as values (key=d.get, map(s.strip, ...)): side-effect free ones only
VALUE_METHODS = {dict: ("get", "__getitem__", "__contains__", "keys", "values", "items"),
                 list: ("__getitem__", "__contains__", "index", "count"), tuple: ("__getitem__", "__contains__", "index", "count"),
                 set: ("__contains__", "issubset", "issuperset", "isdisjoint", "intersection", "union", "difference"),
                 frozenset: ("__contains__", "issubset", "issuperset", "isdisjoint", "intersection", "union", "difference"),
                 str: ("strip", "lower", "upper", "isdigit", "startswith", "endswith", "split", "__contains__")}
FALLBACK_CLASS_ATTR = None  # set by engines/resolve.install(project): class-level constants read through an instance
FALLBACK_NAMES = None       # set by engines/resolve.install(project): module-level constants / class attributes by name
FALLBACK_RESOLVER = None
FALLBACK_MODULE_ATTR = None    # set by engines/resolve.install(project): resolves un-scripted calls to package functions


NUMPY_PRINT_THRESHOLD = 1000     # numpy.get_printoptions()['threshold']: larger arrays are summarised with '...'
NUMPY_EDGE_ITEMS = 3


def render_array(v) -> str:
    """Text of a numeric array as numpy prints it, as far as *equality of two renderings* is concerned: arrays of more
    than 1000 items are summarised (3 leading / 3 trailing items per axis), floats carry 8 significant decimals."""
    def item(x):
        if isinstance(x, bool):
            return str(x)
        if isinstance(x, int):
            return str(x)
        if isinstance(x, float):
            r = f"{x:.8f}".rstrip("0")
            return r if not r.endswith(".") else r
        if isinstance(x, Fraction):
            return item(float(x))
        raise Unsupported("text rendering of a symbolic value")

    cells = v.vals if isinstance(v, Vec) else [x for r in v.rows for x in r]
    frac_width = max((len(item(x).split(".")[1]) for x in cells if isinstance(x, (float, Fraction))), default=0)
    is_float = any(isinstance(x, (float, Fraction)) for x in cells)
    plain_item = item

    def item(x):                                    # noqa: F811 - float arrays: one fraction width, padded on the right
        if not is_float:
            return plain_item(x)
        t = plain_item(float(x) if not isinstance(x, bool) else x)
        if "." not in t:
            return t
        whole, frac = t.split(".")
        return whole + "." + frac.ljust(frac_width)

    def line(vals, summarise):
        if summarise and len(vals) > 2 * NUMPY_EDGE_ITEMS:
            return ([item(x) for x in vals[:NUMPY_EDGE_ITEMS]], [item(x) for x in vals[-NUMPY_EDGE_ITEMS:]])
        return ([item(x) for x in vals], None)
    if isinstance(v, Vec):
        head, tail = line(v.vals, len(v.vals) > NUMPY_PRINT_THRESHOLD)
        width = max((len(t) for t in head + (tail or [])), default=0)
        txt = " ".join(t.rjust(width) for t in head)
        if tail is not None:
            txt += " ... " + " ".join(t.rjust(width) for t in tail)
        return "[" + txt + "]"
    rows = v.rows
    size = sum(len(r) for r in rows)
    summarise = size > NUMPY_PRINT_THRESHOLD
    shown = rows
    cut = False
    if summarise and len(rows) > 2 * NUMPY_EDGE_ITEMS:
        shown = rows[:NUMPY_EDGE_ITEMS] + rows[-NUMPY_EDGE_ITEMS:]
        cut = True
    parts = [line(r, summarise) for r in shown]
    width = max((len(t) for h, tl in parts for t in h + (tl or [])), default=0)
    out = []
    for k, (h, tl) in enumerate(parts):
        txt = " ".join(t.rjust(width) for t in h)
        if tl is not None:
            txt += " ... " + " ".join(t.rjust(width) for t in tl)
        out.append("[" + txt + "]")
        if cut and k == NUMPY_EDGE_ITEMS - 1:
            out.append("...")
    return "[" + "\n ".join(out) + "]"


def render(v, top: bool = True) -> str:
    """Python-like text rendering of an abstract value (sets rendered in a canonical order)."""
    if isinstance(v, Vec) or (isinstance(v, Mat) and type(v) is Mat):
        return render_array(v)
    if isinstance(v, (Sym, Lin)):
        raise Unsupported("text rendering of a symbolic value")
    if isinstance(v, str):
        return v if top else repr(v)
    if isinstance(v, (bool, int, float)) or v is None:
        return str(v)
    if isinstance(v, Fraction):
        return str(float(v))
    if isinstance(v, list):
        return "[" + ", ".join(render(x, False) for x in v) + "]"
    if isinstance(v, tuple):
        return "(" + ", ".join(render(x, False) for x in v) + ("," if len(v) == 1 else "") + ")"
    if isinstance(v, (set, frozenset)):
        if not v:
            return "set()" if isinstance(v, set) else "frozenset()"
        inner = "{" + ", ".join(sorted(render(x, False) for x in v)) + "}"
        return inner if isinstance(v, set) else f"frozenset({inner})"
    if isinstance(v, dict):
        return "{" + ", ".join(f"{render(k, False)}: {render(x, False)}" for k, x in v.items()) + "}"
    if hasattr(v, "abs_str"):
        return v.abs_str() if top else (v.abs_repr() if hasattr(v, "abs_repr") else v.abs_str())
    return f"<{type(v).__name__}>"


def _num(v):
    return isinstance(v, (int, float, Fraction)) and not isinstance(v, bool)


def _arith_cell(op: ast.operator, x, y, node):
    """One cell of an array operation: numpy's element semantics where they differ from python's scalars."""
    if isinstance(x, bool) and isinstance(y, bool):
        if isinstance(op, ast.Add):
            return x or y               # boolean arrays: + is the logical or, * the logical and
        if isinstance(op, ast.Mult):
            return x and y
        if isinstance(op, ast.Sub):
            raise AbsRaise("TypeError", node)       # numpy boolean subtract is not supported
    if isinstance(op, (ast.Div, ast.FloorDiv, ast.Mod)) and _num(x) and _num(y) and not isinstance(y, (Sym, Lin)) and y == 0 \
            and not isinstance(x, (Sym, Lin)):
        if isinstance(op, ast.Div):
            return float("nan") if x == 0 else (float("inf") if x > 0 else float("-inf"))
        return 0 if isinstance(x, int) and isinstance(y, int) else float("nan")       # numpy warns and gives 0 / nan
    return _arith(op, x, y, node)


def _matmul(a, b, node):
    def dot(u, v):
        if len(u) != len(v):
            raise AbsRaise("ValueError", node)          # shapes not aligned
        if u and all(isinstance(x, bool) for x in u) and all(isinstance(y, bool) for y in v):
            return any(x and y for x, y in zip(u, v))   # boolean matmul: or of ands (it does not count)
        tot = 0
        for x, y in zip(u, v):
            tot = _arith(ast.Add(), tot, _arith(ast.Mult(), (int(x) if isinstance(x, bool) else x),
                                                (int(y) if isinstance(y, bool) else y), node), node)
        return tot
    am = a.rows if isinstance(a, Mat) else None
    bm = b.rows if isinstance(b, Mat) else None
    av = a.vals if isinstance(a, Vec) else (a if isinstance(a, list) else None)
    bv = b.vals if isinstance(b, Vec) else (b if isinstance(b, list) else None)
    if am is not None and bm is not None:
        cols = [list(c) for c in zip(*bm)]
        return Mat([[dot(r, c) for c in cols] for r in am])
    if am is not None and bv is not None:
        return Vec([dot(r, bv) for r in am])
    if av is not None and bm is not None:
        return Vec([dot(av, list(c)) for c in zip(*bm)])
    if av is not None and bv is not None:
        return dot(av, bv)
    raise Unsupported("matrix product operands", node)


def _rows2(x):
    """A 2-D operand as rows: a matrix, a column vector (n x 1), a 1-D vector seen as one row (1 x n); else None."""
    if isinstance(x, ColVec):
        return [[v] for v in x.vals]
    if isinstance(x, Mat) and type(x) is Mat:
        return x.rows
    if isinstance(x, Vec):
        return [list(x.vals)]
    return None


def broadcast2(a, b, node):
    """numpy broadcasting of two operands of which at least one is 2-D: each dimension is equal or 1."""
    ar, br = _rows2(a), _rows2(b)
    if ar is None:
        ar = [[a]]
    if br is None:
        br = [[b]]
    ra, ca = len(ar), (len(ar[0]) if ar else 0)
    rb, cb = len(br), (len(br[0]) if br else 0)
    if not (ra == rb or ra == 1 or rb == 1) or not (ca == cb or ca == 1 or cb == 1):
        raise AbsRaise("ValueError", node)          # operands could not be broadcast together
    r, c = max(ra, rb) if min(ra, rb) else 0, max(ca, cb) if min(ca, cb) else 0

    def grow(rows, nr, nc):
        rows = [list(x) * c if nc == 1 and c != 1 else x for x in rows]
        return rows * r if nr == 1 and r != 1 else rows
    return grow(ar, ra, ca)[:r], grow(br, rb, cb)[:r]


def _arith(op: ast.operator, a, b, node):
    if isinstance(op, ast.MatMult):
        return _matmul(a, b, node)
    if isinstance(a, ColVec) or isinstance(b, ColVec) or (isinstance(a, Mat) and type(a) is Mat) \
            or (isinstance(b, Mat) and type(b) is Mat):
        ar, br = broadcast2(a, b, node)
        return Mat([[_arith_cell(op, x, y, node) for x, y in zip(r1, r2)] for r1, r2 in zip(ar, br)])
    if isinstance(a, Vec) or isinstance(b, Vec):
        n = len(a) if isinstance(a, Vec) else len(b)
        av = a.vals if isinstance(a, Vec) else [a] * n
        bv = b.vals if isinstance(b, Vec) else [b] * n
        if len(av) != len(bv):
            if len(av) == 1:
                av = av * len(bv)
            elif len(bv) == 1:
                bv = bv * len(av)
            else:
                raise AbsRaise("ValueError", node)      # operands could not be broadcast together
        return Vec([_arith_cell(op, x, y, node) for x, y in zip(av, bv)])
    sym = isinstance(a, (Sym, Lin)) or isinstance(b, (Sym, Lin))
    if sym:
        la, lb = Lin.of(a), Lin.of(b)
        if isinstance(op, ast.Add):
            return la + lb
        if isinstance(op, ast.Sub):
            return la - lb
        if isinstance(op, ast.Mult):
            return la * lb
        if isinstance(op, ast.Div) and lb.is_const() and lb.const != 0:
            return la.scale(Fraction(1) / Fraction(lb.const))
        raise Unsupported(f"operator {type(op).__name__} on symbolic values", node)
    if isinstance(a, (set, frozenset)) and isinstance(b, (set, frozenset)):
        if isinstance(op, ast.Sub):
            return a - b
        if isinstance(op, ast.BitOr):
            return a | b
        if isinstance(op, ast.BitAnd):
            return a & b
        if isinstance(op, ast.BitXor):
            return a ^ b
    if isinstance(a, str) and isinstance(op, ast.Add) and isinstance(b, str):
        return a + b
    if isinstance(a, str) and isinstance(op, ast.Mult) and isinstance(b, int):
        return a * b
    if isinstance(a, (list, tuple)) and isinstance(op, ast.Add) and isinstance(b, type(a)):
        return a + b
    if isinstance(a, (list, tuple)) and isinstance(op, ast.Mult) and isinstance(b, int) and not isinstance(b, bool):
        return a * b
    if isinstance(a, bool) and isinstance(b, bool) and isinstance(op, (ast.BitOr, ast.BitAnd, ast.BitXor)):
        return (a or b) if isinstance(op, ast.BitOr) else ((a and b) if isinstance(op, ast.BitAnd) else (a != b))
    if isinstance(a, bool):
        a = int(a)
    if isinstance(b, bool):
        b = int(b)
    if isinstance(a, int) and isinstance(b, int) and isinstance(op, (ast.BitOr, ast.BitAnd, ast.BitXor, ast.LShift, ast.RShift)):
        return {ast.BitOr: a | b, ast.BitAnd: a & b, ast.BitXor: a ^ b, ast.LShift: a << b if b >= 0 else 0,
                ast.RShift: a >> b if b >= 0 else 0}[type(op)]
    if not (_num(a) and _num(b)):
        raise Unsupported(f"arithmetic on {type(a).__name__}/{type(b).__name__}", node)
    if isinstance(op, ast.Add):
        return a + b
    if isinstance(op, ast.Sub):
        return a - b
    if isinstance(op, ast.Mult):
        return a * b
    if isinstance(op, ast.FloorDiv):
        if b == 0:
            raise AbsRaise("ZeroDivisionError", node)
        return a // b
    if isinstance(op, ast.Div):
        if b == 0:
            raise AbsRaise("ZeroDivisionError", node)
        if isinstance(a, Fraction) or isinstance(b, Fraction):
            return Fraction(a) / Fraction(b)
        return a / b            # Python semantics: true division of ints gives the correctly rounded float
    if isinstance(op, ast.Mod):
        if b == 0:
            raise AbsRaise("ZeroDivisionError", node)
        return a % b
    if isinstance(op, ast.Pow):
        return a ** b
    raise Unsupported(f"operator {type(op).__name__}", node)


def _compare(op: ast.cmpop, a, b, node):
    if isinstance(op, (ast.Is, ast.IsNot)) and (a is None or b is None):
        return (a is b) if isinstance(op, ast.Is) else (a is not b)
    if isinstance(a, ColVec) or isinstance(b, ColVec) or (isinstance(a, Mat) and type(a) is Mat) \
            or (isinstance(b, Mat) and type(b) is Mat):
        ar, br = broadcast2(a, b, node)
        return Mat([[_compare(op, x, y, node) for x, y in zip(r1, r2)] for r1, r2 in zip(ar, br)])
    if isinstance(a, Vec) or isinstance(b, Vec):
        n = len(a) if isinstance(a, Vec) else len(b)
        av = a.vals if isinstance(a, Vec) else [a] * n
        bv = b.vals if isinstance(b, Vec) else [b] * n
        return Vec([_compare(op, x, y, node) for x, y in zip(av, bv)])
    if isinstance(op, (ast.In, ast.NotIn)):
        if isinstance(b, (list, tuple, set, frozenset, dict, str)):
            r = a in b
            return r if isinstance(op, ast.In) else not r
        raise Unsupported("membership in abstract container", node)
    if isinstance(op, (ast.Is, ast.IsNot)) and (a is None or b is None or isinstance(a, Obj) or isinstance(b, Obj)):
        return (a is b) if isinstance(op, ast.Is) else (a is not b)
    if isinstance(op, (ast.Eq, ast.NotEq)) and (isinstance(a, (Sym, Lin)) != isinstance(b, (Sym, Lin))) \
            and not _num(a) and not _num(b) and not isinstance(a, bool) and not isinstance(b, bool):
        return isinstance(op, ast.NotEq)     # a symbol never equals None / a string / a container
    if isinstance(a, (Sym, Lin)) or isinstance(b, (Sym, Lin)):
        la, lb = Lin.of(a), Lin.of(b)
        d = la - lb
        if d.is_const():
            a, b = d.const, 0
        else:
            raise Unsupported(f"comparison of symbolic values {a!r} {type(op).__name__} {b!r}", node)
    if isinstance(op, (ast.Is, ast.IsNot)) and isinstance(a, int) and isinstance(b, int) \
            and not isinstance(a, bool) and not isinstance(b, bool):
        # CPython keeps one object per integer of -5..256 only: beyond, two equal integers computed separately are
        # distinct objects (the evaluator's own integers behave the same way, array exports make fresh ones)
        same = (a == b) if (-5 <= a <= 256 and -5 <= b <= 256) else (a is b)
        return same if isinstance(op, ast.Is) else not same
    if isinstance(op, ast.Is):
        return a is b
    if isinstance(op, ast.IsNot):
        return a is not b
    if isinstance(op, ast.Eq):
        return a == b
    if isinstance(op, ast.NotEq):
        return a != b
    if isinstance(a, bool):
        a = int(a)
    if isinstance(b, bool):
        b = int(b)
    if (isinstance(a, str) and isinstance(b, str)) or (isinstance(a, (tuple, list)) and type(a) is type(b)):
        try:
            return {ast.Lt: a < b, ast.LtE: a <= b, ast.Gt: a > b, ast.GtE: a >= b}[type(op)]
        except (TypeError, KeyError):
            raise AbsRaise("TypeError", node)
    if hasattr(a, "__lt__") and hasattr(a, "rt") and type(op) in (ast.Lt, ast.LtE, ast.Gt, ast.GtE):
        # instances of package classes: their own rich comparison methods
        m = {ast.Lt: "__lt__", ast.LtE: "__le__", ast.Gt: "__gt__", ast.GtE: "__ge__"}[type(op)]
        ok, v = a._special(m, b)
        if ok:
            return bool(v)
    if (isinstance(a, str) and _num(b)) or (_num(a) and isinstance(b, str)):
        raise AbsRaise("TypeError", node)            # '<' not supported between str and int
    if not (_num(a) and _num(b)):
        raise Unsupported(f"ordering comparison on {type(a).__name__}/{type(b).__name__}", node)
    if isinstance(op, ast.Lt):
        return a < b
    if isinstance(op, ast.LtE):
        return a <= b
    if isinstance(op, ast.Gt):
        return a > b
    if isinstance(op, ast.GtE):
        return a >= b
    raise Unsupported(f"comparison {type(op).__name__}", node)


AUG_BINOP = {"+=": ast.Add(), "-=": ast.Sub(), "*=": ast.Mult(), "&=": ast.BitAnd(), "|=": ast.BitOr(), "^=": ast.BitXor(),
             "/=": ast.Div(), "//=": ast.FloorDiv(), "%=": ast.Mod()}


def inplace(cur, op: str, value, node):
    """Python's in-place semantics for mutable containers: the object is updated, not rebound. Returns (done, obj)."""
    if isinstance(cur, set):
        if hasattr(value, "abs_iter"):
            value = set(value.abs_iter())
        if not isinstance(value, (set, frozenset)):
            raise Unsupported("in-place set operator with a non-set", node)
        if op == "&=":
            cur.intersection_update(value)
        elif op == "|=":
            cur.update(value)
        elif op == "-=":
            cur.difference_update(value)
        elif op == "^=":
            cur.symmetric_difference_update(value)
        else:
            return False, None
        return True, cur
    if isinstance(cur, list) and op == "+=":
        if hasattr(value, "abs_iter"):
            value = list(value.abs_iter())
        if isinstance(value, Vec):
            value = list(value.vals)
        if not isinstance(value, (list, tuple, set, frozenset, str, dict)):
            raise AbsRaise("TypeError", node)        # list += <non-iterable>
        cur.extend(value)
        return True, cur
    if isinstance(cur, Vec) and op in ("+=", "-=", "*="):
        new = _arith(AUG_BINOP[op], cur, value, node)
        if cur.dtype in INT_DTYPE_RANGE and any(isinstance(x, float) for x in new.vals):
            raise AbsRaise("TypeError", node)       # numpy: cannot cast the float result back into the integer array
        cur.vals[:] = [check_dtype(cur.dtype, x, node) for x in new.vals]
        return True, cur
    return False, None


class Effect:
    __slots__ = ("target", "op", "value", "node")

    def __init__(self, target, op, value, node):
        self.target = target    # tuple key, e.g. ('cost', 0)
        self.op = op            # '=' | '+=' | '-=' | 'call:<name>'
        self.value = value
        self.node = node

    def __repr__(self):
        return f"{self.target} {self.op} {self.value!r}"


class _Return(Exception):
    def __init__(self, value):
        self.value = value


class _Break(Exception):
    pass


class _Continue(Exception):
    pass


class Evaluator:
    """
    env:      name -> abstract value
    funcs:    dotted callee name -> python callable(evaluator, call_node, args, kwargs) for whitelisted calls
    on_store: callable(evaluator, target_node, op, value, stmt) -> bool ; True if the store was handled as an
              effect (subscript / attribute targets).  Default: record an Effect with a normalised key.
    max_steps bounds the number of evaluated statements (bounded unrolling of index loops only).
    """

    def __init__(self, env: Dict[str, Any], funcs: Optional[Dict[str, Callable]] = None,
                 max_steps: int = 200000):
        self.env = env
        self.funcs = funcs or {}
        self.effects: List[Effect] = []
        self.steps = 0
        self.max_steps = max_steps
        self.trace: List[ast.AST] = []      # statements executed (for coverage / reporting)
        # when set, `name = <unsupported expr>` binds an opaque Sym(name) and records the defining expression
        self.opaque_ok = False
        self.while_bound = 10000
        self.sym_compare = None             # callable(left Lin, op, right Lin, node) -> bool for symbolic comparisons
        self.deleted_names: Set[str] = set()
        self.current_exc: List[str] = []
        self.strict_index = False           # negative indices into concrete lists are out-of-bounds (array semantics)
        self.attr_fallback = None           # callable(dotted) -> value | None for unknown dotted attribute reads
        self.opaque: Dict[str, ast.AST] = {}
        self.cls_ctx = None                 # ClassInfo of the method being evaluated (for super())
        self.self_name = None
        self.runtime = None                 # instances.Runtime: resolves package names / classes / functions
        self.module = None                  # loader.Module the evaluated code belongs to (for name resolution)

    def _default_value(self, fnode, j, expr, default_values):
        """Default values are evaluated once, when the function is defined: a mutable default is shared by the calls.
        (Immutable defaults are simply re-evaluated.)"""
        if default_values is not None:
            return default_values[j]
        # one table of evaluated defaults per "process": the runtime of the world being evaluated (a fresh world is a
        # fresh process), else the function node itself
        if self.runtime is not None:
            table = self.runtime.__dict__.setdefault("default_values", {})
            cache = table.setdefault(id(fnode), {})
        else:
            cache = getattr(fnode, "_csa_defaults", None)
            if cache is None:
                cache = {}
                try:
                    fnode._csa_defaults = cache
                except AttributeError:
                    pass
        if j not in cache:
            v = self.ev(expr)
            if not isinstance(v, (list, dict, set)):
                return v
            cache[j] = v
        return cache[j]

    def call_user(self, fnode: ast.FunctionDef, args: List[Any], kwargs: Optional[Dict[str, Any]] = None,
                  skip_self: bool = False, closure: Optional[Dict[str, Any]] = None, default_values=None):
        """Abstractly evaluate a (package) function body on abstract arguments, sharing hooks and containers."""
        a = fnode.args
        names = [x.arg for x in list(a.posonlyargs) + list(a.args)]
        if skip_self and names:
            names = names[1:]
        env: Dict[str, Any] = dict(closure) if closure else {}
        for nm in names:
            env.pop(nm, None)
        defaults = list(a.defaults)
        nd = len(defaults)
        for i, nm in enumerate(names):
            if i < len(args):
                env[nm] = args[i]
            elif kwargs and nm in kwargs:
                env[nm] = kwargs[nm]
            else:
                j = i - (len(names) - nd)
                if 0 <= j < nd:
                    env[nm] = self._default_value(fnode, j, defaults[j], default_values)
                else:
                    raise AbsRaise("TypeError", fnode)       # missing required argument
        if len(args) > len(names) and a.vararg is None:
            raise AbsRaise("TypeError", fnode)               # too many positional arguments
        kwonly = [x.arg for x in a.kwonlyargs]
        for k, v in (kwargs or {}).items():
            if k in kwonly:
                env[k] = v
            elif k not in names and a.kwarg is None:
                raise AbsRaise("TypeError", fnode)           # unexpected keyword argument
        for x, d in zip(a.kwonlyargs, a.kw_defaults):
            if x.arg not in env and d is not None:
                env[x.arg] = self.ev(d)
        child = Evaluator(env, self.funcs, self.max_steps)
        child.sym_compare = self.sym_compare
        child.strict_index = self.strict_index
        child.attr_fallback = self.attr_fallback
        child.opaque_ok = self.opaque_ok
        child.while_bound = self.while_bound
        child.runtime = self.runtime
        child.module = getattr(fnode, "_csa_module", None) or self.module
        child.cls_ctx = getattr(fnode, "_csa_cls", None)
        child.self_name = names[0] if names else None
        body = list(fnode.body)
        if body and isinstance(body[0], ast.Expr) and isinstance(body[0].value, ast.Constant) \
                and isinstance(body[0].value.value, str):
            body = body[1:]
        if _is_generator(fnode):
            # a generator function: nothing runs at the call; the body runs when the generator is first consumed (its
            # items are then produced in one go - interleaving with the consumer is not modelled)
            outer = self

            def produce():
                child._yields = []
                try:
                    child.run(body)
                finally:
                    outer.steps += child.steps
                    outer.effects.extend(child.effects)
                return child._yields
            return LazyIter(produce)
        try:
            ret = child.run(body)
        finally:
            self.steps += child.steps
            self.effects.extend(child.effects)
            if closure is not None:
                # names the nested function declares nonlocal are bindings of the defining scope
                for st_ in ast.walk(fnode):
                    if isinstance(st_, ast.Nonlocal):
                        for nm in st_.names:
                            if nm in child.env:
                                closure[nm] = child.env[nm]
        return ret

    # ------------------------------------------------------------------ expressions
    def ev(self, node: ast.AST):
        m = getattr(self, "_e_" + type(node).__name__, None)
        if m is None:
            raise Unsupported(f"expression {type(node).__name__}", node)
        return m(node)

    def _e_Constant(self, n):
        return n.value

    def _e_Name(self, n):
        if n.id in self.env:
            return self.env[n.id]
        if n.id in ("True", "False", "None"):
            return {"True": True, "False": False, "None": None}[n.id]
        if n.id in BUILTIN_TYPES and not (self.runtime is not None and self.runtime.lookup_name(self.module, n.id)[0]):
            return BUILTIN_TYPES[n.id]          # a builtin type used as a value (defaultdict(list), map(int, ...))
        if n.id in BUILTIN_FUNCS and not (self.runtime is not None and self.runtime.lookup_name(self.module, n.id)[0]):
            return BUILTIN_FUNCS[n.id]
        if self.runtime is not None:
            found, v = self.runtime.lookup_name(self.module, n.id)
            if found:
                return v
        elif FALLBACK_NAMES is not None:
            found, v = FALLBACK_NAMES(self, n.id, n)
            if found:
                return v
        if n.id in self.deleted_names:
            raise AbsRaise("UnboundLocalError", n)      # read after `del` / after the `except ... as` block that bound it
        raise Unsupported(f"unbound name {n.id}", n)

    def _display_items(self, elts):
        out = []
        for e in elts:
            if isinstance(e, ast.Starred):
                v = self.ev(e.value)
                if hasattr(v, "abs_iter"):
                    v = list(v.abs_iter())
                elif isinstance(v, Vec):
                    v = list(v.vals)
                elif isinstance(v, (set, frozenset)):
                    v = set_items(v)
                elif isinstance(v, dict):
                    v = list(v)
                if not isinstance(v, (list, tuple, str)):
                    raise Unsupported("starred item of an abstract value", e)
                out.extend(v)
            else:
                out.append(self.ev(e))
        return out

    def _e_Yield(self, n):
        if getattr(self, "_yields", None) is None:
            raise Unsupported("yield outside a generator function being consumed", n)
        self._yields.append(self.ev(n.value) if n.value is not None else None)
        return None

    def _e_YieldFrom(self, n):
        if getattr(self, "_yields", None) is None:
            raise Unsupported("yield from outside a generator function being consumed", n)
        v = self.ev(n.value)
        if hasattr(v, "abs_iter"):
            v = list(v.abs_iter())
        elif isinstance(v, Vec):
            v = list(v.vals)
        elif isinstance(v, (set, frozenset)):
            v = set_items(v)
        elif isinstance(v, dict):
            v = list(v)
        if not isinstance(v, (list, tuple, str)):
            raise Unsupported("yield from an abstract iterable", n)
        self._yields.extend(v)
        return None

    def _e_NamedExpr(self, n):
        v = self.ev(n.value)
        self.store(n.target, "=", v, n)
        return v

    def _e_Tuple(self, n):
        return tuple(self._display_items(n.elts))

    def _e_List(self, n):
        return self._display_items(n.elts)

    def _e_Set(self, n):
        try:
            return set(self._display_items(n.elts))
        except TypeError:
            raise AbsRaise("TypeError", n)          # unhashable member

    def _e_Dict(self, n):
        out = {}
        for k, v in zip(n.keys, n.values):
            if k is None:
                raise Unsupported("dict unpacking", n)
            out[self.ev(k)] = self.ev(v)
        return out

    def _comp(self, generators, emit, first_iter=None, stop=None):
        """Run a comprehension. Its loop variables live in their own scope: they neither leak into nor overwrite the
        enclosing function's names. `first_iter`: the outermost iterable, already evaluated (generator expressions);
        `stop()`: asked after each emitted item, True ends the iteration (short-circuiting consumers)."""
        targets = set()
        for g in generators:
            for t in ast.walk(g.target):
                if isinstance(t, ast.Name):
                    targets.add(t.id)
        missing = object()
        saved = {nm: self.env.get(nm, missing) for nm in targets}

        class _Stop(Exception):
            pass

        def rec(i):
            if i == len(generators):
                emit()
                if stop is not None and stop():
                    raise _Stop()
                return
            g = generators[i]
            it = first_iter if (i == 0 and first_iter is not None) else self.ev(g.iter)
            if isinstance(it, dict):
                it = list(it)
            if isinstance(it, (set, frozenset)):
                it = set_items(it)
            if isinstance(it, Vec):
                it = list(it.vals)
            if isinstance(it, OnceIter) and stop is not None:
                # consumed item by item: what a short-circuiting consumer leaves stays in the iterator
                while True:
                    ok, v = it.abs_next()
                    if not ok:
                        return
                    self.store(g.target, "=", v, g.iter)
                    if all(self.truth(self.ev(c), c) for c in g.ifs):
                        rec(i + 1)
            if hasattr(it, "abs_iter"):
                it = list(it.abs_iter())
            if isinstance(it, str):
                it = list(it)
            if not isinstance(it, (list, tuple)):
                raise Unsupported("comprehension over abstract iterable", g.iter)
            for v in it:
                self.store(g.target, "=", v, g.iter)
                if all(self.truth(self.ev(c), c) for c in g.ifs):
                    rec(i + 1)
        try:
            rec(0)
        except _Stop:
            pass
        finally:
            for nm, v in saved.items():
                if v is missing:
                    self.env.pop(nm, None)
                else:
                    self.env[nm] = v

    def _e_ListComp(self, n):
        out = []
        self._comp(n.generators, lambda: out.append(self.ev(n.elt)))
        return out

    def _e_GeneratorExp(self, n):
        first = self.ev(n.generators[0].iter)       # python evaluates the outermost iterable immediately

        def produce():
            out = []
            self._comp(n.generators, lambda: out.append(self.ev(n.elt)), first_iter=first)
            return out
        g = LazyIter(produce)
        g.node = n
        g.first = first
        g.owner = self
        return g

    def _e_SetComp(self, n):
        out = set()
        self._comp(n.generators, lambda: out.add(self.ev(n.elt)))
        return out

    def _e_DictComp(self, n):
        out = {}

        def emit():
            out[self.ev(n.key)] = self.ev(n.value)
        self._comp(n.generators, emit)
        return out

    def _e_JoinedStr(self, n):
        out = []
        for v in n.values:
            if isinstance(v, ast.Constant):
                out.append(str(v.value))
            elif isinstance(v, ast.FormattedValue):
                val = self.ev(v.value)
                if v.format_spec is not None or v.conversion != -1:
                    if isinstance(val, (int, float, str)) and v.format_spec is not None and v.conversion == -1:
                        spec = self._e_JoinedStr(v.format_spec)
                        try:
                            out.append(format(val, spec))
                            continue
                        except (ValueError, TypeError):
                            raise Unsupported("format spec in f-string", n)
                    if v.conversion in (114, 115) and v.format_spec is None:    # !r / !s
                        out.append(render(val, v.conversion == 115))
                        continue
                    raise Unsupported("format spec in f-string", n)
                try:
                    out.append(render(val))
                except Unsupported:
                    out.append(f"<{type(val).__name__}>")       # text rendering of an abstract value
        return "".join(out)

    def _e_UnaryOp(self, n):
        v = self.ev(n.operand)
        if isinstance(n.op, ast.Not):
            if isinstance(v, Vec):
                return Vec([not x for x in v.vals])
            return not self.truth(v, n)
        if isinstance(v, collections.Counter) and isinstance(n.op, (ast.USub, ast.UAdd)):
            r = +v if isinstance(n.op, ast.UAdd) else -v
            out = type(v)()
            out.update(r)
            return out
        if isinstance(n.op, ast.USub):
            if isinstance(v, (Sym, Lin)):
                return -Lin.of(v)
            if isinstance(v, Vec):
                return Vec([-x for x in v.vals])
            return -v
        if isinstance(n.op, ast.UAdd):
            return v
        if isinstance(n.op, ast.Invert):
            if isinstance(v, Vec) and all(isinstance(x, bool) for x in v.vals):
                return Vec([not x for x in v.vals])          # numpy: ~ on a boolean array
            if isinstance(v, Mat) and all(isinstance(x, bool) for r in v.rows for x in r):
                return Mat([[not x for x in r] for r in v.rows])
            if isinstance(v, int) and not isinstance(v, bool):
                return ~v
        raise Unsupported("unary operator", n)

    def getattr_value(self, obj, name: str, node=None):
        """attribute `name` of an abstract value (operator.attrgetter, getattr())"""
        if hasattr(obj, "abs_getattr"):
            return obj.abs_getattr(name, self, node)
        if isinstance(obj, Obj) and name in obj.attrs:
            v = obj.attrs[name]
            return v() if callable(v) else v
        raise Unsupported(f"attribute {name} of {type(obj).__name__}", node)

    def truth(self, v, node=None) -> bool:
        if isinstance(v, Vec) and not any(isinstance(x, (Sym, Lin)) for x in v.vals):
            if len(v.vals) == 1:
                return bool(v.vals[0])
            raise AbsRaise("ValueError", node)      # the truth value of an array with several (or no) items is ambiguous
        if isinstance(v, Mat) and type(v) is Mat:
            cells = [x for r in v.rows for x in r]
            if len(cells) == 1 and not isinstance(cells[0], (Sym, Lin)):
                return bool(cells[0])
            raise AbsRaise("ValueError", node)
        if isinstance(v, (Sym, Lin, Vec)):
            raise Unsupported(f"truth value of abstract {v!r}", node)
        return bool(v)

    def _e_BoolOp(self, n):
        if isinstance(n.op, ast.And):
            v = True
            for e in n.values:
                v = self.ev(e)
                if not self.truth(v, e):
                    return v
            return v
        v = False
        for e in n.values:
            v = self.ev(e)
            if self.truth(v, e):
                return v
        return v

    def _e_BinOp(self, n):
        left, right = self.ev(n.left), self.ev(n.right)
        if isinstance(left, collections.Counter) and isinstance(right, collections.Counter) \
                and isinstance(n.op, (ast.Add, ast.Sub, ast.BitAnd, ast.BitOr)):
            r = {ast.Add: lambda a, b: a + b, ast.Sub: lambda a, b: a - b, ast.BitAnd: lambda a, b: a & b,
                 ast.BitOr: lambda a, b: a | b}[type(n.op)](left, right)
            out = type(left)()
            out.update(r)
            return out
        return _arith(n.op, left, right, n)

    def _e_Compare(self, n):
        left = self.ev(n.left)
        res = True
        for op, c in zip(n.ops, n.comparators):
            right = self.ev(c)
            if self.sym_compare is not None and (isinstance(left, (Sym, Lin)) or isinstance(right, (Sym, Lin))):
                d = Lin.of(left) - Lin.of(right)
                if not d.is_const():
                    r = self.sym_compare(Lin.of(left), op, Lin.of(right), n)
                    if r is not True and r is not False:
                        return r             # a constraint object built by the rule's hook
                    if not r:
                        return False
                    left = right
                    continue
            r = _compare(op, left, right, n)
            if isinstance(r, Mat):
                return r
            if isinstance(r, Vec):
                if len(n.ops) != 1:
                    raise Unsupported("chained vector comparison", n)
                return r
            if not r:
                return False
            left = right
        return res

    def _e_Lambda(self, n):
        names = [a.arg for a in n.args.args]
        outer = self
        defaults = [self.ev(d) for d in n.args.defaults]        # evaluated when the lambda is created

        def fn(*args):
            if len(args) < len(names) and len(names) - len(args) <= len(defaults):
                args = tuple(args) + tuple(defaults[len(defaults) - (len(names) - len(args)):])
            if len(args) != len(names):
                raise Unsupported("lambda arity", n)
            child = Evaluator(dict(outer.env), outer.funcs, outer.max_steps)
            child.attr_fallback = outer.attr_fallback
            child.sym_compare = outer.sym_compare
            child.runtime = outer.runtime
            child.module = outer.module
            child.env.update(dict(zip(names, args)))
            return child.ev(n.body)
        return fn

    def _e_Slice(self, n):
        return slice(self.ev(n.lower) if n.lower is not None else None,
                     self.ev(n.upper) if n.upper is not None else None,
                     self.ev(n.step) if n.step is not None else None)

    def _e_IfExp(self, n):
        return self.ev(n.body) if self.truth(self.ev(n.test), n.test) else self.ev(n.orelse)

    def _e_Subscript(self, n):
        base = self.ev(n.value)
        if isinstance(n.slice, ast.Slice):
            lo = self.ev(n.slice.lower) if n.slice.lower is not None else None
            hi = self.ev(n.slice.upper) if n.slice.upper is not None else None
            st = self.ev(n.slice.step) if n.slice.step is not None else None
            if isinstance(base, (list, tuple, str)):
                return base[lo:hi:st]
            if isinstance(base, Vec):
                return Vec.slice_copy(base.vals[lo:hi:st])
            if isinstance(base, Mat) and type(base) is Mat:
                return base.abs_getitem(slice(lo, hi, st), n)
            raise Unsupported("slice of abstract value", n)
        idx = self.ev(n.slice)
        if isinstance(base, Sym):
            if isinstance(idx, Mat) and type(idx) is Mat:
                return Mat([[base[x] for x in r] for r in idx.rows])
            if isinstance(idx, (Vec, list)) and all(isinstance(x, int) and not isinstance(x, bool)
                                                    for x in (idx.vals if isinstance(idx, Vec) else idx)):
                return Vec([base[x] for x in (idx.vals if isinstance(idx, Vec) else idx)])
            return base[idx]
        if isinstance(base, Vec):
            if isinstance(idx, tuple) and len(idx) == 2 and idx[0] == slice(None) and idx[1] is None:
                return ColVec(base.vals)
            if idx is None or (isinstance(idx, tuple) and len(idx) == 2 and idx[0] is None and idx[1] == slice(None)):
                return Mat([list(base.vals)])       # v[newaxis, :]: one row
            if isinstance(idx, Vec) and idx.vals and all(isinstance(m, int) and not isinstance(m, bool) for m in idx.vals):
                return Vec([base.vals[i] for i in idx.vals])
            if isinstance(idx, list) and all(isinstance(m, int) and not isinstance(m, bool) for m in idx):
                return Vec([base.vals[i] for i in idx])
            if isinstance(idx, Mat) and type(idx) is Mat and all(isinstance(x, int) and not isinstance(x, bool)
                                                                 for r in idx.rows for x in r):
                for r in idx.rows:
                    for x in r:
                        if not -len(base.vals) <= x < len(base.vals):
                            raise IndexOut(x, len(base.vals), n)
                return Mat([[base.vals[x] for x in r] for r in idx.rows])      # a look-up table applied cell by cell
            if isinstance(idx, Vec) and not idx.vals and idx.dtype != "bool_":
                return Vec([])                              # an empty integer index array selects nothing
            if isinstance(idx, Vec):
                if len(idx.vals) != len(base.vals):
                    raise AbsRaise("IndexError", n)         # boolean index did not match the indexed array
                return Vec([v for v, m in zip(base.vals, idx.vals) if m])
            if isinstance(idx, int) and not isinstance(idx, bool):
                if not -len(base.vals) <= idx < len(base.vals) or (idx < 0 and self.strict_index):
                    raise IndexOut(idx, len(base.vals), n)
                return base.vals[idx]
            raise Unsupported("subscript of vector", n)
        if hasattr(base, "abs_getitem"):
            return base.abs_getitem(idx, n)
        if isinstance(base, list) and isinstance(idx, list) and all(isinstance(i, int) for i in idx):
            for i in idx:
                if not 0 <= i < len(base):
                    raise IndexOut(i, len(base), n)
            return [base[i] for i in idx]       # numpy row selection
        if isinstance(base, (list, tuple, str)):
            if not isinstance(idx, int) or isinstance(idx, bool):
                raise Unsupported("non-int index", n)
            if not -len(base) <= idx < len(base):
                raise IndexOut(idx, len(base), n)
            if idx < 0 and self.strict_index:
                raise IndexOut(idx, len(base), n)
            return base[idx]
        if isinstance(base, dict):
            if idx not in base:
                if isinstance(base, collections.Counter):
                    return 0                # a Counter counts 0 for a missing key (and does not insert it)
                fac = getattr(base, "default_factory", None)
                if fac is not None:         # collections.defaultdict: the missing key is created by the factory
                    base[idx] = self._apply(fac, [], n) if not isinstance(fac, type) else fac()
                    return base[idx]
                raise AbsRaise("KeyError", n)
            return base[idx]
        raise Unsupported(f"subscript of {type(base).__name__}", n)

    def _e_Attribute(self, n):
        d = _dotted(n)
        if d is not None and d in self.env:
            return self.env[d]
        if d is not None and self.attr_fallback is not None:
            v = self.attr_fallback(d)
            if v is not None:
                return v
        if d is not None and self.runtime is None and FALLBACK_MODULE_ATTR is not None:
            found, v = FALLBACK_MODULE_ATTR(self, d)
            if found:
                return v
        base = self.ev(n.value)
        for ty, names in VALUE_METHODS.items():
            if type(base) is ty and n.attr in names:
                return getattr(base, n.attr)
        if isinstance(base, Vec):
            if n.attr == "shape":
                return (len(base.vals),)
            if n.attr == "size":
                return len(base.vals)
            if n.attr == "ndim":
                return 1
            if n.attr == "__getitem__":
                return lambda i, _b=base: _b.vals[i]
            if n.attr == "dtype":
                return base.dtype or "float64"
            if n.attr == "T":
                return base
            raise Unsupported(f"attribute {n.attr} of a vector", n)
        if not isinstance(base, Obj) and hasattr(base, "abs_getattr"):
            return base.abs_getattr(n.attr, self, n)
        if isinstance(base, Obj):
            if hasattr(base, "abs_getattr"):
                return base.abs_getattr(n.attr, self, n)
            if n.attr in base.attrs:
                v = base.attrs[n.attr]
                return v() if callable(v) else v
            if FALLBACK_CLASS_ATTR is not None and self.runtime is None:
                found, v = FALLBACK_CLASS_ATTR(self, n.attr, n)
                if found:
                    return v
            raise Unsupported(f"attribute {n.attr} of {base!r}", n)
        if isinstance(base, dict) and n.attr in base:
            return base[n.attr]
        if base is None:
            raise AbsRaise("AttributeError", n)         # 'NoneType' object has no attribute ...
        raise Unsupported(f"attribute {n.attr}", n)

    def _e_Call(self, n):
        name = _dotted(n.func)
        args = None
        if name is not None and name in self.funcs:
            return self.funcs[name](self, n)
        if isinstance(n.func, ast.Attribute) and isinstance(n.func.value, ast.Call) \
                and isinstance(n.func.value.func, ast.Name) and n.func.value.func.id == "super" \
                and self.runtime is not None and self.cls_ctx is not None:
            me = self.env.get(self.self_name)
            args, kw = self._call_args(n)
            return self.runtime.super_call(self.cls_ctx, me, n.func.attr, args, kw, self, n)
        if isinstance(n.func, ast.Attribute):
            if name is not None and name in self.funcs:
                return self.funcs[name](self, n)
            obj = self._maybe_obj(n.func.value)
            if obj is not None:
                if n.func.attr not in obj.methods and ("." + n.func.attr) in self.funcs:
                    return self.funcs["." + n.func.attr](self, n)       # a hook of the rule for this method name
                if n.func.attr not in obj.methods:
                    if hasattr(obj, "abs_callmethod"):
                        args, kw = self._call_args(n)
                        return obj.abs_callmethod(n.func.attr, args, kw, self, n)
                    if FALLBACK_RESOLVER is not None and self.runtime is None:
                        found, val = FALLBACK_RESOLVER(self, n, name)
                        if found:
                            return val
                    raise Unsupported(f"method {n.func.attr} of {obj!r}", n)
                args, kw = self._call_args(n)
                return obj.methods[n.func.attr](self, n, args, kw)
        if isinstance(n.func, ast.Attribute) and ("." + n.func.attr) in self.funcs:
            return self.funcs["." + n.func.attr](self, n)
        if isinstance(n.func, ast.Attribute):
            handled, val = self._container_call(n)
            if handled:
                return val
            handled, val = self._vec_call(n)
            if handled:
                return val
        if name in ("zip", "reversed", "map", "filter", "round", "divmod", "pow", "next", "dict", "callable", "type") \
                and name not in self.env:
            args, kw = self._call_args(n)

            def as_list(v):
                if hasattr(v, "abs_iter"):
                    return list(v.abs_iter())
                if isinstance(v, Vec):
                    return list(v.vals)
                if isinstance(v, (set, frozenset)):
                    return set_items(v)
                if isinstance(v, dict):
                    return list(v)
                if isinstance(v, (list, tuple, str)):
                    return list(v)
                raise Unsupported(f"{name} over an abstract iterable", n)
            if name == "zip":
                return OnceIter([tuple(t) for t in zip(*[as_list(a) for a in args])])
            if name == "reversed":
                return OnceIter(list(reversed(as_list(args[0]))))
            if name == "map":
                f = args[0]
                cols = [as_list(a) for a in args[1:]]
                return OnceIter([self._apply(f, list(t), n) for t in zip(*cols)])
            if name == "filter":
                f = args[0]
                return OnceIter([x for x in as_list(args[1]) if self.truth(self._apply(f, [x], n) if f is not None else x, n)])
            if name == "round":
                if any(isinstance(a, (Sym, Lin, Vec)) for a in args):
                    raise Unsupported("round of symbolic", n)
                return round(*args)
            if name == "divmod":
                return divmod(*args)
            if name == "pow":
                return pow(*args)
            if name == "next":
                it = args[0]
                if isinstance(it, OnceIter):
                    ok, v = it.abs_next()
                    if ok:
                        return v
                    if len(args) > 1:
                        return args[1]
                    raise AbsRaise("StopIteration", n)
                if isinstance(it, (list, tuple, set, frozenset, dict, str)):
                    raise AbsRaise("TypeError", n)          # not an iterator
                raise Unsupported("next of abstract", n)
            if name == "dict":
                out = {}
                if args:
                    src_ = args[0]
                    if isinstance(src_, dict):
                        out.update(src_)
                    else:
                        for k_, v_ in as_list(src_):
                            out[k_] = v_
                out.update(kw)
                return out
            if name == "callable":
                return callable(args[0]) or hasattr(args[0], "abs_call")
            if name == "type":
                if isinstance(args[0], (Sym, Lin, Vec, Obj)):
                    raise Unsupported("type() of an abstract value", n)
                return type(args[0])
        if name == "repr" and len(n.args) == 1 and not n.keywords:
            return render(self.ev(n.args[0]), False)
        if name == "hash" and len(n.args) == 1:
            v = self.ev(n.args[0])
            if isinstance(v, (Sym, Lin, Vec)):
                raise Unsupported("hash of symbolic", n)
            return hash(v)
        if name in ("any", "all") and not n.keywords and len(n.args) == 1 and isinstance(n.args[0], ast.GeneratorExp) \
                and name not in self.env:
            # any / all stop at the first deciding item: later items are not evaluated
            g = n.args[0]
            want = name == "any"
            hit = []

            def emit():
                if self.truth(self.ev(g.elt), g.elt) == want:
                    hit.append(True)
            self._comp(g.generators, emit, first_iter=self.ev(g.generators[0].iter), stop=lambda: bool(hit))
            return want if hit else not want
        if name in ("frozenset", "any", "all", "sum", "iter") and not n.keywords and len(n.args) == 1:
            v = self.ev(n.args[0])
            if name == "iter" and isinstance(v, OnceIter):
                return v                    # iter() of an iterator is the iterator itself
            if hasattr(v, "abs_iter"):
                v = list(v.abs_iter())
            if isinstance(v, Vec):
                v = list(v.vals)
            if isinstance(v, dict):
                v = list(v)
            if isinstance(v, (list, tuple, set, frozenset)):
                if name == "frozenset":
                    return frozenset(v)
                if name == "iter":
                    return OnceIter(list(v) if not isinstance(v, (set, frozenset)) else set_items(v))
                if name == "any":
                    return any(self.truth(x, n) for x in v)
                if name == "all":
                    return all(self.truth(x, n) for x in v)
                if name == "sum":
                    tot = 0
                    for x in v:
                        tot = _arith(ast.Add(), tot, x, n)
                    return tot
            raise Unsupported(f"{name} of abstract", n)
        if name in ("len", "min", "max", "abs", "int", "float", "range", "str", "bool", "set", "list", "tuple",
                    "sorted", "enumerate", "isinstance"):
            args = [self.ev(a) for a in n.args]
            if name == "sorted" and n.keywords:
                kw = {k.arg: self.ev(k.value) for k in n.keywords}
                seq = args[0]
                if isinstance(seq, dict):
                    seq = list(seq)
                if isinstance(seq, (set, frozenset)):
                    seq = set_items(seq)
                if not isinstance(seq, (list, tuple)) or set(kw) - {"key", "reverse"}:
                    raise Unsupported("sorted arguments", n)
                keyf = kw.get("key")
                keys = [self._apply(keyf, [x], n) if keyf else x for x in seq]
                if any(isinstance(k, (Sym, Lin, Vec)) for k in keys):
                    raise Unsupported("sort key is symbolic", n)
                try:
                    order = sorted(range(len(seq)), key=lambda i: keys[i], reverse=bool(kw.get("reverse", False)))
                except TypeError:
                    raise AbsRaise("TypeError", n)
                return [seq[i] for i in order]
            if n.keywords and name in ("min", "max"):
                kw = {k.arg: self.ev(k.value) for k in n.keywords}
                vals = args[0] if len(args) == 1 else args
                if hasattr(vals, "abs_iter"):
                    vals = list(vals.abs_iter())
                if isinstance(vals, Vec):
                    vals = list(vals.vals)
                if isinstance(vals, (set, frozenset, dict)):
                    vals = set_items(vals)
                vals = list(vals)
                if not vals:
                    if "default" in kw:
                        return kw["default"]
                    raise AbsRaise("ValueError", n)
                keyf = kw.get("key")
                keys = [self._apply(keyf, [x], n) if keyf else x for x in vals]
                if any(isinstance(k_, (Sym, Lin, Vec)) for k_ in keys):
                    raise Unsupported("min/max key is symbolic", n)
                idx = (min if name == "min" else max)(range(len(vals)), key=lambda i: keys[i])
                return vals[idx]
            if n.keywords and name == "enumerate":
                kw = {k.arg: self.ev(k.value) for k in n.keywords}
                args = args + [kw.get("start", 0)]
            elif n.keywords:
                raise Unsupported("keywords in builtin call", n)
            if name == "len":
                if isinstance(args[0], (list, tuple, str, dict, set, frozenset, Vec)) or hasattr(args[0], "abs_len"):
                    return args[0].abs_len() if hasattr(args[0], "abs_len") else len(args[0])
                raise Unsupported("len of abstract value", n)
            if name in ("min", "max"):
                vals = args[0] if len(args) == 1 else args
                if hasattr(vals, "abs_iter"):
                    vals = list(vals.abs_iter())
                if isinstance(vals, (set, frozenset)):
                    vals = set_items(vals)
                if any(isinstance(v, (Sym, Lin, Vec)) for v in vals):
                    raise Unsupported("min/max of symbolic values", n)
                try:
                    return min(vals) if name == "min" else max(vals)
                except ValueError:
                    raise AbsRaise("ValueError", n)         # empty sequence
                except TypeError:
                    raise AbsRaise("TypeError", n)          # values that cannot be ordered
            if name == "abs":
                if isinstance(args[0], (Sym, Lin, Vec)):
                    raise Unsupported("abs of symbolic", n)
                return abs(args[0])
            if name == "int":
                if isinstance(args[0], (Sym, Lin, Vec)):
                    raise Unsupported("int of symbolic", n)
                try:
                    return int(*args)
                except ValueError:
                    raise AbsRaise("ValueError", n)
                except TypeError:
                    raise AbsRaise("TypeError", n)
                except OverflowError:
                    raise AbsRaise("OverflowError", n)       # int(float("inf"))
            if name == "float":
                if isinstance(args[0], (Sym, Lin)):
                    return args[0]
                try:
                    return float(args[0]) if not isinstance(args[0], Fraction) else args[0]
                except ValueError:
                    raise AbsRaise("ValueError", n)
                except TypeError:
                    raise AbsRaise("TypeError", n)
                except OverflowError:
                    raise AbsRaise("OverflowError", n)
            if name == "range":
                if not all(isinstance(a, int) for a in args):
                    raise Unsupported("range over abstract bound", n)
                return list(range(*args))
            if name == "str":
                return render(args[0])
            if name == "bool":
                return self.truth(args[0], n)
            if name == "sorted" and False:
                pass
            if name in ("list", "tuple", "set") and not args:
                return {"list": list, "tuple": tuple, "set": set}[name]()
            if name in ("list", "tuple", "sorted", "set"):
                if isinstance(args[0], Vec):
                    args[0] = list(args[0].vals)
                if isinstance(args[0], dict):
                    args[0] = list(args[0])
                if hasattr(args[0], "abs_iter"):
                    args[0] = list(args[0].abs_iter())
                if isinstance(args[0], (set, frozenset)) and name != "set":
                    args[0] = set_items(args[0])        # the iteration order given to sets (see SET_ORDER)
                if isinstance(args[0], (list, tuple, set, frozenset, str)):
                    try:
                        return {"list": list, "tuple": tuple, "sorted": sorted, "set": set}[name](args[0])
                    except TypeError:
                        raise AbsRaise("TypeError", n)      # values that cannot be ordered / hashed
                raise Unsupported(f"{name} of abstract", n)
            if name == "enumerate":
                if isinstance(args[0], Mat) and type(args[0]) is Mat:
                    args[0] = [Vec.view(r, args[0].dtype) for r in args[0].rows]
                if hasattr(args[0], "abs_iter"):
                    args[0] = list(args[0].abs_iter())
                if isinstance(args[0], Vec):
                    args[0] = list(args[0].vals)
                if isinstance(args[0], (set, frozenset)):
                    args[0] = set_items(args[0])
                if isinstance(args[0], dict):
                    args[0] = list(args[0])
                if isinstance(args[0], (list, tuple, str)):
                    return OnceIter(list(enumerate(args[0], args[1] if len(args) > 1 else 0)))
                raise Unsupported("enumerate of abstract", n)
        try:
            fv = self.ev(n.func)
        except Unsupported:
            fv = None
        if fv is not None and hasattr(fv, "abs_call"):
            args, kw = self._call_args(n)
            return fv.abs_call(args, kw, self, n)
        if callable(fv) and getattr(fv, "__name__", "") == "fn":      # evaluator lambda
            args, kw = self._call_args(n)
            return fv(*args)
        if callable(fv) and type(getattr(fv, "__self__", None)) in VALUE_METHODS \
                and getattr(fv, "__name__", "") in VALUE_METHODS[type(fv.__self__)]:
            args, kw = self._call_args(n)               # a side-effect free method of a concrete container taken as a value
            try:
                return fv(*args, **kw)
            except (KeyError, IndexError, ValueError, TypeError) as exc:
                raise AbsRaise(type(exc).__name__, n)
        if callable(fv) and getattr(fv, "__name__", "") == "<lambda>" and getattr(fv, "__module__", "").endswith("abseval"):
            args, kw = self._call_args(n)
            return fv(*args)
        if isinstance(fv, type) and fv in (int, float, str, bool, list, set, tuple, dict, frozenset):
            args, kw = self._call_args(n)
            try:
                return fv(*args, **kw)
            except (ValueError, TypeError) as exc:
                raise AbsRaise(type(exc).__name__, n)
        if name is not None and name.startswith("str.") and name.count(".") == 1 and "str" not in self.env \
                and name[4:] in ("maketrans", "join", "lower", "upper", "strip", "split", "isdigit", "startswith",
                                 "endswith", "replace", "casefold", "title", "format"):
            args, kw = self._call_args(n)
            if any(isinstance(a, (Sym, Lin, Vec, Obj)) for a in args):
                raise Unsupported(f"{name} of an abstract value", n)
            try:
                return getattr(str, name[4:])(*args, **kw)
            except (TypeError, ValueError) as exc:
                raise AbsRaise(type(exc).__name__, n)
        if name == "object" and not n.args and not n.keywords and "object" not in self.env:
            return Obj("object")            # a fresh object, equal to nothing else (sentinel)
        if name == "dict.fromkeys" and "dict" not in self.env:
            args, kw = self._call_args(n)
            keys = args[0]
            if hasattr(keys, "abs_iter"):
                keys = list(keys.abs_iter())
            if isinstance(keys, (set, frozenset)):
                keys = sorted(keys, key=repr)
            if isinstance(keys, dict):
                keys = list(keys)
            if not isinstance(keys, (list, tuple, str)):
                raise Unsupported("dict.fromkeys over an abstract iterable", n)
            return {k: (args[1] if len(args) > 1 else None) for k in keys}
        if FALLBACK_RESOLVER is not None and self.runtime is None:
            found, val = FALLBACK_RESOLVER(self, n, name)
            if found:
                return val
        if isinstance(n.func, ast.Attribute):
            try:
                recv = self.ev(n.func.value)
            except (Unsupported, AbsRaise):
                recv = NotImplemented
            if recv is None:
                raise AbsRaise("AttributeError", n)     # method called on None
        raise Unsupported(f"call {name or ast.dump(n.func)[:40]}", n)

    # ------------------------------------------------------------------ statements
    def target_key(self, t: ast.AST):
        """Normalised key of a store target: base name + evaluated indices."""
        if isinstance(t, ast.Name):
            return (t.id,)
        if isinstance(t, ast.Subscript):
            base = self.target_key(t.value)
            idx = self.ev(t.slice)
            if isinstance(idx, tuple):
                return base + tuple(idx)
            return base + (idx,)
        if isinstance(t, ast.Attribute):
            return self.target_key(t.value) + ("." + t.attr,)
        raise Unsupported("store target", t)

    def store(self, target: ast.AST, op: str, value, stmt: ast.AST):
        if isinstance(target, ast.Name):
            if op == "=":
                self.env[target.id] = value
            else:
                cur = self.env.get(target.id)
                if cur is None and target.id not in self.env:
                    raise Unsupported(f"augmented assignment to unbound {target.id}", stmt)
                if hasattr(cur, "abs_iadd") and op == "+=":
                    cur.abs_iadd(value, self, stmt)
                    return
                done, _obj = inplace(cur, op, value, stmt)
                if done:
                    return
                binop = AUG_BINOP[op]
                self.env[target.id] = _arith(binop, cur, value, stmt)
            return
        if isinstance(target, (ast.Tuple, ast.List)):
            if op == "=" and not isinstance(value, (tuple, list)):
                if hasattr(value, "abs_iter"):
                    value = list(value.abs_iter())
                elif isinstance(value, Vec):
                    value = list(value.vals)
            if op == "=" and isinstance(value, (tuple, list)) and any(isinstance(e, ast.Starred) for e in target.elts):
                k = next(i for i, e in enumerate(target.elts) if isinstance(e, ast.Starred))
                after = len(target.elts) - k - 1
                if len(value) < len(target.elts) - 1:
                    raise AbsRaise("ValueError", stmt)
                head, mid, tail = list(value[:k]), list(value[k:len(value) - after]), list(value[len(value) - after:]) if after else []
                for el, v in zip(target.elts[:k], head):
                    self.store(el, "=", v, stmt)
                self.store(target.elts[k].value, "=", mid, stmt)
                for el, v in zip(target.elts[k + 1:], tail):
                    self.store(el, "=", v, stmt)
                return
            if op == "=" and isinstance(value, (tuple, list)) and len(value) != len(target.elts):
                raise AbsRaise("ValueError", stmt)           # too many / not enough values to unpack
            if op != "=" or not isinstance(value, (tuple, list)) or len(value) != len(target.elts):
                raise Unsupported("tuple assignment", stmt)
            for el, v in zip(target.elts, value):
                self.store(el, "=", v, stmt)
            return
        if isinstance(target, ast.Attribute):
            try:
                ob = self.ev(target.value)
            except Unsupported:
                ob = None
            if isinstance(ob, Obj) and hasattr(ob, "abs_setattr"):
                if op != "=":
                    curv = ob.abs_getattr(target.attr, self, stmt)
                    if hasattr(curv, "abs_iadd") and op == "+=":
                        curv.abs_iadd(value, self, stmt)
                        return
                    done, _obj = inplace(curv, op, value, stmt)
                    if done:
                        return
                    value = _arith(AUG_BINOP[op], curv, value, stmt)
                ob.abs_setattr(target.attr, value, self, stmt)
                return
        if isinstance(target, ast.Subscript):
            try:
                base0 = self.ev(target.value)
            except Unsupported:
                base0 = None
            idx0 = None
            if isinstance(base0, (Vec, Mat)) and type(base0) in (Vec, Mat):
                idx0 = self.ev(target.slice)
            sliced = isinstance(idx0, slice) or (isinstance(idx0, tuple) and any(isinstance(i, slice) for i in idx0))
            if sliced and isinstance(base0, Mat):
                base0.abs_setitem(idx0, op, value, self, stmt)
                return
            if sliced and isinstance(base0, Vec) and isinstance(idx0, slice):
                if base0.frozen:
                    raise Unsupported("in-place write through a slice view (not modelled)", stmt)
                pos = list(range(len(base0.vals)))[idx0]
                vals = value.vals if isinstance(value, Vec) else (list(value) if isinstance(value, (list, tuple)) else [value] * len(pos))
                if len(vals) != len(pos):
                    raise AbsRaise("ValueError", stmt)
                for i, v in zip(pos, vals):
                    base0.vals[i] = v if op == "=" else _arith(AUG_BINOP[op], base0.vals[i], v, stmt)
                return
        if isinstance(target, ast.Subscript) and not isinstance(target.slice, ast.Slice):
            try:
                base = self.ev(target.value)
            except Unsupported:
                base = None
            if isinstance(base, Vec) and base.frozen:
                raise Unsupported("in-place write through a slice view (not modelled)", stmt)
            if isinstance(base, (list, Vec, dict)):
                self._concrete_store(base, self.ev(target.slice), op, value, stmt)
                return
            if isinstance(base, Mat):
                idx0 = self.ev(target.slice)
                if isinstance(idx0, tuple) and len(idx0) == 2 and all(isinstance(i, int) for i in idx0):
                    if not (0 <= idx0[0] < len(base.rows) and 0 <= idx0[1] < len(base.rows[idx0[0]])):
                        raise IndexOut(idx0, len(base.rows), stmt)
                    self._concrete_store(base.rows[idx0[0]], idx0[1], op, value, stmt)
                    base.rows[idx0[0]][idx0[1]] = check_dtype(base.dtype, base.rows[idx0[0]][idx0[1]], stmt)
                    return
            if isinstance(base, Mat) and op == "=":
                idx = self.ev(target.slice)
                if isinstance(idx, int) and 0 <= idx < len(base.rows):
                    vals = value.vals if isinstance(value, Vec) else value
                    if isinstance(vals, list) and len(vals) == len(base.rows[idx]):
                        base.rows[idx][:] = list(vals)
                        return
                    if not isinstance(vals, (list, Vec, Mat)):
                        base.rows[idx][:] = [vals] * len(base.rows[idx])        # broadcast of a scalar over the row
                        return
            if isinstance(base, Mat):
                idx = self.ev(target.slice)
                if isinstance(idx, Mat) and type(idx) is Mat and type(base) is Mat:
                    cells = base._mask_cells(idx, stmt)
                    vals = value.vals if isinstance(value, Vec) else (list(value) if isinstance(value, (list, tuple)) else None)
                    if vals is None:
                        vals = [value] * len(cells)
                    elif len(vals) != len(cells):
                        if len(vals) == 1:
                            vals = vals * len(cells)
                        else:
                            raise AbsRaise("ValueError", stmt)      # cannot assign n values to m selected cells
                    news = [v_ if op == "=" else _arith(AUG_BINOP[op], base.rows[i][j], v_, stmt) for (i, j), v_ in zip(cells, vals)]
                    for (i, j), v_ in zip(cells, news):
                        base.rows[i][j] = check_dtype(base.dtype, v_, stmt)
                    return
                if isinstance(idx, tuple) and len(idx) == 2:
                    ri, ci = idx
                    rows_i = list(ri.vals) if isinstance(ri, Vec) else (list(ri) if isinstance(ri, list) else None)
                    cols_i = list(ci.vals) if isinstance(ci, Vec) else (list(ci) if isinstance(ci, list) else None)
                    if rows_i is not None and (cols_i is not None or (isinstance(ci, int) and not isinstance(ci, bool))):
                        # integer-array ("fancy") store: one item per (row, column) pair
                        if cols_i is None:
                            cols_i = [ci] * len(rows_i)
                        if len(cols_i) != len(rows_i):
                            raise AbsRaise("IndexError", stmt)
                        vals = value.vals if isinstance(value, Vec) else (list(value) if isinstance(value, (list, tuple)) else [value] * len(rows_i))
                        if len(vals) != len(rows_i):
                            raise AbsRaise("ValueError", stmt)
                        for r_, c_ in zip(rows_i, cols_i):
                            if not (isinstance(r_, int) and isinstance(c_, int) and 0 <= r_ < len(base.rows) and 0 <= c_ < len(base.rows[r_])):
                                raise IndexOut((r_, c_), len(base.rows), stmt)
                        # numpy reads all the selected cells, computes, then writes: a cell selected twice by an
                        # augmented store is updated once (no accumulation)
                        news = [v_ if op == "=" else _arith(AUG_BINOP[op], base.rows[r_][c_], v_, stmt)
                                for r_, c_, v_ in zip(rows_i, cols_i, vals)]
                        for r_, c_, v_ in zip(rows_i, cols_i, news):
                            base.rows[r_][c_] = check_dtype(base.dtype, v_, stmt)
                        return
                    if isinstance(ri, int) and not isinstance(ri, bool) and cols_i is not None and 0 <= ri < len(base.rows):
                        vals = value.vals if isinstance(value, Vec) else (list(value) if isinstance(value, (list, tuple)) else [value] * len(cols_i))
                        if len(vals) != len(cols_i):
                            raise AbsRaise("ValueError", stmt)
                        for c_ in cols_i:
                            if not (isinstance(c_, int) and 0 <= c_ < len(base.rows[ri])):
                                raise IndexOut((ri, c_), len(base.rows), stmt)
                        news = [v_ if op == "=" else _arith(AUG_BINOP[op], base.rows[ri][c_], v_, stmt) for c_, v_ in zip(cols_i, vals)]
                        for c_, v_ in zip(cols_i, news):
                            base.rows[ri][c_] = check_dtype(base.dtype, v_, stmt)
                        return
                raise Unsupported("matrix row store", stmt)
            if base is not None and hasattr(base, "abs_setitem") and not isinstance(base, (Sym, Lin)):
                base.abs_setitem(self.ev(target.slice), op, value, self, stmt)
                return
        if isinstance(target, ast.Subscript):
            try:
                b_ = self.ev(target.value)
            except Unsupported:
                b_ = None
            if isinstance(b_, list) and isinstance(target.slice, ast.Slice):
                # list slice assignment / augmented assignment on the list object itself
                sl = self.ev(target.slice)
                if hasattr(value, "abs_iter"):
                    value = list(value.abs_iter())
                elif isinstance(value, Vec):
                    value = list(value.vals)
                elif isinstance(value, (set, frozenset)):
                    value = set_items(value)
                elif isinstance(value, dict):
                    value = list(value)
                if not isinstance(value, (list, tuple, str)):
                    raise AbsRaise("TypeError", stmt)       # can only assign an iterable
                if op == "=":
                    try:
                        b_[sl] = list(value)
                    except ValueError:
                        raise AbsRaise("ValueError", stmt)  # extended slice of a different size
                    return
                if op == "+=":
                    b_[sl] = b_[sl] + list(value)
                    return
                raise Unsupported("augmented assignment to a list slice", stmt)
            if b_ is not None and not isinstance(b_, (Sym, Lin)) and not hasattr(b_, "abs_store_effect"):
                # a concrete value of the abstract state: a store that is not modelled is refused, never skipped
                raise Unsupported(f"store into {type(b_).__name__} with this index", stmt)
        # alias resolution: a name bound to a Sym is a *view* of the symbol (cost_elem1_elem2 = matrix[e1][e2])
        key = self._alias_key(target)
        self.effects.append(Effect(key, op, value, stmt))
        if isinstance(target, ast.Attribute):
            d = _dotted(target)
            if d is not None:
                if op == "=":
                    self.env[d] = value
                elif d in self.env:
                    binop = AUG_BINOP[op]
                    self.env[d] = _arith(binop, self.env[d], value, stmt)

    def _concrete_store(self, base, idx, op, value, stmt):
        binop = AUG_BINOP.get(op)
        if isinstance(base, dict):
            if op == "=":
                base[idx] = value
            else:
                if idx not in base:
                    fac = getattr(base, "default_factory", None)
                    if isinstance(base, collections.Counter):
                        base[idx] = 0
                    elif fac is not None:
                        base[idx] = self._apply(fac, [], stmt) if not isinstance(fac, type) else fac()
                    else:
                        raise AbsRaise("KeyError", stmt)
                done, _obj = inplace(base[idx], op, value, stmt)
                if not done:
                    base[idx] = _arith(binop, base[idx], value, stmt)
            return
        seq = base.vals if isinstance(base, Vec) else base
        if isinstance(idx, list) and isinstance(base, Vec):
            idx = Vec(list(idx))
        if isinstance(idx, Vec):
            if not isinstance(base, Vec):
                raise Unsupported("mask store", stmt)
            dt = base.dtype
            if idx.vals and all(m is True or m is False for m in idx.vals):
                if len(idx.vals) != len(seq):
                    raise AbsRaise("IndexError", stmt)      # boolean index did not match the indexed array
                sel = [i for i, m in enumerate(idx.vals) if m]
            elif all(isinstance(m, int) and not isinstance(m, bool) for m in idx.vals):
                for m in idx.vals:
                    if not -len(seq) <= m < len(seq):
                        raise IndexOut(m, len(seq), stmt)
                sel = [m % len(seq) for m in idx.vals] if seq else []
            else:
                raise Unsupported("non-boolean mask", stmt)
            vals = value.vals if isinstance(value, Vec) else (list(value) if isinstance(value, (list, tuple)) else None)
            if vals is not None and len(vals) != len(sel):
                if len(vals) == 1:
                    vals = vals * len(sel)
                else:
                    raise AbsRaise("ValueError", stmt)      # shape mismatch between the selection and the values
            if vals is None:
                vals = [value] * len(sel)
            # numpy reads the selected cells, computes, then writes: an index present twice is updated once
            news = [v_ if op == "=" else _arith(binop, seq[i], v_, stmt) for i, v_ in zip(sel, vals)]
            for i, v_ in zip(sel, news):
                seq[i] = check_dtype(dt, v_, stmt)
            return
        if isinstance(idx, bool) or not isinstance(idx, int):
            raise Unsupported(f"store index {idx!r}", stmt)
        if not 0 <= idx < len(seq):
            # numpy / python would raise (or wrap for negatives): rules must see this
            raise IndexOut(idx, len(seq), stmt)
        if op != "=":
            done, _obj = inplace(seq[idx], op, value, stmt)
            if done:
                return
        seq[idx] = value if op == "=" else _arith(binop, seq[idx], value, stmt)
        if isinstance(base, Vec) and base.dtype is not None:
            seq[idx] = check_dtype(base.dtype, seq[idx], stmt)

    def _alias_key(self, t: ast.AST):
        if isinstance(t, ast.Name):
            v = self.env.get(t.id)
            if isinstance(v, Sym):
                return (v.name,) + v.idx
            return (t.id,)
        if isinstance(t, ast.Subscript):
            base = self._alias_key(t.value)
            idx = self.ev(t.slice)
            if isinstance(idx, tuple):
                return base + tuple(idx)
            return base + (idx,)
        if isinstance(t, ast.Attribute):
            return self._alias_key(t.value) + ("." + t.attr,)
        raise Unsupported("store target", t)

    def run(self, stmts: List[ast.stmt]):
        """Returns the returned value (or None). Raises AbsRaise on `raise`."""
        if self.module is None and stmts:
            # a body evaluated on its own: recover the function it belongs to (module globals, class, self name)
            p = getattr(stmts[0], "_csa_parent", None)
            while p is not None and not isinstance(p, (ast.FunctionDef, ast.AsyncFunctionDef)):
                p = getattr(p, "_csa_parent", None)
            if p is not None and getattr(p, "_csa_module", None) is not None:
                self.module = p._csa_module
                self.cls_ctx = getattr(p, "_csa_cls", None)
                if self.self_name is None and self.cls_ctx is not None and p.args.args:
                    self.self_name = p.args.args[0].arg
        try:
            self.block(stmts)
        except _Return as r:
            return r.value
        return None

    def block(self, stmts):
        for st in stmts:
            self.stmt(st)

    def stmt(self, st: ast.stmt):
        self.steps += 1
        if self.steps > self.max_steps:
            raise LoopBound("evaluation step bound exceeded", st)
        self.trace.append(st)
        if isinstance(st, ast.Expr):
            if isinstance(st.value, ast.Constant):
                return
            if isinstance(st.value, ast.Call):
                self.call_stmt(st.value, st)
                return
            self.ev(st.value)
            return
        if isinstance(st, ast.Assign):
            v = self._rhs(st.targets[0] if len(st.targets) == 1 else None, st.value)
            for t in st.targets:
                self.store(t, "=", v, st)
            return
        if isinstance(st, ast.AnnAssign):
            if st.value is not None:
                self.store(st.target, "=", self._rhs(st.target, st.value), st)
            return
        if isinstance(st, ast.AugAssign):
            op = {ast.Add: "+=", ast.Sub: "-=", ast.Mult: "*=", ast.BitAnd: "&=", ast.BitOr: "|=", ast.BitXor: "^=",
                  ast.Div: "/=", ast.FloorDiv: "//=", ast.Mod: "%="}.get(type(st.op))
            if op is None:
                raise Unsupported("augmented operator", st)
            self.store(st.target, op, self.ev(st.value), st)
            return
        if isinstance(st, ast.If):
            if self.truth(self.ev(st.test), st.test):
                self.block(st.body)
            else:
                self.block(st.orelse)
            return
        if isinstance(st, ast.For):
            it = self.ev(st.iter)
            if isinstance(it, OnceIter):
                broke = False
                while True:
                    ok, v = it.abs_next()
                    if not ok:
                        break
                    self.store(st.target, "=", v, st)
                    try:
                        self.block(st.body)
                    except _Break:
                        broke = True
                        break
                    except _Continue:
                        continue
                if not broke:
                    self.block(st.orelse)
                return
            live = it if isinstance(it, (dict, set)) else None
            live_len = len(it) if live is not None else None
            if isinstance(it, list):
                # python iterates over the list object itself, by position: items removed or added by the body count
                broke = False
                pos = 0
                while pos < len(it):
                    self.store(st.target, "=", it[pos], st)
                    pos += 1
                    try:
                        self.block(st.body)
                    except _Break:
                        broke = True
                        break
                    except _Continue:
                        continue
                if not broke:
                    self.block(st.orelse)
                return
            if isinstance(it, (set, frozenset)):
                it = set_items(it)
            elif isinstance(it, dict):
                it = list(it)
            elif isinstance(it, Vec):
                it = list(it.vals)
            elif hasattr(it, "abs_iter"):
                it = list(it.abs_iter())        # a 2-D array yields views of its rows
            if not isinstance(it, (list, tuple)):
                raise Unsupported("loop over abstract iterable", st)
            it = list(it)
            broke = False
            for v in it:
                if live is not None and len(live) != live_len:
                    raise AbsRaise("RuntimeError", st)      # dictionary / set changed size during iteration
                self.store(st.target, "=", v, st)
                try:
                    self.block(st.body)
                except _Break:
                    broke = True
                    break
                except _Continue:
                    continue
            if not broke and live is not None and len(live) != live_len:
                raise AbsRaise("RuntimeError", st)
            if not broke:
                self.block(st.orelse)
            return
        if isinstance(st, ast.While):
            n = 0
            while self.truth(self.ev(st.test), st.test):
                n += 1
                if n > self.while_bound:
                    raise LoopBound("while bound exceeded", st)
                try:
                    self.block(st.body)
                except _Break:
                    break
                except _Continue:
                    continue
            return
        if isinstance(st, ast.Return):
            raise _Return(self.ev(st.value) if st.value is not None else None)
        if isinstance(st, ast.Break):
            raise _Break()
        if isinstance(st, ast.Continue):
            raise _Continue()
        if isinstance(st, ast.Pass):
            return
        if isinstance(st, ast.Raise):
            name = "Exception"
            if st.exc is None:
                if self.current_exc:
                    raise AbsRaise(self.current_exc[-1], st)       # bare raise: the exception being handled
                raise AbsRaise("RuntimeError", st)                 # no active exception to re-raise
            if st.exc is not None:
                e = st.exc.func if isinstance(st.exc, ast.Call) else st.exc
                name = _dotted(e) or "Exception"
                head = name.split(".")[0]
                if head in self.env:
                    # `raise exc` / `raise exc_class(...)` where the name is a variable: what it is bound to decides
                    try:
                        v = self.ev(e)
                    except Unsupported:
                        v = None
                    cls_ = getattr(v, "cls", None)
                    if isinstance(v, Obj) and isinstance(v.name, str) and v.name.startswith("EXC:"):
                        name = v.name[4:]               # the exception a handler bound with `as`
                    elif cls_ is not None and hasattr(cls_, "name"):
                        name = cls_.name
                    elif hasattr(v, "name") and isinstance(getattr(v, "name"), str) and v.name.startswith("external "):
                        name = v.name.split(" ", 1)[1]
                    elif isinstance(v, type) and issubclass(v, BaseException):
                        name = v.__name__
                elif head in self.deleted_names and isinstance(e, ast.Name):
                    name = "UnboundLocalError"
            raise AbsRaise(name, st)
        if isinstance(st, ast.Assert):
            try:
                ok = self.truth(self.ev(st.test), st.test)
            except Unsupported:
                return                      # a condition the evaluator cannot decide is not checked
            if not ok:
                raise AbsRaise("AssertionError", st)
            return
        if isinstance(st, (ast.FunctionDef,)):
            self.env[st.name] = self._local_function(st)
            return
        if isinstance(st, ast.Delete):
            for t in st.targets:
                if isinstance(t, ast.Name):
                    self.env.pop(t.id, None)
                    self.deleted_names.add(t.id)
                elif isinstance(t, ast.Subscript):
                    base = self.ev(t.value)
                    idx = self.ev(t.slice)
                    if isinstance(base, dict):
                        if idx not in base:
                            raise AbsRaise("KeyError", st)
                        del base[idx]
                    elif isinstance(base, list):
                        try:
                            del base[idx]
                        except IndexError:
                            raise AbsRaise("IndexError", st)
                    else:
                        raise Unsupported("del on an abstract container", st)
                else:
                    raise Unsupported("del target", st)
            return
        if isinstance(st, (ast.Global, ast.Nonlocal)):
            return
        if isinstance(st, ast.Try):
            try:
                try:
                    try:
                        self.block(st.body)
                    except IndexOut as io:
                        raise AbsRaise("IndexError", io.node)       # the code's own handlers see an IndexError
                except AbsRaise as exc:
                    for h in st.handlers:
                        if self._handler_matches(h, exc.exc_name):
                            if h.name:
                                self.env[h.name] = Obj("EXC:" + exc.exc_name)
                            self.current_exc.append(exc.exc_name)
                            try:
                                self.block(h.body)
                            finally:
                                self.current_exc.pop()
                                if h.name:
                                    self.env.pop(h.name, None)      # python deletes the name when the handler ends
                                    self.deleted_names.add(h.name)
                            break
                    else:
                        raise
                else:
                    self.block(st.orelse)
            finally:
                self.block(st.finalbody)
            return
        if isinstance(st, (ast.Import, ast.ImportFrom)):
            if self.runtime is not None:
                self.runtime.exec_import(self, st)
                return
            raise Unsupported("import statement", st)
        if isinstance(st, ast.With):
            for item in st.items:
                v = self.ev(item.context_expr)
                if item.optional_vars is not None:
                    self.store(item.optional_vars, "=", v, st)
            self.block(st.body)
            return
        raise Unsupported(f"statement {type(st).__name__}", st)

    def _call_args(self, n: ast.Call):
        args = []
        for a in n.args:
            if isinstance(a, ast.Starred):
                v = self.ev(a.value)
                if hasattr(v, "abs_iter"):
                    v = list(v.abs_iter())
                elif isinstance(v, Vec):
                    v = list(v.vals)
                elif isinstance(v, (set, frozenset)):
                    v = set_items(v)
                if not isinstance(v, (list, tuple)):
                    raise Unsupported("star argument", n)
                args.extend(v)
            else:
                args.append(self.ev(a))
        kw = {}
        for k in n.keywords:
            if k.arg is None:
                v = self.ev(k.value)
                if not isinstance(v, dict):
                    raise Unsupported("double-star argument", n)
                kw.update(v)
            else:
                kw[k.arg] = self.ev(k.value)
        return args, kw

    def _maybe_obj(self, node: ast.AST) -> Optional[Obj]:
        try:
            v = self.ev(node)
        except IndexOut:
            raise
        except Unsupported:
            return None
        if isinstance(v, Obj):
            return v
        if hasattr(v, "abs_callmethod") and hasattr(v, "methods"):
            return v
        return None

    def _container_call(self, call: ast.Call):
        """Method call on a concrete python container held in the abstract environment."""
        try:
            base = self.ev(call.func.value)
        except IndexOut:
            raise
        except Unsupported:
            return False, None
        attr = call.func.attr
        if isinstance(base, list) and attr == "sort":
            kw = {k.arg: self.ev(k.value) for k in call.keywords}
            if set(kw) - {"key", "reverse"} or call.args:
                raise Unsupported("sort arguments", call)
            keyf = kw.get("key")
            keys = [keyf(x) if keyf else x for x in base]
            order = sorted(range(len(base)), key=lambda i: keys[i], reverse=bool(kw.get("reverse", False)))
            base[:] = [base[i] for i in order]
            return True, None
        if isinstance(base, (list, set, frozenset, dict, str, tuple)) and not call.keywords:
            args, _kw = self._call_args(call)
            if attr in ("extend", "update", "intersection", "union", "difference", "issubset", "issuperset", "join",
                        "isdisjoint", "symmetric_difference", "difference_update", "intersection_update"):
                args = [list(a.abs_iter()) if hasattr(a, "abs_iter") else a for a in args]
            table = {
                list: ("append", "extend", "clear", "copy", "pop", "index", "count", "insert", "reverse", "remove", "sort"),
                set: ("add", "update", "clear", "copy", "intersection", "union", "difference", "discard", "remove",
                      "issubset", "issuperset", "isdisjoint", "symmetric_difference", "pop", "difference_update",
                      "intersection_update", "symmetric_difference_update"),
                frozenset: ("copy", "intersection", "union", "difference", "issubset", "issuperset", "isdisjoint",
                            "symmetric_difference"),
                dict: ("get", "items", "keys", "values", "clear", "copy", "pop", "update", "setdefault", "popitem"),
                str: ("translate", "casefold", "swapcase", "expandtabs", "encode",
                      "split", "strip", "replace", "startswith", "endswith", "lower", "upper", "isdigit", "find",
                      "rfind", "join", "lstrip", "rstrip", "splitlines", "partition", "rpartition", "count", "index",
                      "isalpha", "isnumeric", "isalnum", "isspace", "zfill", "title", "capitalize", "format",
                      "rsplit", "center", "ljust", "rjust", "isdecimal", "removeprefix", "removesuffix"),
                tuple: ("index", "count"),
                collections.Counter: ("most_common", "subtract", "elements", "total"),
            }
            if type(base).__name__ == "DequeObj" and attr in ("appendleft", "popleft", "extendleft", "rotate"):
                try:
                    return True, getattr(base, attr)(*args)
                except IndexError:
                    raise AbsRaise("IndexError", call)
            for ty, names in table.items():
                if isinstance(base, ty) and attr in names:
                    try:
                        r = getattr(base, attr)(*args)
                    except (KeyError, IndexError, ValueError, TypeError) as exc:
                        raise AbsRaise(type(exc).__name__, call)
                    if attr in ("items", "keys", "values", "elements"):
                        r = list(r)
                    return True, r
        return False, None

    def _vec_call(self, call: ast.Call):
        try:
            base = self.ev(call.func.value)
        except IndexOut:
            raise
        except Unsupported:
            return False, None
        if not isinstance(base, Vec):
            return False, None
        attr = call.func.attr
        args, _kw = self._call_args(call)
        if _kw.get("axis") is not None and not args:
            args = [_kw["axis"]]
        if attr == "tolist":
            return True, [fresh_number(x) for x in base.vals]
        if attr in ("copy", "flatten", "ravel") and not args:
            return True, Vec(list(base.vals))
        if attr == "fill" and len(args) == 1:
            for i in range(len(base.vals)):
                base.vals[i] = args[0]
            return True, None
        if attr == "sum" and not args:
            tot = 0
            for x in base.vals:
                tot = _arith(ast.Add(), tot, (1 if x is True else (0 if x is False else x)), call)
            return True, tot
        if attr == "reshape":
            shape = tuple(args[0]) if len(args) == 1 and isinstance(args[0], (tuple, list)) else tuple(args)
            if len(shape) == 1 and shape[0] in (-1, len(base.vals)):
                return True, Vec.slice_copy(list(base.vals)) if False else Vec(list(base.vals))
            if len(shape) == 2 and all(isinstance(x, int) for x in shape):
                r, c = shape
                n_ = len(base.vals)
                if r == -1 and c > 0 and n_ % c == 0:
                    r = n_ // c
                elif c == -1 and r > 0 and n_ % r == 0:
                    c = n_ // r
                if r >= 0 and c >= 0 and r * c == n_:
                    m = Mat([base.vals[i * c:(i + 1) * c] for i in range(r)])
                    m.dtype = base.dtype
                    return True, m
                raise AbsRaise("ValueError", call)      # cannot reshape array of this size
            raise Unsupported("reshape to this shape", call)
        if attr == "astype":
            dt = norm_dtype(args[0] if args else None)
            out = Vec([check_dtype(dt, x, call) for x in base.vals])
            out.dtype = dt
            return True, out
        if attr in ("tobytes", "tostring") and not args:
            return True, ("bytes",) + tuple(base.vals)
        if attr in ("max", "min") and not args:
            if not base.vals:
                raise AbsRaise("ValueError", call)      # zero-size array to reduction operation
            if any(isinstance(x, (Sym, Lin)) for x in base.vals):
                raise Unsupported(f"{attr} of symbolic values", call)
            return True, (max if attr == "max" else min)(base.vals)
        if attr in ("any", "all") and not args:
            return True, (any if attr == "any" else all)(bool(x) for x in base.vals)
        if attr == "argsort" and (not args or args[0] in (0, -1)):
            return True, Vec(sorted(range(len(base.vals)), key=lambda i: base.vals[i]))
        if attr == "sort" and not args:
            if base.frozen:
                raise Unsupported("in-place sort of a slice view (not modelled)", call)
            if any(isinstance(x, (Sym, Lin)) for x in base.vals):
                raise Unsupported("sort of symbolic values", call)
            base.vals.sort()
            return True, None
        if attr == "mean" and not args and base.vals:
            tot = 0
            for x in base.vals:
                tot = _arith(ast.Add(), tot, (1 if x is True else (0 if x is False else x)), call)
            return True, _arith(ast.Div(), tot, len(base.vals), call)
        if attr in ("argmin", "argmax") and not args and base.vals:
            f_ = min if attr == "argmin" else max
            best = f_(base.vals)
            return True, base.vals.index(best)          # first occurrence, like numpy
        if attr == "cumsum" and not args:
            out, tot = [], 0
            for x in base.vals:
                tot = _arith(ast.Add(), tot, x, call)
                out.append(tot)
            return True, Vec(out)
        if attr == "nonzero" and not args:
            return True, (Vec([i for i, x in enumerate(base.vals) if x]),)
        raise Unsupported(f"method {attr} of a vector", call)

    def _apply(self, f, args, node):
        if hasattr(f, "abs_call"):
            return f.abs_call(list(args), {}, self, node)
        if callable(f):
            return f(*args)
        raise Unsupported("call of a non-callable abstract value", node)

    def _local_function(self, st: ast.FunctionDef):
        outer = self
        defaults = [self.ev(d) for d in st.args.defaults]       # evaluated when the def statement runs

        class LocalFunc:
            def abs_call(self_inner, args, kw, ev, node):
                # closure: free variables resolve in the defining environment as it is at call time
                return outer.call_user(st, list(args), kw, closure=outer.env, default_values=defaults)

            def __call__(self_inner, *args):
                return self_inner.abs_call(list(args), {}, outer, st)
        return LocalFunc()

    def _rhs(self, target, value):
        if self.opaque_ok and isinstance(target, ast.Name):
            try:
                return self.ev(value)
            except Unsupported:
                self.opaque[target.id] = value
                return Sym(target.id)
        return self.ev(value)

    EXC_PARENTS = {"UnboundLocalError": "NameError", "ModuleNotFoundError": "ImportError", "ImportError": "Exception", "KeyError": "LookupError",
                   "IndexError": "LookupError", "LookupError": "Exception", "ValueError": "Exception",
                   "TypeError": "Exception", "NameError": "Exception", "ZeroDivisionError": "ArithmeticError",
                   "ArithmeticError": "Exception", "NotImplementedError": "RuntimeError", "RuntimeError": "Exception",
                   "AttributeError": "Exception", "UnicodeDecodeError": "ValueError", "Exception": "BaseException"}

    def _handler_matches(self, h: ast.ExceptHandler, exc_name: str) -> bool:
        if h.type is None:
            return True
        types = h.type.elts if isinstance(h.type, ast.Tuple) else [h.type]
        names = [(_dotted(t) or "").split(".")[-1] for t in types]
        cur = exc_name.split(".")[-1]
        seen = set()
        while cur and cur not in seen:
            if cur in names:
                return True
            seen.add(cur)
            nxt = self.EXC_PARENTS.get(cur)
            if nxt is None and self.runtime is not None:
                nxt = self.runtime.exception_parent(cur)
            if nxt is None:
                nxt = "Exception" if cur != "Exception" and cur != "BaseException" else None
            cur = nxt
        return False

    def call_stmt(self, call: ast.Call, st: ast.stmt):
        """Expression statement that is a call: whitelisted function, or a recorded mutator effect."""
        name = _dotted(call.func)
        if name is not None and name in self.funcs:
            self.funcs[name](self, call)
            return
        if isinstance(call.func, ast.Attribute):
            obj = self._maybe_obj(call.func.value)
            if obj is not None:
                self._e_Call(call)
                return
            if ("." + call.func.attr) in self.funcs:
                self.funcs["." + call.func.attr](self, call)
                return
            handled, _ = self._container_call(call)
            if handled:
                return
            if self.runtime is not None:
                self._e_Call(call)
                return
            if FALLBACK_RESOLVER is not None:
                found, _val = FALLBACK_RESOLVER(self, call, name)      # a helper of the package called for its effects
                if found:
                    return
            handled, _ = self._vec_call(call)
            if handled:
                return
            try:
                recv = self.ev(call.func.value)
            except Unsupported:
                recv = NotImplemented
            if not isinstance(recv, (Sym, Lin)):
                self._e_Call(call)          # the call is evaluated (or refused as unsupported), never silently skipped
                return
            key = self._alias_key(call.func.value)
            args = tuple(self.ev(a) for a in call.args)
            self.effects.append(Effect(key, "call:" + call.func.attr, args, st))
            return
        self._e_Call(call)


def _dotted(node: ast.AST) -> Optional[str]:
    if isinstance(node, ast.Name):
        return node.id
    if isinstance(node, ast.Attribute):
        b = _dotted(node.value)
        return f"{b}.{node.attr}" if b else None
    return None

"""
Abstract numpy / igraph objects shared by the rules: 3-D cost cube, directed graph with strongly connected components.
"""
from __future__ import annotations

from typing import Dict, List, Tuple

from .abseval import Obj, Vec, Mat, Unsupported


class Cube(Obj):
    """n x n x 3 cost matrix of the abstract state."""

    def __init__(self, data: List[List[List[float]]]):
        super().__init__("Cube")
        self.data = data
        self.n = len(data)
        self.attrs = {"shape": (self.n, self.n, 3)}
        self.as_matrix = False      # True: `cube[:, :, k]` is a Mat (general numpy model); False: flattened Vec
        self.methods = {"flatten": lambda ev, call, a, kw: Vec([x for row in self.data for cell in row for x in cell])}

    def abs_len(self):
        return self.n

    def abs_getitem(self, idx, node):
        if isinstance(idx, tuple) and len(idx) == 3 and isinstance(idx[0], slice) and isinstance(idx[1], slice) \
                and isinstance(idx[2], int) and idx[0] == slice(None) and idx[1] == slice(None):
            if self.as_matrix:
                return Mat([[self.data[i][j][idx[2]] for j in range(self.n)] for i in range(self.n)])
            return Vec([self.data[i][j][idx[2]] for i in range(self.n) for j in range(self.n)])
        if isinstance(idx, int):
            if not 0 <= idx < self.n:
                raise Unsupported("cube row out of range", node)
            return self.data[idx]
        if isinstance(idx, tuple) and all(isinstance(i, int) for i in idx):
            v = self.data
            for i in idx:
                v = v[i]
            return v
        raise Unsupported(f"cube index {idx!r}", node)



class GraphObj(Obj):
    def __init__(self):
        super().__init__("Graph")
        self.vertices: List = []
        self.edges: List[Tuple[int, int]] = []
        self.directed = None
        self.methods = {
            "components": lambda ev, call, a, kw: self.components(),
            "add_vertex": self._add_vertex,
            "add_vertices": self._add_vertices,
            "add_edges": self._add_edges,
            "add_edge": lambda ev, call, a, kw: self.edges.append((a[0], a[1])),
        }

    def _add_vertex(self, ev, call, a, kw):
        self.vertices.append(kw.get("name", a[0] if a else None))

    def _add_vertices(self, ev, call, a, kw):
        if isinstance(a[0], int):
            self.vertices.extend(str(i) for i in range(a[0]))
        else:
            self.vertices.extend(a[0])

    def _add_edges(self, ev, call, a, kw):
        for e in a[0]:
            self.edges.append((e[0], e[1]))



    def components(self) -> List[List[int]]:
        """Strongly connected components in a topological order of the condensation (sources first), each sorted -
        the order the analysed code assumes igraph returns."""
        n = len(self.vertices)
        adj: Dict[int, List[int]] = {i: [] for i in range(n)}
        for a, b in self.edges:
            adj[int(a)].append(int(b))
        index: Dict[int, int] = {}
        low: Dict[int, int] = {}
        on = set()
        stack: List[int] = []
        out: List[List[int]] = []
        counter = [0]

        def strong(v):
            index[v] = low[v] = counter[0]
            counter[0] += 1
            stack.append(v)
            on.add(v)
            for w in adj[v]:
                if w not in index:
                    strong(w)
                    low[v] = min(low[v], low[w])
                elif w in on:
                    low[v] = min(low[v], index[w])
            if low[v] == index[v]:
                comp = []
                while True:
                    w = stack.pop()
                    on.discard(w)
                    comp.append(w)
                    if w == v:
                        break
                out.append(sorted(comp))
        for v in range(n):
            if v not in index:
                strong(v)
        return list(reversed(out))      # Tarjan emits sinks first

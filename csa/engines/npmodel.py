"""
Abstract numpy / igraph objects shared by the rules: 3-D cost cube, directed graph with strongly connected components.
"""
from __future__ import annotations

from typing import Dict, List, Tuple

from .abseval import Obj, Vec, Mat, Unsupported


class Cube(Obj):
    """n x n x 3 cost matrix of the abstract state."""

    def __init__(self, data: List[List[List[float]]]):
        super().__init__("Cube")
        self.data = data
        self.n = len(data)
        self.m = len(data[0]) if data else 0        # second dimension (= n except for ix_ selections)
        self.attrs = {"shape": (self.n, self.m, len(data[0][0]) if data and data[0] else 3)}
        self.as_matrix = False      # True: `cube[:, :, k]` is a Mat (general numpy model); False: flattened Vec
        self.methods = {"flatten": lambda ev, call, a, kw: Vec([x for row in self.data for cell in row for x in cell])}

    def abs_len(self):
        return self.n

    def abs_getitem(self, idx, node):
        if isinstance(idx, tuple) and len(idx) == 3 and isinstance(idx[0], slice) and isinstance(idx[1], slice) \
                and isinstance(idx[2], int) and idx[0] == slice(None) and idx[1] == slice(None):
            if self.as_matrix:
                return Mat([[self.data[i][j][idx[2]] for j in range(self.m)] for i in range(self.n)])
            return Vec([self.data[i][j][idx[2]] for i in range(self.n) for j in range(self.m)])
        if isinstance(idx, tuple) and len(idx) == 3 and isinstance(idx[0], slice) and isinstance(idx[1], slice) \
                and isinstance(idx[2], int) and self.as_matrix:
            m = Mat([[cell[idx[2]] for cell in row[idx[1]]] for row in self.data[idx[0]]])
            m.frozen = True
            return m
        if isinstance(idx, tuple) and len(idx) in (2, 3) and isinstance(idx[0], Vec) and isinstance(idx[1], Vec) \
                and len(idx[0].vals) == len(idx[1].vals):
            # integer-array ("fancy") indexing: one item per (i, j) pair
            out = []
            for i, j in zip(idx[0].vals, idx[1].vals):
                if not (isinstance(i, int) and isinstance(j, int) and 0 <= i < self.n and 0 <= j < self.m):
                    raise Unsupported(f"cube index {idx!r}", node)
                out.append(self.data[i][j][idx[2]] if len(idx) == 3 and isinstance(idx[2], int) else list(self.data[i][j]))
            return Vec(out) if len(idx) == 3 else Mat(out)
        if isinstance(idx, tuple) and len(idx) == 3 and idx[0] == "ix_":
            rows, cols = idx[1], idx[2]
            for i in rows:
                if not 0 <= i < self.n:
                    raise Unsupported("ix_ row out of range", node)
            for j in cols:
                if not 0 <= j < self.m:
                    raise Unsupported("ix_ column out of range", node)
            c = Cube([[list(self.data[i][j]) for j in cols] for i in rows])
            c.as_matrix = True
            return c
        mask = idx[0] if isinstance(idx, tuple) and idx and isinstance(idx[0], Mat) and type(idx[0]) is Mat else \
            (idx if isinstance(idx, Mat) and type(idx) is Mat else None)
        if mask is not None and (not isinstance(idx, tuple) or len(idx) in (1, 2)):
            # boolean n x m mask: the selected cells in row-major order (a copy); with a slot, that slot of each
            cells = self._mask_cells(mask, node)
            if isinstance(idx, tuple) and len(idx) == 2:
                k = idx[1]
                if not (isinstance(k, int) and not isinstance(k, bool) and -3 <= k < 3):
                    raise Unsupported(f"cube index {idx!r}", node)
                return Vec([self.data[i][j][k] for i, j in cells])
            return Mat([list(self.data[i][j]) for i, j in cells])
        if isinstance(idx, int) and not isinstance(idx, bool):
            if not 0 <= idx < self.n:
                raise Unsupported("cube row out of range", node)
            return Mat(self.data[idx])          # a view: the cell lists are shared, writes go through
        if isinstance(idx, tuple) and all(isinstance(i, int) and not isinstance(i, bool) for i in idx):
            v = self.data
            for i in idx:
                if not 0 <= i < len(v):
                    raise Unsupported("cube index out of range", node)
                v = v[i]
            return Vec.view(v) if isinstance(v, list) else v
        raise Unsupported(f"cube index {idx!r}", node)



    def _mask_cells(self, mask, node):
        from .abseval import AbsRaise
        if len(mask.rows) != self.n or any(len(r) != self.m for r in mask.rows):
            raise AbsRaise("IndexError", node)      # boolean index did not match the indexed array
        if not all(x is True or x is False for r in mask.rows for x in r):
            raise Unsupported("cube indexed by a non-boolean matrix", node)
        return [(i, j) for i, r in enumerate(mask.rows) for j, x in enumerate(r) if x]

    def abs_setitem(self, idx, op, value, ev, stmt):
        """cube[:, :, k] op= matrix | scalar ; cube[i, j, k] op= scalar ; cube[mask, k] op= values"""
        from .abseval import _arith, AUG_BINOP, AbsRaise, IndexOut

        def put(i, j, k, v):
            self.data[i][j][k] = v if op == "=" else _arith(AUG_BINOP[op], self.data[i][j][k], v, stmt)
        if isinstance(idx, tuple) and len(idx) == 3 and idx[0] == slice(None) and idx[1] == slice(None) \
                and isinstance(idx[2], int) and not isinstance(idx[2], bool) and -3 <= idx[2] < 3:
            k = idx[2]
            if isinstance(value, Mat) and type(value) is Mat:
                rows = value.rows
                if len(rows) == 1 and self.n != 1:
                    rows = rows * self.n
                if len(rows) != self.n or any(len(r) not in (self.m, 1) for r in rows):
                    raise AbsRaise("ValueError", stmt)      # could not broadcast
                news = [[(rows[i][j] if len(rows[i]) == self.m else rows[i][0]) for j in range(self.m)] for i in range(self.n)]
            elif isinstance(value, (Vec, list)):
                vals = value.vals if isinstance(value, Vec) else value
                if len(vals) != self.m:
                    raise AbsRaise("ValueError", stmt)
                news = [list(vals) for _ in range(self.n)]
            else:
                news = [[value] * self.m for _ in range(self.n)]
            for i in range(self.n):
                for j in range(self.m):
                    put(i, j, k, news[i][j])
            return
        if isinstance(idx, tuple) and len(idx) == 3 and all(isinstance(x, int) and not isinstance(x, bool) for x in idx):
            i, j, k = idx
            if not (0 <= i < self.n and 0 <= j < self.m and -3 <= k < 3):
                raise IndexOut(idx, self.n, stmt)
            put(i, j, k, value)
            return
        if isinstance(idx, tuple) and len(idx) == 2 and isinstance(idx[0], Mat) and type(idx[0]) is Mat \
                and isinstance(idx[1], int) and not isinstance(idx[1], bool):
            cells = self._mask_cells(idx[0], stmt)
            vals = value.vals if isinstance(value, Vec) else (list(value) if isinstance(value, (list, tuple)) else [value] * len(cells))
            if len(vals) != len(cells):
                raise AbsRaise("ValueError", stmt)
            news = [v if op == "=" else _arith(AUG_BINOP[op], self.data[i][j][idx[1]], v, stmt) for (i, j), v in zip(cells, vals)]
            for (i, j), v in zip(cells, news):
                self.data[i][j][idx[1]] = v
            return
        if isinstance(idx, tuple) and len(idx) in (2, 3) and all(isinstance(x, (Vec, list)) for x in idx[:2]):
            # integer-array pairs (i, j): the whole cell (or one slot of it) of each pair
            ri = idx[0].vals if isinstance(idx[0], Vec) else idx[0]
            ci = idx[1].vals if isinstance(idx[1], Vec) else idx[1]
            if len(ri) != len(ci):
                raise AbsRaise("IndexError", stmt)
            for i, j in zip(ri, ci):
                if not (isinstance(i, int) and isinstance(j, int) and 0 <= i < self.n and 0 <= j < self.m):
                    raise IndexOut((i, j), self.n, stmt)
            slots = [idx[2]] if len(idx) == 3 else [0, 1, 2]
            if not all(isinstance(k, int) and not isinstance(k, bool) and -3 <= k < 3 for k in slots):
                raise Unsupported(f"store into a cube with index {idx!r}", stmt)
            if isinstance(value, (Vec, Mat, list)):
                raise Unsupported("array stored through integer-array pairs of a cube", stmt)
            news = [[value if op == "=" else _arith(AUG_BINOP[op], self.data[i][j][k], value, stmt) for k in slots]
                    for i, j in zip(ri, ci)]
            for (i, j), vs in zip(zip(ri, ci), news):
                for k, v in zip(slots, vs):
                    self.data[i][j][k] = v
            return
        raise Unsupported(f"store into a cube with index {idx!r}", stmt)


class GraphObj(Obj):
    def __init__(self):
        super().__init__("Graph")
        self.vertices: List = []
        self.edges: List[Tuple[int, int]] = []
        self.directed = None
        self.methods = {
            "components": lambda ev, call, a, kw: self.components(),
            "connected_components": lambda ev, call, a, kw: self.components(),
            "clusters": lambda ev, call, a, kw: self.components(),
            "topological_sorting": lambda ev, call, a, kw: self.topological_sorting(kw.get("mode", a[0] if a else "out")),
            "vcount": lambda ev, call, a, kw: len(self.vertices),
            "ecount": lambda ev, call, a, kw: len(self.edges),
            "get_edgelist": lambda ev, call, a, kw: [tuple(e) for e in self.edges],
            "add_vertex": self._add_vertex,
            "add_vertices": self._add_vertices,
            "add_edges": self._add_edges,
            "add_edge": lambda ev, call, a, kw: self.edges.append((a[0], a[1])),
        }

    def _add_vertex(self, ev, call, a, kw):
        self.vertices.append(kw.get("name", a[0] if a else None))

    def _add_vertices(self, ev, call, a, kw):
        if isinstance(a[0], int):
            self.vertices.extend(str(i) for i in range(a[0]))
        else:
            self.vertices.extend(a[0])

    def _add_edges(self, ev, call, a, kw):
        for e in a[0]:
            self.edges.append((e[0], e[1]))



    def _adj(self):
        n = len(self.vertices)
        adj: Dict[int, List[int]] = {i: [] for i in range(n)}
        for a, b in self.edges:
            adj[int(a)].append(int(b))
        for v in adj:
            adj[v].sort()
        return n, adj

    def components(self, mode="strong") -> "Clustering":
        """Strongly connected components numbered as igraph numbers them: depth-first search over out-neighbours
        (vertices and neighbours by increasing id) to get the finishing order, then a sweep over in-neighbours from the
        last finished vertex - source components first, i.e. a topological order of the condensation, with igraph's
        own choice among the incomparable components. Each component lists its vertices by increasing id."""
        n, adj = self._adj()
        radj: Dict[int, List[int]] = {i: [] for i in range(n)}
        for v, ws in adj.items():
            for w in ws:
                radj[w].append(v)
        nxt = [0] * n
        out: List[int] = []
        for i in range(n):
            if nxt[i] > len(adj[i]):
                continue
            if nxt[i] != 0:
                continue
            stack = [i]
            while stack:
                act = stack[-1]
                if nxt[act] == 0:
                    nxt[act] = 1
                if nxt[act] <= len(adj[act]):
                    nb = adj[act][nxt[act] - 1]
                    if nxt[nb] == 0:
                        stack.append(nb)
                    nxt[act] += 1
                else:
                    out.append(act)
                    stack.pop()
        member = [-1] * n
        clusters: List[List[int]] = []
        while out:
            g = out.pop()
            if member[g] != -1:
                continue
            member[g] = len(clusters)
            comp = [g]
            q = [g]
            while q:
                act = q.pop()
                for nb in radj[act]:
                    if member[nb] == -1:
                        member[nb] = len(clusters)
                        comp.append(nb)
                        q.append(nb)
            clusters.append(sorted(comp))
        return Clustering(self, clusters, member)

    def topological_sorting(self, mode="out") -> List[int]:
        """igraph's: sources queued by increasing id, first in first out, successors released in increasing id."""
        n, adj = self._adj()
        if mode == "in":
            radj: Dict[int, List[int]] = {i: [] for i in range(n)}
            for v, ws in adj.items():
                for w in ws:
                    radj[w].append(v)
            adj = {v: sorted(ws) for v, ws in radj.items()}
        indeg = [0] * n
        for v, ws in adj.items():
            for w in ws:
                indeg[w] += 1
        queue = [i for i in range(n) if indeg[i] == 0]
        res = []
        while queue:
            v = queue.pop(0)
            res.append(v)
            for w in adj[v]:
                indeg[w] -= 1
                if indeg[w] == 0:
                    queue.append(w)
        return res


class Clustering(Obj):
    """igraph.VertexClustering stand-in: iterable / indexable list of components plus the few methods used on it."""

    def __init__(self, graph: "GraphObj", clusters: List[List[int]], membership: List[int]):
        super().__init__("VertexClustering")
        self.graph = graph
        self.clusters = clusters
        self.member = membership
        self.methods = {
            "cluster_graph": lambda ev, call, a, kw: self.cluster_graph(),
            "sizes": lambda ev, call, a, kw: [len(c) for c in self.clusters],
            "giant": lambda ev, call, a, kw: max(self.clusters, key=len),
        }
        self.attrs = {"membership": list(membership), "graph": graph}

    def abs_iter(self):
        return [list(c) for c in self.clusters]

    def abs_len(self):
        return len(self.clusters)

    def abs_getitem(self, idx, node):
        if isinstance(idx, int) and not isinstance(idx, bool) and -len(self.clusters) <= idx < len(self.clusters):
            return list(self.clusters[idx])
        if isinstance(idx, slice):
            return [list(c) for c in self.clusters[idx]]
        raise Unsupported(f"clustering index {idx!r}", node)

    def cluster_graph(self) -> "GraphObj":
        g = GraphObj()
        g.directed = self.graph.directed
        g.vertices = [str(i) for i in range(len(self.clusters))]
        seen = set()
        for a, b in self.graph.edges:
            e = (self.member[int(a)], self.member[int(b)])
            if e[0] != e[1] and e not in seen:
                seen.add(e)
                g.edges.append(e)
        g.edges.sort()
        return g

"""
Engine B - effects / aliasing / freshness (serves C15).

A flow-insensitive, field-sensitive (one level) may-alias analysis with interprocedural summaries computed to a
fix-point over the resolved call graph.

For every function f and parameter p it computes
    mut[f]     : set of (p, field) such that f (or a callee) may mutate an object reachable from p through `field`
                 (field '' = p itself or an unknown path),
    ret_self[f], ret_inner[f] : which (p, field) the returned object itself / the objects reachable from it may alias.

Every expression e gets two root sets: self_roots(e) - parameters the object e may *be* (a part of), and
inner_roots(e) - parameters whose reachable state contains what is reachable from e (its elements, attributes).
A fresh container holding aliased elements (list(x), a comprehension over x, set arithmetic) has empty self_roots and
inner_roots = roots of x; copy.deepcopy, numpy constructors, arithmetic, str / int / len ... are fully fresh.

Mutation sinks: subscript / attribute stores, augmented assignments and `del` on a receiver, the mutator methods of
the builtin containers and numpy's in-place operations, random.shuffle, and passing a value to a callee parameter whose
summary says it is mutated.
"""
from __future__ import annotations

import ast
from typing import Dict, List, Optional, Set, Tuple

from ..loader import Project, FuncInfo, dotted, src
from ..callgraph import CallGraph

Root = Tuple[str, str]

MUTATORS = {"append", "extend", "insert", "pop", "remove", "clear", "add", "discard", "update", "sort", "reverse",
            "setdefault", "popitem", "difference_update", "intersection_update", "symmetric_difference_update",
            "fill", "resize", "put", "itemset", "partition", "byteswap", "__setitem__", "__delitem__"}
FRESH_BUILTINS = {"len", "int", "float", "str", "repr", "bool", "sum", "min", "max", "abs", "round", "range", "hash",
                  "isinstance", "any", "all", "print", "type", "id", "format", "divmod", "pow", "ord", "chr"}
SHALLOW_BUILTINS = {"list", "set", "tuple", "frozenset", "sorted", "dict", "reversed", "enumerate", "zip", "iter",
                    "filter", "map", "Counter"}
DEEP_FRESH_CALLS = {"copy.deepcopy", "deepcopy"}
NUMPY_FRESH = {"zeros", "ones", "full", "arange", "empty", "vstack", "hstack", "concatenate", "cumsum", "sort",
               "argsort", "where", "column_stack", "logical_and", "logical_or", "count_nonzero", "vdot", "dot", "amin",
               "amax", "max", "min", "sum", "array", "asarray", "shape", "unique", "transpose", "flatten", "copy",
               "tolist", "reshape", "astype", "mean"}
INPLACE_EXTERNALS = {"random.shuffle", "shuffle", "numpy.random.shuffle"}
STR_METHODS = {"strip", "split", "replace", "join", "find", "rfind", "startswith", "endswith", "isdigit", "lower",
               "upper", "format", "lstrip", "rstrip", "splitlines", "count", "index", "encode"}


class Summary:
    def __init__(self):
        self.mut: Set[Root] = set()
        self.ret_self: Set[Root] = set()
        self.ret_inner: Set[Root] = set()
        self.sites: Dict[Root, Tuple[int, str]] = {}     # first witness (line, what) per mutated root

    def key(self):
        return (frozenset(self.mut), frozenset(self.ret_self), frozenset(self.ret_inner))


class Effects:
    def __init__(self, proj: Project, cg: CallGraph):
        self.proj = proj
        self.cg = cg
        self.summ: Dict[str, Summary] = {f.qualname: Summary() for f in proj.all_functions()}
        self.funcs: Dict[str, FuncInfo] = {f.qualname: f for f in proj.all_functions()}
        self._solve()

    # ------------------------------------------------------------------
    def _solve(self):
        for _round in range(30):
            changed = False
            for f in self.funcs.values():
                before = self.summ[f.qualname].key()
                self._analyse(f)
                if self.summ[f.qualname].key() != before:
                    changed = True
            if not changed:
                return
        raise RuntimeError("effects analysis did not reach a fix-point")

    # ------------------------------------------------------------------
    def _analyse(self, f: FuncInfo):
        s = self.summ[f.qualname]
        env = self.cg.env(f)
        params = [a.arg for a in list(f.node.args.posonlyargs) + list(f.node.args.args) + list(f.node.args.kwonlyargs)]
        var_self: Dict[str, Set[Root]] = {p: {(p, "")} for p in params}
        var_inner: Dict[str, Set[Root]] = {p: {(p, "")} for p in params}
        site_of = {id(cs.node): cs for cs in self.cg.sites.get(f.qualname, [])}

        def with_field(roots: Set[Root], field: str) -> Set[Root]:
            return {(p, fld if fld else field) for p, fld in roots}

        def fresh_container(x: ast.AST) -> bool:
            if isinstance(x, (ast.List, ast.Set, ast.Dict, ast.ListComp, ast.SetComp, ast.DictComp)):
                return True
            return isinstance(x, ast.Call) and isinstance(x.func, ast.Name) and x.func.id in ("list", "set", "dict", "sorted")

        # local names bound (only) to displays / comprehensions whose values are all containers created on the spot,
        # and never given an aliased container through a subscript store
        nested_fresh: Set[str] = set()
        spoiled: Set[str] = set()
        for n_ in ast.walk(f.node):
            tgt = val = None
            if isinstance(n_, ast.Assign) and len(n_.targets) == 1:
                tgt, val = n_.targets[0], n_.value
            elif isinstance(n_, ast.AnnAssign) and n_.value is not None:
                tgt, val = n_.target, n_.value
            if isinstance(tgt, ast.Name):
                vals = None
                if isinstance(val, ast.Dict):
                    vals = list(val.values)
                elif isinstance(val, (ast.List, ast.Tuple)):
                    vals = list(val.elts)
                elif isinstance(val, ast.DictComp):
                    vals = [val.value]
                elif isinstance(val, ast.ListComp):
                    vals = [val.elt]
                if vals and all(v is not None and fresh_container(v) for v in vals):
                    nested_fresh.add(tgt.id)
                else:
                    spoiled.add(tgt.id)
            if isinstance(tgt, ast.Subscript) and isinstance(tgt.value, ast.Name) and not fresh_container(val):
                spoiled.add(tgt.value.id)
        for n_ in ast.walk(f.node):
            # the nested container escapes as an argument: the callee could store anything into it
            if isinstance(n_, ast.Call):
                for a_ in list(n_.args) + [k.value for k in n_.keywords]:
                    if isinstance(a_, ast.Name):
                        spoiled.add(a_.id)
        nested_fresh -= spoiled
        nested_fresh -= set(params)

        def roots(e: ast.AST) -> Tuple[Set[Root], Set[Root]]:
            """(self_roots, inner_roots)"""
            if isinstance(e, ast.Name):
                return set(var_self.get(e.id, ())), set(var_inner.get(e.id, ()))
            if isinstance(e, (ast.Constant, ast.JoinedStr, ast.Compare, ast.Lambda)):
                return set(), set()
            if isinstance(e, ast.Attribute):
                bs, bi = roots(e.value)
                t = env.type_of(e.value)
                if t.cls is not None and t.name != "type":
                    m = self.proj.lookup_method(t.cls, e.attr)
                    if m is not None and m.kind == "property":
                        ps = self.summ[m.qualname]
                        me = m.param_names[0] if m.param_names else "self"
                        out_s, out_i = set(), set()
                        for (p, fld) in ps.ret_self:
                            if p == me:
                                out_s |= with_field(bi | bs, fld)
                        for (p, fld) in ps.ret_inner:
                            if p == me:
                                out_i |= with_field(bi | bs, fld)
                        return out_s, out_i
                    if m is not None:
                        return set(), set()      # bound method object
                r = with_field(bs | bi, Project.unmangle(e.attr))
                return r, set(r)
            if isinstance(e, ast.Subscript):
                bs, bi = roots(e.value)
                if isinstance(e.value, ast.Name) and e.value.id in nested_fresh and not isinstance(e.slice, ast.Slice):
                    # a container whose values are containers created here (groups = {-1: [], 0: [pivot], 1: []}):
                    # what the subscript yields is one of those fresh containers; only its *elements* may alias inputs
                    return set(), set(bi)
                if isinstance(e.slice, ast.Slice):
                    return set(), set(bi)        # a slice of a list is a shallow copy (numpy views: see sinks)
                return set(bi), set(bi)
            if isinstance(e, ast.Starred):
                return roots(e.value)
            if isinstance(e, (ast.List, ast.Tuple, ast.Set)):
                inner: Set[Root] = set()
                for x in e.elts:
                    xs, xi = roots(x)
                    inner |= xs | xi
                return set(), inner
            if isinstance(e, ast.Dict):
                inner = set()
                for x in list(e.keys) + list(e.values):
                    if x is not None:
                        xs, xi = roots(x)
                        inner |= xs | xi
                return set(), inner
            if isinstance(e, (ast.ListComp, ast.SetComp, ast.GeneratorExp, ast.DictComp)):
                inner = set()
                elts = [e.key, e.value] if isinstance(e, ast.DictComp) else [e.elt]
                for x in elts:
                    xs, xi = roots(x)
                    inner |= xs | xi
                return set(), inner
            if isinstance(e, ast.IfExp):
                a, b = roots(e.body), roots(e.orelse)
                return a[0] | b[0], a[1] | b[1]
            if isinstance(e, ast.BoolOp):
                out_s, out_i = set(), set()
                for v in e.values:
                    a = roots(v)
                    out_s |= a[0]
                    out_i |= a[1]
                return out_s, out_i
            if isinstance(e, ast.BinOp):
                ta, tb = env.type_of(e.left), env.type_of(e.right)
                if ta.is_set or tb.is_set or ta.is_list or tb.is_list:
                    a, b = roots(e.left), roots(e.right)
                    return set(), a[1] | b[1]
                return set(), set()
            if isinstance(e, ast.UnaryOp):
                return set(), set()
            if isinstance(e, ast.NamedExpr):
                return roots(e.value)
            if isinstance(e, ast.Call):
                return call_roots(e)
            return set(), set()

        def arg_map(call: ast.Call, callee: FuncInfo, implicit_receiver: Optional[ast.AST]):
            """callee parameter name -> argument expression"""
            names = callee.param_names
            out: Dict[str, ast.AST] = {}
            pos = list(call.args)
            k = 0
            if implicit_receiver is not None and names:
                out[names[0]] = implicit_receiver
                k = 1
            for a in pos:
                if isinstance(a, ast.Starred):
                    continue
                if k < len(names):
                    out[names[k]] = a
                k += 1
            for kw in call.keywords:
                if kw.arg:
                    out[kw.arg] = kw.value
            return out

        def call_roots(call: ast.Call) -> Tuple[Set[Root], Set[Root]]:
            name = dotted(call.func) or ""
            last = name.split(".")[-1]
            cs = site_of.get(id(call))
            if name in DEEP_FRESH_CALLS:
                return set(), set()
            if isinstance(call.func, ast.Name) and call.func.id in FRESH_BUILTINS:
                return set(), set()
            if isinstance(call.func, ast.Name) and call.func.id in SHALLOW_BUILTINS:
                inner = set()
                for a in call.args:
                    xs, xi = roots(a)
                    inner |= xi
                return set(), inner
            if cs is not None and cs.kind in ("internal", "constructor") and cs.callees:
                out_s, out_i = set(), set()
                for callee in cs.callees:
                    recv = None
                    if cs.kind == "constructor":
                        # new object: not an alias itself; its state may alias every argument
                        for a in list(call.args) + [k.value for k in call.keywords]:
                            xs, xi = roots(a)
                            out_i |= xs | xi
                        continue
                    if cs.via_instance and isinstance(call.func, ast.Attribute) and callee.kind != "staticmethod":
                        recv = call.func.value
                    am = arg_map(call, callee, recv)
                    cs_ = self.summ[callee.qualname]
                    for (p, fld) in cs_.ret_self:
                        if p in am:
                            xs, xi = roots(am[p])
                            out_s |= with_field(xs | xi, fld)
                    for (p, fld) in cs_.ret_inner:
                        if p in am:
                            xs, xi = roots(am[p])
                            out_i |= with_field(xs | xi, fld)
                return out_s, out_i | out_s
            if cs is not None and cs.kind == "external":
                ext = cs.external or ""
                if ext.startswith("numpy.") or ext.split(".")[-1] in NUMPY_FRESH:
                    return set(), set()
                if ext in ("itertools.combinations", "itertools.groupby", "collections.Counter"):
                    inner = set()
                    for a in call.args:
                        inner |= roots(a)[1]
                    return set(), inner
                if ext.startswith("random.choice"):
                    a = roots(call.args[0]) if call.args else (set(), set())
                    return set(a[1]), set(a[1])
                return set(), set()
            if isinstance(call.func, ast.Attribute):
                bs, bi = roots(call.func.value)
                attr = call.func.attr
                if attr in STR_METHODS or attr in NUMPY_FRESH:
                    return set(), set()
                if attr in ("get", "pop", "setdefault", "__getitem__"):
                    return set(bi), set(bi)
                if attr in ("items", "values", "keys", "copy", "intersection", "union", "difference",
                            "symmetric_difference"):
                    inner = set(bi)
                    for a in call.args:
                        inner |= roots(a)[1]
                    return set(), inner
                # unknown method on an aliased receiver: result may alias it
                return set(bs | bi), set(bs | bi)
            return set(), set()

        def record(rts: Set[Root], node: ast.AST, what: str):
            for r in rts:
                if r not in s.mut:
                    s.mut.add(r)
                    s.sites[r] = (getattr(node, "lineno", 0), what)

        # ---- bindings to a fix-point (flow-insensitive)
        def bind(target: ast.AST, rs: Set[Root], ri: Set[Root]) -> bool:
            ch = False
            if isinstance(target, ast.Name):
                a, b = var_self.setdefault(target.id, set()), var_inner.setdefault(target.id, set())
                if not rs <= a:
                    a |= rs
                    ch = True
                if not ri <= b:
                    b |= ri
                    ch = True
            elif isinstance(target, (ast.Tuple, ast.List)):
                for el in target.elts:
                    ch |= bind(el, set(ri), set(ri))
            elif isinstance(target, ast.Starred):
                ch |= bind(target.value, set(), set(ri))
            return ch

        for _ in range(12):
            ch = False
            for n in ast.walk(f.node):
                if isinstance(n, ast.Assign):
                    rs, ri = roots(n.value)
                    for t in n.targets:
                        ch |= bind(t, rs, ri)
                elif isinstance(n, ast.AnnAssign) and n.value is not None:
                    rs, ri = roots(n.value)
                    ch |= bind(n.target, rs, ri)
                elif isinstance(n, (ast.For, ast.comprehension)):
                    it = n.iter
                    fname = dotted(it.func) if isinstance(it, ast.Call) else None
                    if fname == "zip" and isinstance(n.target, (ast.Tuple, ast.List)) and not it.keywords \
                            and len(n.target.elts) == len(it.args) \
                            and not any(isinstance(a, ast.Starred) for a in it.args) \
                            and not any(isinstance(e, ast.Starred) for e in n.target.elts):
                        # for a, b in zip(xs, ys): a ranges over the items of xs, b over those of ys (not over both)
                        for tgt, arg in zip(n.target.elts, it.args):
                            _rs, ri = roots(arg)
                            ch |= bind(tgt, set(ri), set(ri))
                    elif fname == "enumerate" and isinstance(n.target, (ast.Tuple, ast.List)) and len(n.target.elts) == 2 \
                            and it.args and not isinstance(it.args[0], ast.Starred):
                        _rs, ri = roots(it.args[0])             # the counter is a fresh integer
                        ch |= bind(n.target.elts[1], set(ri), set(ri))
                    else:
                        rs, ri = roots(n.iter)
                        ch |= bind(n.target, set(ri), set(ri))
                elif isinstance(n, ast.withitem) and n.optional_vars is not None:
                    rs, ri = roots(n.context_expr)
                    ch |= bind(n.optional_vars, rs, ri)
                elif isinstance(n, ast.NamedExpr):
                    rs, ri = roots(n.value)
                    ch |= bind(n.target, rs, ri)
            if not ch:
                break

        # ---- sinks
        is_ctor = f.name == "__init__"
        for n in ast.walk(f.node):
            if isinstance(n, (ast.Assign, ast.AnnAssign, ast.AugAssign, ast.Delete)):
                targets = n.targets if isinstance(n, (ast.Assign, ast.Delete)) else [n.target]
                for t in targets:
                    for tt in (t.elts if isinstance(t, (ast.Tuple, ast.List)) else [t]):
                        if isinstance(tt, ast.Subscript):
                            rs, ri = roots(tt.value)
                            # a slice target / numpy view writes through to the base
                            record(rs, n, f"store into `{src(tt)[:50]}`")
                        elif isinstance(tt, ast.Attribute):
                            rs, ri = roots(tt.value)
                            record(with_field(rs, Project.unmangle(tt.attr)), n, f"attribute store `{src(tt)[:50]}`")
                        elif isinstance(n, ast.AugAssign) and isinstance(tt, ast.Name):
                            # x += ... mutates in place for lists / sets / arrays
                            t_ = env.type_of(tt)
                            if t_.is_list or t_.is_set or t_.name == "ndarray" or t_.is_dict:
                                record(set(var_self.get(tt.id, ())), n, f"in-place `{src(n)[:50]}`")
            elif isinstance(n, ast.Call):
                cs = site_of.get(id(n))
                name = dotted(n.func) or ""
                if isinstance(n.func, ast.Attribute) and n.func.attr in MUTATORS:
                    t_ = env.type_of(n.func.value)
                    if t_.name not in ("str",) and not (cs is not None and cs.kind == "internal"):
                        rs, ri = roots(n.func.value)
                        record(rs, n, f"`{src(n)[:60]}`")
                if (cs is not None and cs.kind == "external" and (cs.external in INPLACE_EXTERNALS)) or name in INPLACE_EXTERNALS:
                    if n.args:
                        rs, ri = roots(n.args[0])
                        record(rs, n, f"in-place `{src(n)[:60]}`")
                if cs is not None and cs.kind in ("internal", "constructor") and cs.callees:
                    for callee in cs.callees:
                        recv = None
                        if cs.kind == "constructor":
                            am = arg_map(n, callee, ast.Name(id="<new>", ctx=ast.Load()))
                        else:
                            if cs.via_instance and isinstance(n.func, ast.Attribute) and callee.kind != "staticmethod":
                                recv = n.func.value
                            am = arg_map(n, callee, recv)
                        for (p, fld) in list(self.summ[callee.qualname].mut):
                            if p in am and not (isinstance(am[p], ast.Name) and am[p].id == "<new>"):
                                xs, xi = roots(am[p])
                                record(with_field(xs | xi, fld) if fld else (xs | xi), n,
                                       f"call `{src(n.func)[:40]}` mutates its `{p}`" + (f".{fld}" if fld else ""))
            elif isinstance(n, ast.Attribute) and isinstance(n.ctx, ast.Load):
                # property reads whose getter mutates its receiver
                t = env.type_of(n.value)
                if t.cls is not None and t.name != "type":
                    m = self.proj.lookup_method(t.cls, n.attr)
                    if m is not None and m.kind == "property":
                        me = m.param_names[0] if m.param_names else "self"
                        for (p, fld) in list(self.summ[m.qualname].mut):
                            if p == me:
                                xs, xi = roots(n.value)
                                record(with_field(xs | xi, fld) if fld else (xs | xi), n,
                                       f"property `{n.attr}` mutates its receiver" + (f".{fld}" if fld else ""))
        # constructors legitimately initialise their own object
        if is_ctor and f.param_names:
            me = f.param_names[0]
            s.mut = {r for r in s.mut if r[0] != me}
        # ---- returns
        for n in ast.walk(f.node):
            if isinstance(n, ast.Return) and n.value is not None:
                rs, ri = roots(n.value)
                s.ret_self |= {r for r in rs if r[0] in params}
                s.ret_inner |= {r for r in ri if r[0] in params}
        s.mut = {r for r in s.mut if r[0] in params}

    # ------------------------------------------------------------------
    def witness(self, f: FuncInfo, root: Root) -> str:
        s = self.summ[f.qualname]
        line, what = s.sites.get(root, (0, "?"))
        return f"{f.module.relpath}:{line} {what}"

"""
Abstract instances of the package's own classes: the analyser evaluates the *real* method bodies (through the
abstract evaluator) on model objects, so container semantics (hash / equality of Element inside sets and dicts,
iteration and indexing of Ranking / Dataset) are those of the code under analysis, not of a hand-written model.

Runtime.lookup_name resolves names the way the module would (imports, classes, functions, a few builtins).
"""
from __future__ import annotations

import ast
from typing import Any, Dict, List, Optional, Tuple

from ..loader import Project, ClassInfo, FuncInfo, Module
from .abseval import Evaluator, Obj, Unsupported, AbsRaise, Sym, LoopBound

BUILTIN_TYPES = {"int": int, "str": str, "float": float, "list": list, "dict": dict, "set": set, "tuple": tuple,
                 "bool": bool, "frozenset": frozenset}
NOT_IMPLEMENTED = Sym("NotImplemented")


class BoundFunc:
    def __init__(self, rt: "Runtime", func: FuncInfo, receiver: Any = None):
        self.rt = rt
        self.func = func
        self.receiver = receiver

    def abs_call(self, args, kw, ev, node):
        full = list(args)
        if self.receiver is not None:
            full = [self.receiver] + full
        return self.rt.invoke(self.func, full, kw, ev)

    def __repr__(self):
        return f"<bound {self.func.short}>"


class ClassRef(Obj):
    def __init__(self, rt: "Runtime", cls: ClassInfo):
        super().__init__("class " + cls.name)
        self.rt = rt
        self.cls = cls

    def abs_call(self, args, kw, ev, node):
        return self.rt.new(self.cls, args, kw, ev)

    def abs_getattr(self, name, ev, node):
        m = self.rt.proj.lookup_method(self.cls, name)
        if m is not None:
            if m.kind == "classmethod":
                return BoundFunc(self.rt, m, self)
            return BoundFunc(self.rt, m, None)
        v = self.rt.proj.lookup_class_attr(self.cls, name)
        if v is not None:
            if any(b.split(".")[-1] in ("Enum", "IntEnum") for c in self.rt.proj.mro(self.cls) for b in c.external_bases):
                return self.rt.enum_member(self.cls, name, ev.ev(v))
            return ev.ev(v)
        raise Unsupported(f"class attribute {self.cls.name}.{name}", node)

    def abs_callmethod(self, name, args, kw, ev, node):
        f = self.abs_getattr(name, ev, node)
        return f.abs_call(args, kw, ev, node)

    def __eq__(self, other):
        return isinstance(other, ClassRef) and other.cls is self.cls

    def __hash__(self):
        return hash(self.cls.qualname)


class EnumMember(Obj):
    def __init__(self, cls: ClassInfo, name: str, value):
        super().__init__(f"{cls.name}.{name}")
        self.cls = cls
        self.member = name
        self.attrs = {"name": name, "value": value}

    def __eq__(self, other):
        return isinstance(other, EnumMember) and other.cls is self.cls and other.member == self.member

    def __hash__(self):
        return hash((self.cls.qualname, self.member))

    def __repr__(self):
        return f"{self.cls.name}.{self.member}"

    def abs_str(self):
        return f"{self.cls.name}.{self.member}"


def _dotted_name(n):
    if isinstance(n, ast.Name):
        return n.id
    if isinstance(n, ast.Attribute):
        b = _dotted_name(n.value)
        return f"{b}.{n.attr}" if b else None
    return None


# bases / decorators whose effect on attribute lookup, construction and comparison the Instance model implements
MODELLED_BASES = {"object", "ABC", "Enum", "IntEnum", "NamedTuple", "Generic", "Protocol"}
MODELLED_CLASS_DECORATORS = {"dataclass", "total_ordering", "unique"}


class Instance(Obj):
    def __init__(self, rt: "Runtime", cls: ClassInfo):
        super().__init__(cls.name)
        self.rt = rt
        self.cls = cls
        self.attrs = {}
        self.frozen_log: List[Tuple[str, Any]] = []
        self.record = None          # ("namedtuple" | "dataclass", field names)

    def _fully_modelled(self) -> bool:
        for c in self.rt.proj.mro(self.cls):
            for b in c.external_bases:
                last = b.split(".")[-1].split("[")[0]
                if last not in MODELLED_BASES and not (last.endswith("Exception") or last.endswith("Error")):
                    return False
            for d in getattr(c, "decorators", []):
                if d.split(".")[-1] not in MODELLED_CLASS_DECORATORS:
                    return False
            if "__getattr__" in c.methods or "__getattribute__" in c.methods or "__slots__" in c.class_attrs:
                return False
        return True

    # ---- attribute protocol ----------------------------------------------------------------------------
    def abs_getattr(self, name, ev, node):
        name = Project.unmangle(name)
        if name in self.attrs:
            return self.attrs[name]
        if name == "__class__":
            return ClassRef(self.rt, self.cls)
        if name == "__dict__":
            return dict(self.attrs)
        m = self.rt.proj.lookup_method(self.cls, name)
        if m is not None:
            if m.kind == "property":
                return self.rt.invoke(m, [self], {}, ev)
            if m.kind == "staticmethod":
                return BoundFunc(self.rt, m, None)
            if m.kind == "classmethod":
                return BoundFunc(self.rt, m, ClassRef(self.rt, self.cls))
            return BoundFunc(self.rt, m, self)
        v = self.rt.proj.lookup_class_attr(self.cls, name)
        if v is not None:
            return ev.ev(v)
        if self.record is not None:
            kind, fields = self.record
            if name == "_fields":
                return tuple(fields)
            if name == "_asdict" or name == "_replace":
                me = self

                def rec_method(args, kw, ev_, node_, name=name):
                    if name == "_asdict":
                        return {f: me.attrs[f] for f in fields}
                    new = Instance(me.rt, me.cls)
                    new.attrs = dict(me.attrs)
                    new.attrs.update(kw)
                    new.record = me.record
                    return new
                return ExternalFunc(rec_method)
        if not self._fully_modelled():
            raise Unsupported(f"attribute {name} of an instance of {self.cls.name} (its bases / decorators are not "
                              f"modelled, so a missing attribute cannot be concluded)", node)
        raise AbsRaise("AttributeError", node)

    def abs_setattr(self, name, value, ev, node):
        name = Project.unmangle(name)
        setter = self.rt.proj.setter(self.cls, name)
        if setter is not None and name not in self.attrs:
            self.rt.invoke(setter, [self, value], {}, ev)
            return
        self.attrs[name] = value
        self.rt.writes.append((self, name))

    def abs_callmethod(self, name, args, kw, ev, node):
        f = self.abs_getattr(name, ev, node)
        if hasattr(f, "abs_call"):
            return f.abs_call(args, kw, ev, node)
        raise Unsupported(f"{self.cls.name}.{name} is not callable", node)

    # ---- special methods --------------------------------------------------------------------------------
    def _special(self, name, *args):
        m = self.rt.proj.lookup_method(self.cls, name)
        if m is None:
            return False, None
        return True, self.rt.invoke(m, [self] + list(args), {}, None)

    def _tuple_values(self):
        if self.record is not None and self.record[0] == "namedtuple":
            return [self.attrs[f] for f in self.record[1]]
        return None

    def abs_len(self):
        ok, v = self._special("__len__")
        if not ok:
            tv = self._tuple_values()
            if tv is not None:
                return len(tv)
            raise Unsupported(f"len of {self.cls.name}")
        return v

    def abs_iter(self):
        ok, v = self._special("__iter__")
        if not ok:
            tv = self._tuple_values()
            if tv is not None:
                return tv
            raise Unsupported(f"iteration over {self.cls.name}")
        return v

    def abs_getitem(self, idx, node):
        ok, v = self._special("__getitem__", idx)
        if not ok:
            tv = self._tuple_values()
            if tv is not None:
                try:
                    return tv[idx]
                except (IndexError, TypeError):
                    raise AbsRaise("IndexError", node)
            raise Unsupported(f"indexing {self.cls.name}", node)
        return v

    def abs_str(self):
        ok, v = self._special("__str__")
        if not ok:
            ok, v = self._special("__repr__")
        if not ok:
            return f"<{self.cls.name} object>"
        return v

    def abs_repr(self):
        ok, v = self._special("__repr__")
        if ok and isinstance(v, str):
            return v
        return f"<{self.cls.name} object>"

    def __repr__(self):
        try:
            ok, v = self._special("__repr__")
            if ok and isinstance(v, str):
                return v
        except Exception:
            pass
        return f"<{self.cls.name}>"

    def __str__(self):
        return self.abs_str()

    def __eq__(self, other):
        ok, v = self._special("__eq__", other)
        if not ok and self.record is not None:
            if self.record[0] == "namedtuple":
                ov = other._tuple_values() if isinstance(other, Instance) else (list(other) if isinstance(other, tuple) else None)
                return ov is not None and self._tuple_values() == ov
            return isinstance(other, Instance) and other.cls is self.cls and \
                [self.attrs.get(f) for f in self.record[1]] == [other.attrs.get(f) for f in self.record[1]]
        if not ok or v is NOT_IMPLEMENTED or v == NOT_IMPLEMENTED:
            return self is other
        return bool(v)

    def __ne__(self, other):
        return not self.__eq__(other)

    def __hash__(self):
        ok, v = self._special("__hash__")
        if ok and isinstance(v, int):
            return v
        return id(self)

    def __lt__(self, other):
        ok, v = self._special("__lt__", other)
        if not ok:
            raise Unsupported("ordering of instances")
        return bool(v)


class Runtime:
    def __init__(self, proj: Project, funcs: Optional[Dict[str, Any]] = None):
        self.proj = proj
        self.funcs: Dict[str, Any] = dict(funcs or {})
        self.funcs.setdefault("isinstance", self._isinstance)
        self.writes: List[Tuple[Instance, str]] = []
        self.created: List[Instance] = []
        self.externals: Dict[str, Any] = {}       # dotted external name -> abstract value / callable hook
        self.max_steps = 400000
        self.depth = 0
        self._enums: Dict[Tuple[str, str], Any] = {}
        self.sym_compare = None                   # default hook for comparisons of symbolic values
        self.global_values: Dict[Any, Any] = {}
        self.overrides: Dict[str, Any] = {}       # FuncInfo.qualname -> callable(args, kw) replacing the body

    # ---- evaluation ---------------------------------------------------------------------------------------
    def evaluator(self, module: Optional[Module], env: Optional[Dict[str, Any]] = None) -> Evaluator:
        ev = Evaluator(env or {}, self.funcs, self.max_steps)
        ev.runtime = self
        ev.module = module
        ev.sym_compare = self.sym_compare
        return ev

    def invoke(self, func: FuncInfo, args: List[Any], kw: Dict[str, Any], parent: Optional[Evaluator]):
        if func.qualname in self.overrides:
            return self.overrides[func.qualname](list(args), dict(kw))
        self.depth += 1
        if self.depth > 60:
            self.depth -= 1
            raise LoopBound(f"evaluation depth exceeded at {func.qualname} (unbounded recursion)")
        try:
            ev = self.evaluator(func.module)
            if parent is not None:
                ev.sym_compare = parent.sym_compare or self.sym_compare
                ev.attr_fallback = parent.attr_fallback
                ev.while_bound = parent.while_bound
            func.node._csa_module = func.module
            func.node._csa_cls = func.cls
            ret = ev.call_user(func.node, list(args), kw)
            if parent is not None:
                parent.steps += ev.steps
                if parent.steps > parent.max_steps:
                    raise LoopBound("evaluation step bound exceeded")
            return ret
        finally:
            self.depth -= 1

    def super_call(self, cls_ctx: ClassInfo, me, name: str, args, kw, parent, node):
        if not isinstance(me, Instance):
            raise Unsupported("super() outside an instance method", node)
        mro = self.proj.mro(me.cls)
        if cls_ctx not in mro:
            raise Unsupported("super() context not in the receiver's MRO", node)
        for c in mro[mro.index(cls_ctx) + 1:]:
            if name in c.methods:
                return self.invoke(c.methods[name], [me] + list(args), kw, parent)
        if name == "__init__":
            return None           # object / ABC / Exception initialiser
        raise Unsupported(f"super().{name} not found", node)

    def new(self, cls: ClassInfo, args: List[Any], kw: Dict[str, Any], parent: Optional[Evaluator] = None) -> Instance:
        if any(b in ("Exception", "BaseException") or b.endswith("Exception") or b.endswith("Error")
               for b in cls.external_bases) or self.is_exception(cls):
            o = Instance(self, cls)
            o.attrs["args"] = tuple(args)
            return o
        inst = Instance(self, cls)
        self.created.append(inst)
        init = self.proj.lookup_method(cls, "__init__")
        kind = self.record_kind(cls)
        if init is None and kind is not None:
            self._init_record(inst, cls, kind, list(args), dict(kw), parent)
            return inst
        if init is not None:
            self.invoke(init, [inst] + list(args), kw, parent)
        elif args or kw:
            raise AbsRaise("TypeError", None)        # object() takes no arguments
        return inst

    # ---- typing.NamedTuple / dataclasses.dataclass classes: the synthesised constructor --------------------
    def record_kind(self, cls: ClassInfo) -> Optional[str]:
        for c in self.proj.mro(cls):
            if any(b.split(".")[-1] == "NamedTuple" for b in c.external_bases):
                return "namedtuple"
            if any(d.split(".")[-1] == "dataclass" for d in getattr(c, "decorators", [])):
                return "dataclass"
        return None

    def record_fields(self, cls: ClassInfo) -> List[str]:
        out: List[str] = []
        for c in reversed(self.proj.mro(cls)):
            for f in getattr(c, "fields", []):
                if f not in out:
                    out.append(f)
        return out

    def _init_record(self, inst: "Instance", cls: ClassInfo, kind: str, args, kw, parent):
        fields = self.record_fields(cls)
        if len(args) > len(fields):
            raise AbsRaise("TypeError", None)
        ev = self.evaluator(cls.module)
        for i, f in enumerate(fields):
            if i < len(args):
                if f in kw:
                    raise AbsRaise("TypeError", None)
                inst.attrs[f] = args[i]
            elif f in kw:
                inst.attrs[f] = kw.pop(f)
            else:
                d = self.proj.lookup_class_attr(cls, f)
                if d is None:
                    raise AbsRaise("TypeError", None)    # missing required field
                v = None
                if isinstance(d, ast.Call) and (_dotted_name(d.func) or "").split(".")[-1] == "field":
                    fk = {k.arg: k.value for k in d.keywords}
                    if "default_factory" in fk:
                        fac = ev.ev(fk["default_factory"])
                        v = ev._apply(fac, [], d) if not isinstance(fac, type) else fac()
                    elif "default" in fk:
                        v = ev.ev(fk["default"])
                    else:
                        raise AbsRaise("TypeError", None)
                else:
                    v = ev.ev(d)
                inst.attrs[f] = v
        if kw:
            raise AbsRaise("TypeError", None)
        inst.record = (kind, fields)
        post = self.proj.lookup_method(cls, "__post_init__")
        if kind == "dataclass" and post is not None:
            self.invoke(post, [inst], {}, parent)

    def enum_member(self, cls: ClassInfo, name: str, value) -> "EnumMember":
        key = (cls.qualname, name)
        if key not in self._enums:
            self._enums[key] = EnumMember(cls, name, value)
        return self._enums[key]

    def is_exception(self, cls: ClassInfo) -> bool:
        for c in self.proj.mro(cls):
            if any(b.split(".")[-1] in ("Exception", "BaseException") or b.endswith("Error") for b in c.external_bases):
                return True
        return False

    def exception_parent(self, name: str) -> Optional[str]:
        for c in self.proj.all_classes():
            if c.name == name:
                if c.bases:
                    return c.bases[0].name
                if c.external_bases:
                    return c.external_bases[0].split(".")[-1]
        return None

    def call_method(self, inst: Instance, name: str, *args, **kw):
        m = self.proj.lookup_method(inst.cls, name)
        if m is None:
            raise Unsupported(f"no method {name} on {inst.cls.name}")
        if m.kind == "property":
            return self.invoke(m, [inst], {}, None)
        if m.kind == "staticmethod":
            return self.invoke(m, list(args), kw, None)
        return self.invoke(m, [inst] + list(args), kw, None)

    def call_static(self, cls: ClassInfo, name: str, *args, **kw):
        m = self.proj.lookup_method(cls, name)
        if m is None:
            raise Unsupported(f"no method {name} on {cls.name}")
        if m.kind == "classmethod":
            return self.invoke(m, [ClassRef(self, cls)] + list(args), kw, None)
        return self.invoke(m, list(args), kw, None)

    # ---- name resolution ----------------------------------------------------------------------------------
    def lookup_name(self, module: Optional[Module], name: str):
        if name in BUILTIN_TYPES:
            return True, BUILTIN_TYPES[name]
        if name == "NotImplemented":
            return True, NOT_IMPLEMENTED
        if module is None:
            return False, None
        r = self.proj.resolve_in_module(module, name)
        return self._from_resolution(r, module)

    def _from_resolution(self, r, module):
        if r[0] == "class":
            return True, ClassRef(self, r[1])
        if r[0] == "func":
            return True, BoundFunc(self, r[1], None)
        if r[0] == "global":
            m, nm = r[1]
            key = (m.name, nm)
            if key not in self.global_values:       # a module-level object exists once (mutable caches persist)
                ev = self.evaluator(m)
                self.global_values[key] = ev.ev(m.globals[nm])
            return True, self.global_values[key]
        if r[0] == "external":
            if r[1] in self.externals:
                return True, self.externals[r[1]]
            return True, ExternalRef(self, r[1])
        if r[0] == "module":
            return True, ModuleRef(self, r[1])
        return False, None

    def exec_import(self, ev: Evaluator, st: ast.stmt):
        """`import x` inside a function: binds an ExternalRef, or raises ImportError if the rule says it is absent."""
        for al in st.names:
            top = al.name.split(".")[0]
            if self.externals.get("!absent:" + top):
                raise AbsRaise("ModuleNotFoundError", st)
            ev.env[al.asname or top] = self.externals.get(top, ExternalRef(self, top))

    # ---- isinstance ---------------------------------------------------------------------------------------
    def _isinstance(self, ev, call):
        v = ev.ev(call.args[0])
        t = call.args[1]
        names = list(t.elts) if isinstance(t, ast.Tuple) else [t]
        for nm in names:
            tv = ev.ev(nm)
            if isinstance(tv, type):
                if isinstance(v, Instance) or isinstance(v, Obj):
                    continue
                if isinstance(v, bool) and tv is int:
                    return True
                if isinstance(v, tv):
                    return True
            elif isinstance(tv, ClassRef):
                if isinstance(v, Instance) and tv.cls in self.proj.mro(v.cls):
                    return True
            elif isinstance(tv, ExternalRef):
                last = tv.name.split(".")[-1]
                if last in ("Iterable", "Sequence", "Collection") and isinstance(v, (list, tuple, set, dict, frozenset)):
                    return True
                if last in ("Dict", "Mapping") and isinstance(v, dict):
                    return True
                if last == "List" and isinstance(v, list):
                    return True
                if last == "Set" and isinstance(v, set):
                    return True
            else:
                raise Unsupported("isinstance against an abstract type", call)
        return False


class ExternalRef(Obj):
    """A name from outside the package (numpy.zeros, random.choice, ...). Calling it is unsupported unless the rule
    registered a hook in Runtime.externals."""

    def __init__(self, rt: Runtime, name: str):
        super().__init__("external " + name)
        self.rt = rt
        self.name = name

    def abs_getattr(self, attr, ev, node):
        d = f"{self.name}.{attr}"
        if d in self.rt.externals:
            return self.rt.externals[d]
        return ExternalRef(self.rt, d)

    def abs_call(self, args, kw, ev, node):
        h = self.rt.externals.get(self.name)
        if callable(h):
            return h(args, kw, ev, node)
        raise Unsupported(f"call of external {self.name}", node)

    def abs_callmethod(self, name, args, kw, ev, node):
        return self.abs_getattr(name, ev, node).abs_call(args, kw, ev, node)

    def __eq__(self, other):
        return isinstance(other, ExternalRef) and other.name == self.name

    def __hash__(self):
        return hash(self.name)


class ExternalFunc:
    """Wraps a python callable(args, kw, ev, node) as an abstract callable value. `attrs` holds callables reachable as
    attributes of it (itertools.chain.from_iterable)."""
    attrs: Dict[str, Any] = {}

    def abs_getattr(self, name, ev, node):
        a = self.__dict__.get("attrs") or {}
        if name in a:
            return a[name]
        raise Unsupported(f"attribute {name} of a library function", node)

    def __init__(self, fn):
        self.fn = fn

    def abs_call(self, args, kw, ev, node):
        return self.fn(args, kw, ev, node)


class ModuleRef(Obj):
    def __init__(self, rt: Runtime, module: Module):
        super().__init__("module " + module.name)
        self.rt = rt
        self.module = module

    def abs_getattr(self, attr, ev, node):
        found, v = self.rt._from_resolution(self.rt.proj.resolve_in_module(self.module, attr), self.module)
        if not found:
            raise Unsupported(f"module attribute {self.module.name}.{attr}", node)
        return v

    def abs_callmethod(self, name, args, kw, ev, node):
        return self.abs_getattr(name, ev, node).abs_call(args, kw, ev, node)

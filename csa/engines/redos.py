"""
Static ambiguity analysis of regular expressions (serves the "no hang" clause of C18).

A backtracking matcher (Python's `re`) needs time exponential in the input length exactly when the expression's
automaton has *exponential degree of ambiguity* (EDA): some state q and some string w with two different paths
q -w-> q (Weber & Seidl 1991; Weideman et al. 2016 for backtracking matchers).  The analysis:

  1. parse the pattern with the standard library's own parser (`re._parser.parse`) - no matching is performed;
  2. build a Thompson-style epsilon-NFA over a finite alphabet of representatives (every literal / range end point of
     the pattern, plus one representative per character category);
  3. for every state, list its *moves*: (character, target, epsilon path taken) - two different epsilon paths to the
     same consuming edge are two moves (this is what makes `(a*)*` ambiguous);
  4. search the product automaton: EDA iff from (q, q) two different moves on the same character can be taken and
     (q, q) reached again.  The witness (prefix to q, pump string w) is reported.

Constructs whose backtracking behaviour the automaton does not capture (back-references, conditionals) raise
RegexUnsupported; atomic groups and possessive repeats never backtrack into their body and are treated as opaque
atoms (sound for "no alarm").
"""
from __future__ import annotations

import re
from typing import Dict, List, Optional, Set, Tuple

try:                                    # Python >= 3.11
    from re import _parser as sre_parse
    from re import _constants as sre_c
except ImportError:                     # pragma: no cover
    import sre_parse                    # type: ignore
    import sre_constants as sre_c       # type: ignore


class RegexUnsupported(Exception):
    pass


REPRESENTATIVES = [" ", "\t", "\n", "a", "Z", "0", "7", "_", "-", "~", "\x00", "é", "²"]
MAX_COPIES = 3          # bounded repeats {m,n} are unrolled up to this many copies; larger finite bounds are treated as
                        # unbounded (over-approximation: can only add ambiguity reports for huge counted repeats)


def _category(cat, ch: str) -> bool:
    name = str(cat)
    neg = "NOT_" in name
    if "DIGIT" in name:
        r = ch.isdigit()
    elif "SPACE" in name:
        r = ch.isspace()
    elif "WORD" in name:
        r = ch.isalnum() or ch == "_"
    elif "LINEBREAK" in name:
        r = ch == "\n"
    else:
        raise RegexUnsupported(f"character category {name}")
    return (not r) if neg else r


class _Pred:
    """Set of characters, evaluated on representatives only."""

    def __init__(self, fn, text: str):
        self.fn = fn
        self.text = text

    def __call__(self, ch: str) -> bool:
        return self.fn(ch)


class NFA:
    def __init__(self):
        self.n = 0
        self.eps: Dict[int, List[int]] = {}
        self.edges: Dict[int, List[Tuple[_Pred, int]]] = {}

    def new(self) -> int:
        self.n += 1
        self.eps[self.n - 1] = []
        self.edges[self.n - 1] = []
        return self.n - 1

    def add_eps(self, a: int, b: int):
        self.eps[a].append(b)

    def add_edge(self, a: int, p: _Pred, b: int):
        self.edges[a].append((p, b))


def _collect_chars(items, out: Set[str]):
    for op, av in items:
        name = str(op)
        if name in ("LITERAL", "NOT_LITERAL"):
            out.add(chr(av))
        elif name == "IN":
            for o2, a2 in av:
                n2 = str(o2)
                if n2 == "LITERAL":
                    out.add(chr(a2))
                elif n2 == "RANGE":
                    out.add(chr(a2[0]))
                    out.add(chr(a2[1]))
                    if a2[1] - a2[0] > 1:
                        out.add(chr(a2[0] + 1))
        elif name == "BRANCH":
            for alt in av[1]:
                _collect_chars(alt, out)
        elif name in ("SUBPATTERN",):
            _collect_chars(av[3], out)
        elif name in ("MAX_REPEAT", "MIN_REPEAT", "POSSESSIVE_REPEAT"):
            _collect_chars(av[2], out)
        elif name in ("ASSERT", "ASSERT_NOT"):
            _collect_chars(av[1], out)
        elif name == "ATOMIC_GROUP":
            _collect_chars(av, out)


def _in_pred(av, ignorecase: bool) -> _Pred:
    negate = False
    tests = []
    for o2, a2 in av:
        n2 = str(o2)
        if n2 == "NEGATE":
            negate = True
        elif n2 == "LITERAL":
            tests.append(lambda ch, c=chr(a2): ch == c or (ignorecase and ch.lower() == c.lower()))
        elif n2 == "RANGE":
            tests.append(lambda ch, lo=a2[0], hi=a2[1]: lo <= ord(ch) <= hi or
                         (ignorecase and (lo <= ord(ch.lower()) <= hi or lo <= ord(ch.upper()[:1] or ch) <= hi)))
        elif n2 == "CATEGORY":
            tests.append(lambda ch, cat=a2: _category(cat, ch))
        else:
            raise RegexUnsupported(f"set item {n2}")
    if negate:
        return _Pred(lambda ch: not any(t(ch) for t in tests), "[^...]")
    return _Pred(lambda ch: any(t(ch) for t in tests), "[...]")


def _build(nfa: NFA, items, start: int, flags: int) -> int:
    """Adds the automaton of the sequence `items` starting at `start`; returns its end state."""
    ignorecase = bool(flags & re.IGNORECASE)
    dotall = bool(flags & re.DOTALL)
    cur = start
    for op, av in items:
        name = str(op)
        if name == "LITERAL":
            nxt = nfa.new()
            nfa.add_edge(cur, _Pred(lambda ch, c=chr(av): ch == c or (ignorecase and ch.lower() == c.lower()), repr(chr(av))), nxt)
            cur = nxt
        elif name == "NOT_LITERAL":
            nxt = nfa.new()
            nfa.add_edge(cur, _Pred(lambda ch, c=chr(av): ch != c, f"[^{chr(av)}]"), nxt)
            cur = nxt
        elif name == "ANY":
            nxt = nfa.new()
            nfa.add_edge(cur, _Pred(lambda ch: dotall or ch != "\n", "."), nxt)
            cur = nxt
        elif name == "IN":
            nxt = nfa.new()
            nfa.add_edge(cur, _in_pred(av, ignorecase), nxt)
            cur = nxt
        elif name == "CATEGORY":
            nxt = nfa.new()
            nfa.add_edge(cur, _Pred(lambda ch, cat=av: _category(cat, ch), str(av)), nxt)
            cur = nxt
        elif name == "BRANCH":
            end = nfa.new()
            for alt in av[1]:
                s = nfa.new()
                nfa.add_eps(cur, s)
                e = _build(nfa, alt, s, flags)
                nfa.add_eps(e, end)
            cur = end
        elif name == "SUBPATTERN":
            add_flags, del_flags = av[1], av[2]
            cur = _build(nfa, av[3], cur, (flags | add_flags) & ~del_flags)
        elif name in ("MAX_REPEAT", "MIN_REPEAT"):
            lo, hi, body = av
            unbounded = hi == sre_c.MAXREPEAT or hi > MAX_COPIES + lo
            for _ in range(min(lo, MAX_COPIES)):
                cur = _build(nfa, body, cur, flags)
            if unbounded or lo > MAX_COPIES:
                loop_in = nfa.new()
                out = nfa.new()
                nfa.add_eps(cur, loop_in)
                nfa.add_eps(cur, out)
                e = _build(nfa, body, loop_in, flags)
                nfa.add_eps(e, loop_in)
                nfa.add_eps(e, out)
                cur = out
            else:
                out = nfa.new()
                nfa.add_eps(cur, out)
                for _ in range(hi - lo):
                    s = nfa.new()
                    nfa.add_eps(cur, s)
                    cur = _build(nfa, body, s, flags)
                    nfa.add_eps(cur, out)
                cur = out
        elif name in ("POSSESSIVE_REPEAT", "ATOMIC_GROUP"):
            # never backtracked into: one opaque atom (a fresh symbol no other edge can match)
            nxt = nfa.new()
            nfa.add_edge(cur, _Pred(lambda ch: False, "<atomic>"), nxt)
            nfa.add_eps(cur, nxt)
            cur = nxt
        elif name == "AT":
            pass                        # anchors consume nothing
        elif name in ("ASSERT", "ASSERT_NOT"):
            pass                        # look-around consumes nothing (its own loops are analysed separately)
        elif name in ("GROUPREF", "GROUPREF_EXISTS"):
            raise RegexUnsupported("back-reference / conditional group")
        elif name == "FAILURE":
            dead = nfa.new()
            cur = dead
        else:
            raise RegexUnsupported(f"regex construct {name}")
    return cur


def _lookarounds(items, out: List):
    for op, av in items:
        name = str(op)
        if name in ("ASSERT", "ASSERT_NOT"):
            out.append(av[1])
            _lookarounds(av[1], out)
        elif name == "BRANCH":
            for alt in av[1]:
                _lookarounds(alt, out)
        elif name == "SUBPATTERN":
            _lookarounds(av[3], out)
        elif name in ("MAX_REPEAT", "MIN_REPEAT", "POSSESSIVE_REPEAT"):
            _lookarounds(av[2], out)
        elif name == "ATOMIC_GROUP":
            _lookarounds(av, out)


def _moves(nfa: NFA, alphabet: List[str]) -> Dict[int, List[Tuple[str, int, Tuple[int, ...]]]]:
    """state -> [(char, target, epsilon path)] - one entry per simple epsilon path followed by a consuming edge."""
    out: Dict[int, List[Tuple[str, int, Tuple[int, ...]]]] = {}
    for q in range(nfa.n):
        res = []
        stack = [(q, (q,))]
        while stack:
            s, path = stack.pop()
            for k, (pred, t) in enumerate(nfa.edges[s]):
                for ch in alphabet:
                    if pred(ch):
                        res.append((ch, t, path + (("e", k),)))
            for t in nfa.eps[s]:
                if t not in path:
                    stack.append((t, path + (t,)))
        out[q] = res
    return out


def analyse(pattern: str, flags: int = 0) -> Optional[Dict]:
    """None if the expression has no exponentially ambiguous loop, else a witness dict {prefix, pump, state}."""
    parsed = sre_parse.parse(pattern, flags)
    flags = parsed.state.flags if hasattr(parsed, "state") else flags
    todo = [list(parsed)]
    extra: List = []
    _lookarounds(list(parsed), extra)
    todo.extend(extra)
    chars: Set[str] = set(REPRESENTATIVES)
    _collect_chars(list(parsed), chars)
    alphabet = sorted(chars, key=lambda c: (not c.isalnum(), not c.isprintable(), c))
    for items in todo:
        nfa = NFA()
        start = nfa.new()
        _build(nfa, items, start, flags)
        w = _eda(nfa, start, alphabet)
        if w is not None:
            return w
    return None


def _eda(nfa: NFA, start: int, alphabet: List[str]) -> Optional[Dict]:
    moves = _moves(nfa, alphabet)
    # states reachable from the start (with a shortest prefix)
    prefix = {start: ""}
    order = [start]
    for q in order:
        for ch, t, _p in moves[q]:
            if t not in prefix:
                prefix[t] = prefix[q] + ch
                order.append(t)
    # a state reached through epsilon only shares its predecessor's prefix
    changed = True
    while changed:
        changed = False
        for q in list(prefix):
            for t in nfa.eps[q]:
                if t not in prefix:
                    prefix[t] = prefix[q]
                    order.append(t)
                    changed = True
        for q in list(order):
            for ch, t, _p in moves[q]:
                if t not in prefix:
                    prefix[t] = prefix[q] + ch
                    order.append(t)
                    changed = True
    for q in sorted(prefix):
        if not moves[q]:
            continue
        # product search from (q, q, not diverged)
        seen = {(q, q, False): ""}
        queue = [(q, q, False)]
        while queue:
            a, b, div = queue.pop(0)
            w = seen[(a, b, div)]
            for i, (c1, t1, p1) in enumerate(moves[a]):
                for j, (c2, t2, p2) in enumerate(moves[b]):
                    if c1 != c2:
                        continue
                    d2 = div or (a == b and i != j) or (a != b)
                    if a == b and not div and i > j:
                        continue        # symmetric
                    key = (t1, t2, d2)
                    if key in seen:
                        continue
                    seen[key] = w + c1
                    # back at (q, q) through epsilon moves on both sides after diverging?
                    if d2 and _eps_reach(nfa, t1, q) and _eps_reach(nfa, t2, q):
                        return {"state": q, "prefix": prefix[q], "pump": w + c1}
                    queue.append(key)
    return None


def _eps_reach(nfa: NFA, a: int, b: int) -> bool:
    if a == b:
        return True
    seen = {a}
    stack = [a]
    while stack:
        s = stack.pop()
        for t in nfa.eps[s]:
            if t == b:
                return True
            if t not in seen:
                seen.add(t)
                stack.append(t)
    return False


# tiny positive / negative examples evaluated on every run: the analysis itself must keep working
SELF_TEST = [
    (r"(a+)+$", True), (r"(?:a|a)*b", True), (r"(a*)*b", True), (r"(?:\s*[^\[\],\s]+\s*,?)+\]", True),
    (r"(\w+\s?)*$", True),
    (r"\[([^\[\]]*)\]", False), (r"(?:a|b)*c", False), (r"\s*\d+\s*", False), (r"^[A-Za-z_]\w*$", False),
    (r"\{(?:[^{},]+)(?:,[^{},]+)*\}", False), (r"(?:\s*\d+\s*,)*\s*\d+\s*", False),
]


def self_test() -> List[str]:
    bad = []
    for pat, want in SELF_TEST:
        try:
            got = analyse(pat) is not None
        except Exception as exc:    # noqa
            bad.append(f"{pat!r}: analysis failed ({exc!r})")
            continue
        if got != want:
            bad.append(f"{pat!r}: reported {'ambiguous' if got else 'unambiguous'}, expected the opposite")
    return bad

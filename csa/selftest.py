"""
Checker self-validation (thorough tier, informational): in-memory edits of the *current* source.

A `break` mutant must make the named rule(s) report a violation; a `benign` mutant (behaviour-preserving edit)
must leave the whole property silent and must not raise ANALYSIS-ERROR.  Mutants whose anchor text is not found
exactly once in today's tree are skipped (the tree may have been edited) and counted as not applicable.
Nothing is written to disk and no repository code is executed.

Usage for development:  python3-vt -m csa.selftest C02 [-v]
"""
from __future__ import annotations

import importlib
import os
import sys
import time
from concurrent.futures import ProcessPoolExecutor
from typing import Dict, List, Optional

from .loader import Project, AnalysisError, REPO_ROOT


class Mutant:
    def __init__(self, name: str, path: str, old: str, new: str, expect: Optional[List[str]] = None,
                 kind: str = "break", count: int = 1):
        self.name = name
        self.path = path
        self.old = old
        self.new = new
        self.expect = expect or []
        self.kind = kind
        self.count = count


def _load_mutants(prop: str) -> List[Mutant]:
    try:
        mod = importlib.import_module(f"csa.mutants.{prop}")
    except ModuleNotFoundError:
        return []
    return list(getattr(mod, "MUTANTS", []))


def _apply(m: Mutant) -> Optional[Dict[str, str]]:
    full = os.path.join(REPO_ROOT, m.path)
    try:
        with open(full, "r", encoding="utf-8") as fh:
            s = fh.read()
    except OSError:
        return None
    if s.count(m.old) != m.count:
        return None
    return {m.path: s.replace(m.old, m.new)}


def _run_one(args):
    prop, idx = args
    from .main import run_rules
    m = _load_mutants(prop)[idx]
    overlay = _apply(m)
    if overlay is None:
        return (m.name, m.kind, "n/a", "anchor text not found exactly once")
    from .report import Result
    Result.registry.clear()
    try:
        proj = Project(overlay=overlay)
        res = run_rules(prop, proj, "quick", 0)
    except (AnalysisError, Exception) as exc:
        if isinstance(exc, SyntaxError):
            return (m.name, m.kind, "n/a", f"mutant does not parse: {exc}")
        partial = None
        for r in Result.registry:
            if r.prop == prop and r.violations and (partial is None or len(r.obligations) > len(partial.obligations)):
                partial = r
        if partial is not None:
            res = partial           # same policy as the driver: violations already established stand
        elif m.kind == "break" and "ANALYSIS-ERROR" in m.expect:
            return (m.name, m.kind, "fired", f"analysis error (accepted): {exc}")
        else:
            return (m.name, m.kind, "error", f"{'ANALYSIS-ERROR' if isinstance(exc, AnalysisError) else 'internal error'}: {exc!r}")
    if False:
        pass
    rules = sorted({o.rule for o in res.violations})
    if m.kind == "break":
        if any(r in rules for r in m.expect) or (not m.expect and rules):
            return (m.name, m.kind, "fired", ",".join(rules))
        return (m.name, m.kind, "missed", f"expected {m.expect}, violations reported by {rules}")
    if rules:
        v = res.violations[0]
        return (m.name, m.kind, "false-alarm", f"{v.rule} {v.key}: {v.detail}")
    return (m.name, m.kind, "silent", "")


def run_for(prop: str, seed: int = 0, verbose: bool = False) -> Dict:
    muts = _load_mutants(prop)
    t0 = time.time()
    out = []
    if muts:
        workers = min(16, len(muts), os.cpu_count() or 1)
        if workers > 1:
            with ProcessPoolExecutor(max_workers=workers) as ex:
                out = list(ex.map(_run_one, [(prop, i) for i in range(len(muts))]))
        else:
            out = [_run_one((prop, i)) for i in range(len(muts))]
    summary = {
        "mutants_total": len(muts),
        "breaking_fired": sum(1 for o in out if o[1] == "break" and o[2] == "fired"),
        "breaking_missed": sum(1 for o in out if o[1] == "break" and o[2] == "missed"),
        "benign_silent": sum(1 for o in out if o[1] == "benign" and o[2] == "silent"),
        "benign_false_alarm": sum(1 for o in out if o[1] == "benign" and o[2] == "false-alarm"),
        "not_applicable": sum(1 for o in out if o[2] == "n/a"),
        "errors": sum(1 for o in out if o[2] == "error"),
        "wall_s": round(time.time() - t0, 2),
        "details": [{"mutant": o[0], "kind": o[1], "outcome": o[2], "info": o[3]} for o in out],
    }
    return summary


if __name__ == "__main__":
    props = [a for a in sys.argv[1:] if not a.startswith("-")]
    verbose = "-v" in sys.argv
    if not props:
        props = [f"C{i:02d}" for i in range(1, 21)]
    bad = 0
    for p in props:
        s = run_for(p)
        if not s["mutants_total"]:
            continue
        print(p, {k: v for k, v in s.items() if k != "details"})
        for d in s["details"]:
            if verbose or d["outcome"] in ("missed", "false-alarm", "error", "n/a"):
                print("   ", d["outcome"].upper(), d["kind"], d["mutant"], "-", d["info"][:200])
        bad += s["breaking_missed"] + s["benign_false_alarm"] + s["errors"] + s["not_applicable"]
    sys.exit(1 if bad else 0)

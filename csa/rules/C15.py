"""
C15 - computing a consensus never modifies its inputs; results are repeatable.

I1  (static effects analysis, engines/effects.py) no mutation sink is reachable on state aliasing the Dataset / Ranking /
    ScoringScheme arguments of: every `compute_consensus_rankings`, KemenyComputingFactory.get_kemeny_score,
    OrderedPartition.parcons_partition / parfront_partition / consistent_with, PairwiseBasedAlgorithm.* ; and
    Consensus.kemeny_score / description only write the consensus' own feature dictionary.
    Thorough tier: every function of the package that receives a Dataset / Ranking / ScoringScheme parameter.
I2  non-mutator methods of Dataset, Ranking, ScoringScheme, Element never write `self` (documented mutators and
    constructors are a frozen table).
I3  which `compute_consensus_rankings` write the algorithm object (state kept across calls) - recorded, not a
    violation by itself: a correct cache is allowed; what such state may do to later runs is decided by I6.
I6  (abstract evaluation) a sequence of runs on shared objects - one algorithm object, one Dataset object, one scheme
    object per scheme, several (dataset, scheme) pairs in a row - returns, at every step, the consensus a run on fresh
    objects returns.
I4  randomness is reachable from an algorithm entry point only inside the KwikSort modules (the pivot choice).
I5  (snapshots by abstract evaluation) running every algorithm configuration end to end, reading the score and the
    description, computing both partitions, leaves the evaluated dataset and scheme instances - rankings, buckets,
    positions, id maps, flags, name, penalty vectors - exactly as before; a second run on the same instances returns
    the same consensus (pivot scripted).
"""
from __future__ import annotations

import ast
import os
from concurrent.futures import ProcessPoolExecutor
from typing import Dict, List, Set, Tuple

from ..loader import AnalysisError, Project, src, dotted
from ..report import Result
from ..engines.effects import Effects
from ..engines.abseval import Unsupported, AbsRaise
from .endtoend import E2EWorld, configurations, UNIFYING, INDUCED, GENERIC

DATA_CLASSES = ("Dataset", "Ranking", "ScoringScheme", "Element")
DOCUMENTED_MUTATORS = {
    "Dataset": {"__init__", "_analyse_rankings", "remove_empty_rankings", "remove_elements_rate_presence_lower_than",
                "remove_elements", "name.setter"},
    "Ranking": {"__init__"},
    "ScoringScheme": {"__init__"},
    "Element": {"__init__"},
    "OrderedPartition": {"__init__"},
}
INPUT_PARAM_TYPES = ("Dataset", "Ranking", "ScoringScheme", "Element", "Consensus", "ndarray")


def run(ctx) -> Result:
    res = Result("C15")
    proj = ctx.proj
    cg = ctx.cg
    eff = Effects(proj, cg)
    res.rule("I1", "no mutation sink reachable on state aliasing the inputs of the entry points (effects analysis)", 20)
    res.rule("I2", "non-mutator methods of the data classes never write self", 40)
    res.rule("I3", "which compute_consensus_rankings write the algorithm object (recorded; decided by I6)", 9)
    res.rule("I6", "a sequence of runs on shared algorithm / dataset / scheme objects = runs on fresh objects, step by step", 10)
    res.rule("I4", "random sources (random, numpy.random, secrets, urandom, uuid) reachable from algorithm entry points only inside the KwikSort modules (pivot choice)", 1)
    res.rule("I5", "snapshots of dataset / scheme instances before and after end-to-end evaluation; repeatability", 10)
    res.extra["functions_summarised"] = len(eff.summ)

    # ------------------------------------------------------------------ I1
    entries = []
    for c in proj.all_classes():
        if c.module.name.startswith("corankco.algorithms") and "compute_consensus_rankings" in c.methods:
            entries.append(c.methods["compute_consensus_rankings"])
    K = proj.cls("corankco.kemeny_score_computation", "KemenyComputingFactory")
    OP = proj.cls("corankco.partitioning.ordered_partition", "OrderedPartition")
    PBA = proj.cls("corankco.algorithms.pairwisebasedalgorithm", "PairwiseBasedAlgorithm")
    entries += [proj.method(K, "get_kemeny_score"), proj.method(OP, "parcons_partition"),
                proj.method(OP, "parfront_partition"), proj.method(OP, "consistent_with")]
    entries += [m for m in PBA.methods.values()]
    base_entries = list(entries)
    if ctx.thorough:
        for f in proj.all_functions():
            if f not in entries and f.cls is not None and f.cls.name not in DATA_CLASSES and f.cls.name != "Consensus":
                entries.append(f)
            elif f not in entries and f.cls is None:
                entries.append(f)
    for f in entries:
        res.saw(f)
        env = cg.env(f)
        s = eff.summ[f.qualname]
        for prm in f.params:
            if prm.arg in ("self", "cls"):
                continue
            t = env.var_type(prm.arg)
            if f not in base_entries and t.name == "ndarray":
                continue        # internal kernels receive accumulators / work arrays they are meant to fill
            if t.name not in INPUT_PARAM_TYPES and not (t.name in ("List", "Set", "Dict") and t.args and t.args[0].name in INPUT_PARAM_TYPES):
                continue
            hits = sorted(r for r in s.mut if r[0] == prm.arg)
            key = f"{f.short}:{prm.arg}"
            if hits:
                res.bad("I1", key, f.loc(), f"may modify its `{prm.arg}` argument ({t!r}): {eff.witness(f, hits[0])}")
            else:
                res.ok("I1", key, f.loc(), f"`{prm.arg}` ({t!r}) is never written, directly or through a callee")
    cons = proj.cls("corankco.consensus", "Consensus")
    for name in ("kemeny_score", "description", "__str__", "__len__", "topk_ranking", "evaluate_topk_ranking"):
        m = proj.lookup_method(cons, name)
        if m is None:
            continue
        res.saw(m)
        s = eff.summ[m.qualname]
        bad = sorted(r for r in s.mut if r[0] == "self" and r[1] not in ("_att",))
        res.check(not bad, "I1", f"Consensus.{name}:self", m.loc(),
                  ok_detail="writes nothing but the consensus' own feature dictionary",
                  bad_detail=f"may modify consensus state `{bad[0][1] or 'self'}`: {eff.witness(m, bad[0])}" if bad else "")

    # ------------------------------------------------------------------ I2
    for cname, mod in (("Dataset", "corankco.dataset"), ("Ranking", "corankco.ranking"),
                       ("ScoringScheme", "corankco.scoringscheme"), ("Element", "corankco.element"),
                       ("OrderedPartition", "corankco.partitioning.ordered_partition")):
        c = proj.cls(mod, cname)

        def only_from_mutators(m, seen=None) -> bool:
            """a private helper that every call site reaches from a documented mutator / constructor (directly or
            through other such helpers) is part of that mutator"""
            seen = seen or set()
            if m.qualname in seen:
                return True
            seen.add(m.qualname)
            if not m.name.startswith("_") or (m.name.startswith("__") and m.name.endswith("__")):
                return False
            callers = cg.callers_of(m)
            if not callers:
                return False
            for cs in callers:
                f2 = cs.caller
                if f2.cls is not c:
                    return False
                lab2 = f2.name + (".setter" if f2.kind == "setter" else "")
                if lab2 in DOCUMENTED_MUTATORS[cname]:
                    continue
                if not only_from_mutators(f2, seen):
                    return False
            return True
        for m in list(c.methods.values()) + list(c.setters.values()):
            label = m.name + (".setter" if m.kind == "setter" else "")
            if label in DOCUMENTED_MUTATORS[cname] or m.kind in ("staticmethod", "classmethod"):
                continue
            if only_from_mutators(m):
                res.ok("I2", f"{cname}.{label}", m.loc(), "private helper reached only from documented mutators / the "
                       "constructor: part of them", nontrivial=False)
                continue
            res.saw(m)
            s = eff.summ[m.qualname]
            me = m.param_names[0] if m.param_names else "self"
            bad = sorted(r for r in s.mut if r[0] == me)
            others = sorted(r for r in s.mut if r[0] != me)
            res.check(not bad and not others, "I2", f"{cname}.{label}", m.loc(),
                      ok_detail="writes neither self nor its arguments",
                      bad_detail=(f"may modify `{(bad or others)[0][0]}`"
                                  f"{'.' + (bad or others)[0][1] if (bad or others)[0][1] else ''}: "
                                  f"{eff.witness(m, (bad or others)[0])}") if (bad or others) else "")
    # ------------------------------------------------------------------ I3
    stateful = []
    for f in entries:
        if f.name != "compute_consensus_rankings":
            continue
        s = eff.summ[f.qualname]
        wr = sorted(r for r in s.mut if r[0] == "self")
        if wr:
            stateful.append(f.short)
        res.ok("I3", f"{f.short}:self", f.loc(),
               "the algorithm object is not written" if not wr else
               f"keeps state across calls (`{wr[0][1] or 'state'}`: {eff.witness(f, wr[0])}) - later runs are compared with "
               f"runs on fresh objects by I6", nontrivial=not wr)
    res.extra["algorithms_keeping_state_across_calls"] = stateful
    # ------------------------------------------------------------------ I4
    roots = [f for f in entries if f.name == "compute_consensus_rankings"]
    reach = cg.reachable(roots)
    offenders = []
    n_random = 0

    def is_random_source(ext: str) -> bool:
        return ext.split(".")[0] in ("random", "secrets") or ext.startswith("numpy.random.") or \
            ext in ("os.urandom", "uuid.uuid1", "uuid.uuid4")
    for f in proj.all_functions():
        in_kwik = f.module.name.startswith("corankco.algorithms.kwiksort")
        for cs in cg.sites.get(f.qualname, []):
            if cs.kind == "external" and cs.external and is_random_source(cs.external):
                if in_kwik:
                    n_random += 1           # module-level draw or construction of the module's generator object
                elif f in reach:
                    offenders.append((f, cs))
    res.check(not offenders and n_random >= 1, "I4", "random:only-through-pivot-choice", "corankco/algorithms",
              ok_detail=f"{n_random} use(s) of a random source in the KwikSort modules; none reachable from an entry point "
                        f"elsewhere",
              bad_detail=(f"{offenders[0][0].short} ({offenders[0][0].loc(offenders[0][1].node)}) calls "
                          f"{offenders[0][1].external}: results are no longer repeatable") if offenders else
              "no random source found at all in the KwikSort modules (the pivot is expected to be random)")
    # ------------------------------------------------------------------ I5
    _check_snapshots(res, proj, ctx.thorough)
    _check_sequences(res, proj, ctx.thorough)
    _check_score_sequence(res, proj)
    res.assumptions.append("numba / numpy functions do not write their inputs except the in-place operations tabulated "
                           "in engines/effects.py")
    return res


# ---------------------------------------------------------------------------------------------------------------
SNAP_DATASETS = [
    ("incomplete-ties", [[{1}, {2, 3}], [{3}, {1}], [{2}], [{2}, {3}, {1}]]),
    ("strings-complete", [[{"a"}, {"b"}, {"c"}], [{"c", "b"}, {"a"}], [{"b"}, {"a"}, {"c"}]]),
]


def _scheme_state(s):
    return [list(v) for v in s.attrs["_penalty_vectors"]]


def _snap_worker(job):
    overlay, label, raws, thorough = job
    proj = Project(overlay=overlay)
    out = []
    w = E2EWorld(proj, "first")
    ds = w.dataset(raws)
    complete = bool(w.call(ds, "is_complete"))
    OP = proj.cls("corankco.partitioning.ordered_partition", "OrderedPartition")
    for slabel, pen in (("unifying", UNIFYING), ("generic", GENERIC)):
        sch = w.scheme(pen)
        before = (w.snapshot(ds), _scheme_state(sch))
        for clabel, alg, kind in configurations(w):
            accepts = complete or kind == "any" or (kind in ("borda", "pick") and slabel == "unifying")
            if not accepts:
                continue
            alg_before = repr(sorted((k, repr(v)) for k, v in alg.attrs.items()))
            st, c1 = w.try_compute(alg, ds, sch, False if "Exact" not in clabel else True)
            if st != "ok":
                out.append((clabel, f"scheme {slabel}: raised {c1}"))
                continue
            try:
                w.call(c1, "kemeny_score")
                w.call(c1, "description")
            except AbsRaise as exc:
                out.append((clabel, f"scheme {slabel}: reading score / description raised {exc.exc_name}"))
            except Unsupported as exc:
                raise AnalysisError(f"Consensus.description: unsupported construct line {getattr(exc.node, 'lineno', '?')}: {exc}")
            st2, c2 = w.try_compute(alg, ds, sch, False if "Exact" not in clabel else True)
            after = (w.snapshot(ds), _scheme_state(sch))
            if after != before:
                what = "dataset" if after[0] != before[0] else "scoring scheme"
                out.append((clabel, f"scheme {slabel}: the {what} differs after the run: before {before[0][0] if what == 'dataset' else before[1]} "
                                    f"after {after[0][0] if what == 'dataset' else after[1]}"))
                before = after
            if st2 == "ok":
                r1 = [w.raw_ranking(r) for r in c1.attrs["_consensus_rankings"]]
                r2 = [w.raw_ranking(r) for r in c2.attrs["_consensus_rankings"]]
                if r1 != r2:
                    out.append((clabel, f"scheme {slabel}: second run on the same inputs gives {r2}, first gave {r1}"))
            out.append((clabel, None))
        for pname in ("parcons_partition", "parfront_partition"):
            try:
                part = w.rt.call_static(OP, pname, ds, sch)
                cons_alg = w.alg("copeland.copeland", "CopelandMethod")
                c = w.compute(cons_alg, ds, sch, True)
                w.rt.call_method(part, "consistent_with", c)
            except AbsRaise as exc:
                out.append((f"OrderedPartition.{pname}", f"raised {exc.exc_name}"))
            except Unsupported as exc:
                raise AnalysisError(f"OrderedPartition.{pname}: unsupported construct line {getattr(exc.node, 'lineno', '?')}: {exc}")
            after = (w.snapshot(ds), _scheme_state(sch))
            if after != before:
                out.append((f"OrderedPartition.{pname}", f"scheme {slabel}: inputs differ after computing the partition"))
                before = after
            out.append((f"OrderedPartition.{pname}", None))
    return label, out


# the first pairs keep one 5-element (resp. 4 + 1 + 1) strongly connected component under both schemes, with different optima
SEQUENCE = [("five-cycle-ties", "unifying-p0.5"), ("five-cycle-ties", "generic"), ("six-mixed", "generic"),
            ("six-mixed", "unifying-p0.5"), ("cycle3", "unifying"), ("later-id-first", "unifying"),
            ("five-cycle-ties", "pseudodistance"), ("five-cycle-ties", "unifying-p0.5"),
            # complete datasets sharing rankings, then the same dataset under another scheme (PickAPerm accepts these)
            ("cycle3", "generic"), ("unanimous", "unifying"), ("cycle3", "unifying")]


def _seq_worker(job):
    from . import oracle
    overlay, idx, seq = job
    proj = Project(overlay=overlay)
    ws = E2EWorld(proj, "first")
    clabel, alg, kind = configurations(ws)[idx]
    dss, schs = {}, {}
    out = []

    def outcome(w, a, ds, sch):
        st, c = w.try_compute(a, ds, sch, "Exact" in clabel)
        if st != "ok":
            return ("raise", c)
        try:
            sc = w.call(c, "kemeny_score")
        except AbsRaise as exc:
            sc = f"raise {exc.exc_name}"
        return ("ok", [w.raw_ranking(r) for r in c.attrs["_consensus_rankings"]], sc)
    for k, (dname, sname) in enumerate(seq):
        raws, pen = oracle.DATASETS[dname], oracle.SCHEMES[sname]
        if dname not in dss:
            dss[dname] = ws.dataset(raws)
        if sname not in schs:
            schs[sname] = ws.scheme(pen)
        got = outcome(ws, alg, dss[dname], schs[sname])
        wf = E2EWorld(proj, "first")
        want = outcome(wf, configurations(wf)[idx][1], wf.dataset(raws), wf.scheme(pen))
        if got != want:
            before = "; ".join(f"{d}/{s_}" for d, s_ in seq[:k]) or "nothing"
            out.append((clabel, f"run #{k + 1} on shared objects (before it: {before}) on dataset {dname} {raws}, scheme {sname} "
                                f"gives {got[1:]}, the same run on fresh objects gives {want[1:]}"))
        else:
            out.append((clabel, None))
    return out


def _check_sequences(res: Result, proj: Project, thorough: bool):
    w0 = E2EWorld(proj, "first")
    n = len(configurations(w0))
    seq = SEQUENCE if thorough else SEQUENCE[:3] + SEQUENCE[4:6] + SEQUENCE[8:]
    agg: Dict[str, List[str]] = {}
    with ProcessPoolExecutor(max_workers=min(n, os.cpu_count() or 1)) as ex:
        for out in ex.map(_seq_worker, [(proj.overlay, i, seq) for i in range(n)]):
            for clabel, problem in out:
                agg.setdefault(clabel, [])
                if problem is not None:
                    agg[clabel].append(problem)
    for clabel, probs in sorted(agg.items()):
        res.check(not probs, "I6", f"{clabel}:shared-objects-sequence", "corankco/algorithms",
                  ok_detail=f"{len(seq)} consecutive runs on shared objects each equal the run on fresh objects",
                  bad_detail=probs[0] if probs else "")


def _check_score_sequence(res: Result, proj: Project):
    """Scores read through Consensus objects the caller builds (`Consensus([ranking], dataset, scheme).kemeny_score`, the
    documented way to score a candidate), one after the other in one process: each equals the score a fresh process
    gives; so do the descriptions."""
    from . import oracle
    CONS = proj.cls("corankco.consensus", "Consensus")
    raws = oracle.DATASETS["cycle3"]
    cands = [[{1}, {2}, {3}], [{3}, {2}, {1}], [{1, 2, 3}], [{2}, {1, 3}], [{1}, {2}, {3}]]
    schemes = ["unifying", "generic", "unifying"]
    ws = E2EWorld(proj, "first")
    ds = ws.dataset(raws)
    shared_sch = {nm: ws.scheme(oracle.SCHEMES[nm]) for nm in set(schemes)}
    bad = None
    n = 0
    for k, cand in enumerate(cands):
        sname = schemes[k % len(schemes)]
        outs = []
        for w, d_, sc_ in ((ws, ds, shared_sch[sname]), (None, None, None)):
            if w is None:
                w = E2EWorld(proj, "first")
                d_, sc_ = w.dataset(raws), w.scheme(oracle.SCHEMES[sname])
            try:
                c = w.rt.new(CONS, [[w.ranking(cand)], d_, sc_], {})
                outs.append((w.call(c, "kemeny_score"), w.call(c, "description").count("kemeny score")))
            except AbsRaise as r:
                outs.append(("raise", r.exc_name))
            except Unsupported as exc:
                raise AnalysisError(f"Consensus score sequence: unsupported construct line {getattr(exc.node, 'lineno', '?')}: {exc}")
        n += 1
        if outs[0] != outs[1] and bad is None:
            bad = (k, cand, sname, outs[0], outs[1])
    res.check(bad is None, "I6", "Consensus(...).kemeny_score:sequence-of-hand-built-consensus", "corankco/consensus.py",
              ok_detail=f"{n} candidates scored one after the other on shared dataset / scheme objects: each score is the "
                        f"fresh one",
              bad_detail=(f"score call #{bad[0] + 1} (candidate {bad[1]}, scheme {bad[2]}, dataset {raws}) after the previous "
                          f"ones gives {bad[3]!r}, a fresh process gives {bad[4]!r}") if bad else "")


def _check_snapshots(res: Result, proj: Project, thorough: bool):
    jobs = [(proj.overlay, label, raws, thorough) for label, raws in SNAP_DATASETS]
    agg: Dict[str, List[str]] = {}
    with ProcessPoolExecutor(max_workers=min(len(jobs), os.cpu_count() or 1)) as ex:
        for label, out in ex.map(_snap_worker, jobs):
            for clabel, problem in out:
                agg.setdefault(clabel, [])
                if problem is not None:
                    agg[clabel].append(f"dataset {label}: {problem}")
    for clabel, probs in sorted(agg.items()):
        res.check(not probs, "I5", f"{clabel}:inputs-unchanged-and-repeatable", "corankco/algorithms",
                  ok_detail="dataset and scheme identical before and after; same consensus twice",
                  bad_detail=probs[0] if probs else "")

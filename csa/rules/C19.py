"""
C19 - scoring schemes: validation, scaling, equivalence, nickname.

G1  validation truth table: `ScoringScheme.__init__` abstractly evaluated on a grid realising every order type of
    the nine entries the documented constraints mention (quick: 1728 worlds; thorough: 19683), plus malformed
    shapes / types; accepted iff the documented conjunction, rejected with the documented exception class; the
    stored vectors are a fresh copy equal to the input.
G2  scaling: `__mul__` abstractly evaluated on symbolic penalties: builds a new scheme through the validating
    constructor with every entry times the factor, no store to self; `__rmul__` delegates.
G3  equivalence: `__is_equivalent_to_generic` abstractly evaluated on all pairs of a pool of penalty tables and
    both `stop` values; must equal "positive multiple on both vectors over the first `stop` entries"; the two
    public wrappers pass 6 and 3.
G4  presets and nickname: each preset builder yields its documented table; get_nickname returns each preset's
    own nickname and the textual form otherwise.
"""
from __future__ import annotations

import ast
import itertools
from fractions import Fraction
from typing import List

from ..loader import AnalysisError, src, dotted
from ..report import Result
from ..engines.abseval import Evaluator, Sym, Lin, Unsupported, AbsRaise
from . import scheme as S

MOD = S.MOD

PRESETS = {
    # name -> (table as function of p, nickname)
    "get_unifying_scoring_scheme_p": (lambda p: [[0, 1, p, 0, 1, p], [p, p, 0, p, p, 0]], "UKSP"),
    "get_pseudodistance_scoring_scheme_p": (lambda p: [[0, 1, p, 0, 1, 0], [p, p, 0, p, p, 0]], "GPDP"),
    "get_induced_measure_scoring_scheme_p": (lambda p: [[0, 1, p, 0, 0, 0], [p, p, 0, 0, 0, 0]], "IGKS"),
    "get_extended_measure_scoring_scheme": (lambda p: [[0, 1, 0, 0, 0, 0], [1, 1, 0, 1, 1, 1]], "EKS"),
}
P1_WRAPPERS = {
    "get_unifying_scoring_scheme": "get_unifying_scoring_scheme_p",
    "get_pseudodistance_scoring_scheme": "get_pseudodistance_scoring_scheme_p",
    "get_induced_measure_scoring_scheme": "get_induced_measure_scoring_scheme_p",
}


def run(ctx) -> Result:
    res = Result("C19")
    proj = ctx.proj
    cls = proj.cls(MOD, "ScoringScheme")
    init = proj.method(cls, "__init__")
    res.saw(init)
    res.rule("G1", "validation truth table over all order types of the constrained entries + malformed shapes", 20)
    res.rule("G2", "scaling builds a new validated scheme, every entry times the factor, self untouched", 3)
    res.rule("G3", "equivalence = positive multiple on both vectors over the compared prefix (pool of table pairs)", 4)
    res.rule("G4", "preset tables and nickname dispatch", 8)

    # ------------------------------------------------------------------ G1
    n = 0
    wrong = {}
    classes = {}
    for b, t in S.grid(ctx.thorough):
        n += 1
        pen = [list(b), list(t)]
        st, val = S.eval_constructor(proj, pen)
        want = S.spec_accepts(b, t)
        violated = [k for k, ok in (("B0=0", b[0] == 0), ("B1>0", b[1] > 0), ("B3<=B4", b[3] <= b[4]),
                                    ("T0=T1", t[0] == t[1]), ("T2=0", t[2] == 0), ("T3=T4", t[3] == t[4])) if not ok]
        cls_key = "accept" if want else "reject:" + "+".join(violated)
        classes[cls_key] = classes.get(cls_key, 0) + 1
        if want:
            good = st == "ok" and val == [[float(x) for x in b], [float(x) for x in t]] and val is not pen \
                and val[0] is not pen[0] and val[1] is not pen[1]
            if not good:
                wrong.setdefault(cls_key, (b, t, f"{st} {val!r}"))
        else:
            if not (st == "raise" and val == "ForbiddenAssociationPenaltiesScoringScheme"):
                wrong.setdefault(cls_key, (b, t, f"{st} {val!r}"))
    for cls_key in sorted(classes):
        if cls_key in wrong:
            b, t, got = wrong[cls_key]
            res.bad("G1", f"ScoringScheme.__init__:{cls_key}", init.loc(),
                    f"penalties B={b} T={t}: constructor gives {got}; documented: "
                    f"{'accepted, stored as a fresh float copy' if cls_key == 'accept' else 'ForbiddenAssociationPenaltiesScoringScheme'}")
        else:
            res.ok("G1", f"ScoringScheme.__init__:{cls_key}", init.loc(), f"{classes[cls_key]} grid points agree")
    res.extra["validation_grid_points"] = n
    good_b, good_t = [0, 1, 1, 0, 1, 1], [1, 1, 0, 1, 1, 0]
    malformed = [
        ("not-a-list", (list(good_b), list(good_t)), "InvalidScoringScheme"),
        ("three-vectors", [list(good_b), list(good_t), list(good_t)], "InvalidScoringScheme"),
        ("one-vector", [list(good_b)], "InvalidScoringScheme"),
        ("inner-tuple", [tuple(good_b), list(good_t)], "InvalidScoringScheme"),
        ("inner-tuple-2", [list(good_b), tuple(good_t)], "InvalidScoringScheme"),
        ("B-length-5", [good_b[:5], list(good_t)], "InvalidScoringScheme"),
        ("T-length-7", [list(good_b), good_t + [0]], "InvalidScoringScheme"),
        ("B-negative", [[0, 1, -1, 0, 1, 1], list(good_t)], "NonRealPositiveValuesScoringScheme"),
        ("T-negative", [list(good_b), [1, 1, 0, 1, 1, -0.5]], "NonRealPositiveValuesScoringScheme"),
        ("B-string", [[0, 1, "1", 0, 1, 1], list(good_t)], "NonRealPositiveValuesScoringScheme"),
        ("T-string", [list(good_b), [1, 1, 0, "1", 1, 0]], "NonRealPositiveValuesScoringScheme"),
        ("T-none", [list(good_b), [1, 1, 0, None, 1, 0]], "NonRealPositiveValuesScoringScheme"),
    ]
    for label, pen, exc in malformed:
        try:
            st, val = S.eval_constructor(proj, pen)
        except AnalysisError:
            raise
        res.check(st == "raise" and val == exc, "G1", f"ScoringScheme.__init__:malformed:{label}", init.loc(),
                  ok_detail=f"raises {exc}", bad_detail=f"gives {st} {val!r}, documented {exc}")
    # floats accepted as well as ints
    st, val = S.eval_constructor(proj, [[0., 1., 0.5, 0., 1., 0.5], [0.5, 0.5, 0., 0.5, 0.5, 0.]])
    res.check(st == "ok" and val == [[0., 1., 0.5, 0., 1., 0.5], [0.5, 0.5, 0., 0.5, 0.5, 0.]], "G1",
              "ScoringScheme.__init__:float-entries", init.loc(), ok_detail="float penalties accepted and stored",
              bad_detail=f"gives {st} {val!r}")

    # ------------------------------------------------------------------ G2
    mul = proj.method(cls, "__mul__")
    rmul = proj.method(cls, "__rmul__")
    res.saw(mul, rmul)
    _check_scaling_concrete(res, proj, cls, mul, rmul)
    for factor in (3, 2.5):
        sym_pen = [[Sym("B", (i,)) for i in range(6)], [Sym("T", (i,)) for i in range(6)]]
        captured = []

        def ctor(ev, call, captured=captured):
            args = [ev.ev(a) for a in call.args] + [ev.ev(k.value) for k in call.keywords]
            captured.append(args)
            return "NEW"
        evl = Evaluator({"self": Sym("self"), "self._penalty_vectors": sym_pen, "self.penalty_vectors": sym_pen,
                         mul.param_names[1]: factor}, funcs={"isinstance": S._isinstance, "ScoringScheme": ctor})
        try:
            ret = evl.run(mul.body_without_docstring())
        except AbsRaise as r:
            ret = f"raise {r.exc_name}"
        except Unsupported as exc:
            raise AnalysisError(f"{mul.qualname}: unsupported construct line {getattr(exc.node, 'lineno', '?')}: {exc}")
        want = [[Lin.of(Sym("B", (i,))) * factor for i in range(6)], [Lin.of(Sym("T", (i,))) * factor for i in range(6)]]
        good = ret == "NEW" and len(captured) == 1 and len(captured[0]) == 1 and \
            [[Lin.of(x) for x in row] for row in captured[0][0]] == want and not evl.effects
        res.check(good, "G2", f"ScoringScheme.__mul__:factor={factor}", mul.loc(),
                  ok_detail="returns ScoringScheme([[k*B[i]], [k*T[i]]]) and stores nothing on self",
                  bad_detail=f"returned {ret!r}, constructor args {captured!r}, effects {evl.effects!r}")
    check_equivalence(res, proj, ctx.thorough, "G3")

    # ------------------------------------------------------------------ G4 (evaluation on real instances)
    _check_presets(res, proj, cls)
    res.not_decided.append("homogeneity of Kemeny scores under scaling (linear algebra over vdot, not code shape)")
    res.not_decided.append("exactness of float ratios in the proportionality test")
    return res


def _check_presets(res: Result, proj, cls):
    """The preset builders and get_nickname evaluated on real ScoringScheme instances: each builder yields its
    documented table for several p; a scheme gets a preset's nickname iff it is a positive multiple of that preset with
    p = 1, and its own text otherwise."""
    from .datamodel import World
    w = World(proj)

    def vectors(inst):
        return [list(v) for v in inst.attrs["_penalty_vectors"]] if hasattr(inst, "attrs") and "_penalty_vectors" in inst.attrs else None
    for name, (table, nick) in PRESETS.items():
        m = proj.method(cls, name)
        res.saw(m)
        bad = None
        ps = (1.0, 0.5, 0.25) if m.explicit_params else (None,)
        for pv in ps:
            st, inst = w.safe(name, lambda: w.rt.call_static(cls, name, *([pv] if pv is not None else [])))
            want = [[float(x) for x in row] for row in table(pv if pv is not None else 1.0)]
            if st != "ok" or vectors(inst) != want:
                bad = bad or (pv, vectors(inst) if st == "ok" else inst, want)
        res.check(bad is None, "G4", f"preset:{name}", m.loc(), ok_detail=f"builds {table('p')}",
                  bad_detail=f"p={bad[0]}: builds {bad[1]!r}, documented {bad[2]}" if bad else "")
    for wname, target in P1_WRAPPERS.items():
        m = proj.method(cls, wname)
        res.saw(m)
        st, inst = w.safe(wname, lambda: w.rt.call_static(cls, wname))
        want = [[float(x) for x in row] for row in PRESETS[target][0](1.0)]
        res.check(st == "ok" and vectors(inst) == want, "G4", f"preset:{wname}", m.loc(), ok_detail=f"= {target}(1.)",
                  bad_detail=f"builds {vectors(inst) if st == 'ok' else inst!r}, {target}(1.) is {want}")
    nn = proj.method(cls, "get_nickname")
    res.saw(nn)
    for chosen in list(PRESETS) + [None]:
        bad = None
        if chosen is not None:
            base = [[float(x) for x in row] for row in PRESETS[chosen][0](1.0)]
            cases = [(f"{k} x {chosen}(1)", [[x * k for x in base[0]], [x * k for x in base[1]]], PRESETS[chosen][1])
                     for k in (1.0, 3.0, 0.5)]
        else:
            cases = [("unifying p=0.5", [[0., 1., .5, 0., 1., .5], [.5, .5, 0., .5, .5, 0.]], None),
                     ("generic", [[0., 2., 1., 1., 3., 4.], [1., 1., 0., 2., 2., 5.]], None),
                     ("B of the unifying scheme, T doubled", [[0., 1., 1., 0., 1., 1.], [2., 2., 0., 2., 2., 0.]], None)]
        for label, pen, want in cases:
            sch = w.rt.new(cls, [[list(pen[0]), list(pen[1])]], {})
            st, got = w.safe("get_nickname", w.call, sch, "get_nickname")
            if want is None:
                st2, want = w.safe("__str__", w.call, sch, "__str__")
            if st != "ok" or got != want:
                bad = bad or (label, got, want)
        res.check(bad is None, "G4", f"get_nickname:{chosen or 'other'}", nn.loc(),
                  ok_detail=f"-> {PRESETS[chosen][1] if chosen else 'the textual form'} ({len(cases)} schemes)",
                  bad_detail=f"{bad[0]}: returns {bad[1]!r}, expected {bad[2]!r}" if bad else "")


def _check_scaling_concrete(res: Result, proj, cls, mul, rmul):
    """scheme * k and k * scheme on real ScoringScheme instances: every penalty times the factor *exactly* (ordinary,
    tiny, huge and non-dyadic factors; penalties with many binary digits), a new object, the original untouched."""
    from .datamodel import World
    w = World(proj)
    tables = [[[0., 1., 1., 0., 1., 1.], [1., 1., 0., 1., 1., 0.]],
              [[0., 1., .5, 0., 1., .5], [.5, .5, 0., .5, .5, 0.]],
              [[0., 2., .125, 1., 3., 1 / 3], [.125, .125, 0., 2., 2., 5.]]]
    factors = [3, 2.5, 7, 2.0 ** -31, 1e-13, 1e9, 1 / 3, 0.1]
    bad = None
    n = 0
    for tbl in tables:
        for k in factors:
            for side in ("scheme * k", "k * scheme"):
                sch = w.rt.new(cls, [[list(tbl[0]), list(tbl[1])]], {})
                st, r = w.safe(side, w.call, sch, "__mul__" if side == "scheme * k" else "__rmul__", k)
                n += 1
                want = [[x * float(k) for x in tbl[0]], [x * float(k) for x in tbl[1]]]
                if st != "ok":
                    bad = bad or (tbl, k, side, f"raises {r}")
                    continue
                got = [list(v) for v in r.attrs["_penalty_vectors"]] if hasattr(r, "attrs") and "_penalty_vectors" in r.attrs else None
                if got != want:
                    bad = bad or (tbl, k, side, f"gives {got}, every penalty times the factor is {want}")
                elif r is sch or [list(v) for v in sch.attrs["_penalty_vectors"]] != tbl:
                    bad = bad or (tbl, k, side, "the original scheme was modified / returned")
    res.check(bad is None, "G2", "ScoringScheme.__mul__/__rmul__:exact-products", mul.loc(),
              ok_detail=f"{n} products (3 tables x {len(factors)} factors from 1e-13 to 1e9, both operand orders): exactly "
                        f"every penalty times the factor, new object",
              bad_detail=f"{bad[2]} with k={bad[1]!r} on {bad[0]}: {bad[3]}" if bad else "")


def check_equivalence(res: Result, proj, thorough: bool, rule: str):
    """G3 (shared with C10/K4, C12/B5, C14/A5): the equivalence test the applicability guards rely on."""
    cls = proj.cls(MOD, "ScoringScheme")
    # ------------------------------------------------------------------ G3
    gen = proj.lookup_method(cls, "__is_equivalent_to_generic") or proj.method(cls, "is_equivalent_to")
    res.saw(gen)
    pool = _pool(thorough)
    mism = {3: None, 6: None}
    count = 0
    for stop in (3, 6):
        for p1, p2 in itertools.product(pool, repeat=2):
            count += 1
            got = _eval_equiv(proj, p1, p2, stop)
            want = _proportional(p1, p2, stop)
            if got != want and mism[stop] is None:
                mism[stop] = (p1, p2, got, want)
    for stop in (3, 6):
        res.check(mism[stop] is None, rule, f"__is_equivalent_to_generic:stop={stop}", gen.loc(),
                  ok_detail=f"{len(pool) ** 2} ordered pairs of penalty tables agree with the definition",
                  bad_detail=(f"pen1={mism[stop][0]} pen2={mism[stop][1]}: code says {mism[stop][2]}, definition "
                              f"(positive multiple on both vectors, first {stop} entries) says {mism[stop][3]}")
                  if mism[stop] else "")
    res.extra["equivalence_pairs_evaluated"] = count
    # the two public tests on real instances: tables equal (up to a factor) on the first three entries of both vectors
    # and different afterwards separate "all six entries" from "the entries complete rankings use"
    from .datamodel import World
    w = World(proj)
    A = [[0., 1., 1., 0., 1., 1.], [1., 1., 0., 1., 1., 0.]]
    cases = [("same x2", [[0., 2., 2., 0., 2., 2.], [2., 2., 0., 2., 2., 0.]], True, True),
             ("tail differs", [[0., 2., 2., 0., 2., 0.], [2., 2., 0., 4., 4., 0.]], False, True),
             ("head differs", [[0., 2., 1., 0., 2., 2.], [2., 2., 0., 2., 2., 0.]], False, False),
             ("T scaled differently", [[0., 2., 2., 0., 2., 2.], [1., 1., 0., 1., 1., 0.]], False, False)]
    for name, col in (("is_equivalent_to", 2), ("is_equivalent_to_on_complete_rankings_only", 3)):
        m = proj.method(cls, name)
        res.saw(m)
        bad = None
        for label, other, *want in cases:
            s1 = w.rt.new(cls, [[list(A[0]), list(A[1])]], {})
            s2 = w.rt.new(cls, [[list(other[0]), list(other[1])]], {})
            for x, y, tag in ((s1, s2, "A vs " + label), (s2, s1, label + " vs A")):
                st, got = w.safe(name, w.call, x, name, y)
                if st != "ok" or bool(got) != want[col - 2]:
                    bad = bad or (tag, got, want[col - 2])
        stop = 6 if col == 2 else 3
        res.check(bad is None, rule, f"{name}:stop", m.loc(), ok_detail=f"compares the first {stop} entries of both vectors",
                  bad_detail=f"{bad[0]} (A = unifying, other = {[c for c in cases if c[0] in bad[0]][0][1]}): answers {bad[1]!r}, "
                             f"expected {bad[2]}" if bad else "")


def _pool(thorough: bool) -> List:
    base = [
        [[0, 1, 1, 0, 1, 1], [1, 1, 0, 1, 1, 0]],
        [[0, 2, 2, 0, 2, 2], [2, 2, 0, 2, 2, 0]],          # x2
        [[0, 1, 1, 0, 1, 1], [2, 2, 0, 2, 2, 0]],          # T differs only
        [[0, 1, 1, 0, 1, 1], [1, 1, 0, 2, 2, 0]],          # T tail differs only
        [[0, 1, 1, 0, 1, 1], [1, 1, 0, 1, 1, 1]],          # zero pattern of T differs
        [[0, 1, 1, 0, 1, 0], [1, 1, 0, 1, 1, 0]],          # B tail differs
        [[0, 2, 2, 0, 2, 0], [2, 2, 0, 2, 2, 0]],          # x2 of previous
        [[0, 1, 2, 0, 1, 1], [1, 1, 0, 1, 1, 0]],          # B head differs
        [[0, 1, 0, 0, 0, 0], [0, 0, 0, 0, 0, 0]],          # all-zero T
        [[0, 3, 0, 0, 0, 0], [0, 0, 0, 0, 0, 0]],
        [[0, 1, 0, 0, 0, 0], [1, 1, 0, 0, 0, 0]],
        [[0, 2, 1, 0, 0, 0], [1, 1, 0, 0, 0, 0]],          # B x2 on one entry, T x1
        [[0, 2, 2, 0, 2, 2], [1, 1, 0, 1, 1, 0]],          # B x2, T x1
    ]
    # the relation is scale-free: tiny and huge multiples (and non-multiples with the same zero pattern at that scale)
    half = [[[0, 1, .5, 0, 1, .5], [.5, .5, 0, .5, .5, 0]], [[0, 1, .5, 0, 1, 0], [.5, .5, 0, .5, .5, 0]],
            [[0, 1, .75, 0, 1, 0], [.75, .75, 0, .75, .75, 0]]]
    for tbl in [base[0], base[5], base[7]] + half:
        for factor in (2.0 ** -34, 2.0 ** 40):
            base.append([[x * factor for x in tbl[0]], [x * factor for x in tbl[1]]])
    base.extend(half)
    if thorough:
        for b2, t0, t3, b5 in itertools.product((0, 1, 2), repeat=4):
            base.append([[0, 1, b2, 0, 1, b5], [t0, t0, 0, t3, t3, 0]])
    return base


def _proportional(p1, p2, stop) -> bool:
    coef = None
    for v in range(2):
        for i in range(stop):
            a, b = p1[v][i], p2[v][i]
            if a == 0 or b == 0:
                if a != b:
                    return False
                continue
            r = Fraction(a) / Fraction(b)
            if coef is None:
                coef = r
            elif r != coef:
                return False
    return True


_EQ_WORLD = {}


def _eval_equiv(proj, p1, p2, stop):
    """The public equivalence tests on two ScoringScheme instances whose stored vectors are p1 / p2 (set directly: the
    pool contains tables the validating constructor would refuse; the relation is defined on any pair of tables)."""
    from .datamodel import World
    from ..engines.instances import Instance
    if _EQ_WORLD.get("proj") is not proj:
        _EQ_WORLD.clear()
        _EQ_WORLD.update(proj=proj, w=World(proj), cls=proj.cls(MOD, "ScoringScheme"))
    w, cls = _EQ_WORLD["w"], _EQ_WORLD["cls"]
    s1, s2 = Instance(w.rt, cls), Instance(w.rt, cls)
    s1.attrs["_penalty_vectors"] = [list(map(float, p1[0])), list(map(float, p1[1]))]
    s2.attrs["_penalty_vectors"] = [list(map(float, p2[0])), list(map(float, p2[1]))]
    name = "is_equivalent_to" if stop == 6 else "is_equivalent_to_on_complete_rankings_only"
    try:
        return w.rt.call_method(s1, name, s2)
    except Unsupported as exc:
        raise AnalysisError(f"ScoringScheme.{name}: unsupported construct line {getattr(exc.node, 'lineno', '?')}: {exc}")

"""
Shared abstract evaluation of corankco.scoringscheme.ScoringScheme (used by C19, and by C01 / C11 for the
constraints the constructor enforces).
"""
from __future__ import annotations

import ast
import itertools
import math
from fractions import Fraction
from typing import Dict, List, Optional, Tuple

from ..loader import AnalysisError, Project, src
from ..engines.abseval import Evaluator, Sym, Lin, Unsupported, AbsRaise

MOD = "corankco.scoringscheme"
PY_TYPES = {"list": list, "float": float, "int": int, "str": str, "tuple": tuple, "dict": dict, "bool": bool}


def _isinstance(ev, call):
    v = ev.ev(call.args[0])
    t = call.args[1]
    names = [e for e in t.elts] if isinstance(t, ast.Tuple) else [t]
    tys = []
    for nm in names:
        if not (isinstance(nm, ast.Name) and nm.id in PY_TYPES):
            raise Unsupported("isinstance against a non-builtin type", call)
        tys.append(PY_TYPES[nm.id])
    if isinstance(v, (Sym, Lin)):
        raise Unsupported("isinstance of symbolic", call)
    if isinstance(v, Fraction):
        return float in tys or int in tys
    return isinstance(v, tuple(tys))


def _isnan(ev, call):
    v = ev.ev(call.args[0])
    if isinstance(v, (Sym, Lin)):
        raise Unsupported("isnan of symbolic", call)
    return isinstance(v, float) and math.isnan(v)


def eval_constructor(proj: Project, penalties):
    """Returns ('ok', stored_value) or ('raise', exception_name)."""
    cls = proj.cls(MOD, "ScoringScheme")
    init = proj.method(cls, "__init__")
    pname = init.param_names[1]
    evl = Evaluator({pname: penalties, "self": Sym("self")}, funcs={"isinstance": _isinstance})
    try:
        evl.run(init.body_without_docstring())
    except AbsRaise as r:
        return ("raise", r.exc_name.split(".")[-1])
    except Unsupported as exc:
        raise AnalysisError(f"{init.qualname}: unsupported construct at line {getattr(exc.node, 'lineno', '?')}: {exc}")
    stored = [e for e in evl.effects if e.target == ("self", "._penalty_vectors") and e.op == "="]
    if len(stored) != 1:
        raise AnalysisError(f"{init.qualname}: expected exactly one store to self._penalty_vectors, found {len(stored)}")
    return ("ok", stored[0].value)


def spec_accepts(b: List, t: List) -> bool:
    return b[0] == 0 and b[1] > 0 and b[3] <= b[4] and t[0] == t[1] and t[2] == 0 and t[3] == t[4]


PAIR_TYPES = [(0, 0), (0, 1), (1, 0), (1, 1), (1, 2), (2, 1)]


def grid(thorough: bool):
    """(B, T) integer vectors covering every order type of the entries the validation mentions."""
    singles = (0, 1, 2) if thorough else (0, 1)
    pairs = list(itertools.product((0, 1, 2), repeat=2)) if thorough else PAIR_TYPES
    for b0, b1, t2 in itertools.product(singles, repeat=3):
        for (b3, b4), (t0, t1), (t3, t4) in itertools.product(pairs, repeat=3):
            yield [b0, b1, 1, b3, b4, 2], [t0, t1, t2, t3, t4, 1]


_CACHE: Dict[int, Dict[str, bool]] = {}


def enforced_constraints(proj: Project) -> Dict[str, bool]:
    """Which documented constraints the constructor enforces *today* (decided on the quick grid):
    keys 'B0=0', 'B1>0', 'B3<=B4', 'T0=T1', 'T2=0', 'T3=T4'."""
    if id(proj) in _CACHE:
        return _CACHE[id(proj)]
    preds = {
        "B0=0": lambda b, t: b[0] == 0, "B1>0": lambda b, t: b[1] > 0, "B3<=B4": lambda b, t: b[3] <= b[4],
        "T0=T1": lambda b, t: t[0] == t[1], "T2=0": lambda b, t: t[2] == 0, "T3=T4": lambda b, t: t[3] == t[4],
    }
    enforced = {k: True for k in preds}
    for b, t in grid(False):
        st, _ = eval_constructor(proj, [list(b), list(t)])
        if st == "ok":
            for k, p in preds.items():
                if not p(b, t):
                    enforced[k] = False
    _CACHE[id(proj)] = enforced
    return enforced


def normalise_scheme_lin(v, enforced: Dict[str, bool]):
    """Rewrite a linear form over B[i] / T[i] modulo the equalities the constructor enforces."""
    if not isinstance(v, (Lin, Sym)):
        return v
    v = Lin.of(v)
    out: Dict[Sym, object] = {}
    for s, c in v.terms.items():
        if s.name == "T" and s.idx == (1,) and enforced.get("T0=T1"):
            s = Sym("T", (0,))
        elif s.name == "T" and s.idx == (4,) and enforced.get("T3=T4"):
            s = Sym("T", (3,))
        elif s.name == "B" and s.idx == (0,) and enforced.get("B0=0"):
            continue
        elif s.name == "T" and s.idx == (2,) and enforced.get("T2=0"):
            continue
        out[s] = out.get(s, 0) + c
    return Lin(out, v.const)

"""
C08 - BioConsert returns a local optimum.

All rules are decided by abstract evaluation of `_improve_one_ranking` (and the five kernels it calls) on every dense
bucket-id vector of a small universe with a symbolic cost matrix (see rules/bioc.py):

L1  fix-point protocol: with no acceptable move the search stops after exactly one full sweep over all elements and
    returns 0; after an accepted move it finishes the sweep and runs at least one more full sweep.
L2  both neighbourhoods are searched for every element (join-a-bucket, then new-bucket when the first finds nothing).
L3  every acceptance test is `delta < c` with -0.001 <= c < 0.
L4  candidate coverage: the examined targets are exactly all other existing buckets and all new-bucket positions
    whose move is not a no-op.
L5  delta encoding: the accumulated value tested for a target equals the definitional change of the Kemeny score
    for that move (sum over the other elements of cost(new relation) - cost(old relation)).
L6  bookkeeping of the highest bucket id: after an accepted move the following sweeps examine exactly what a fresh
    search on the new vector examines.
L7  renumbering: an accepted move turns the vector into the dense vector of the intended ranking; no array is
    indexed out of range (negative indices included).
S3  (shared with C04) the returned delta is the sum of the accepted tests' values.
"""
from __future__ import annotations

import os
from concurrent.futures import ProcessPoolExecutor
from typing import Dict, List, Tuple

from ..loader import AnalysisError, Project
from ..report import Result
from ..engines.abseval import Lin
from . import bioc

QUICK_N4 = [[0, 0, 1, 1], [0, 1, 1, 2], [0, 0, 0, 1], [1, 0, 0, 0], [2, 1, 1, 0], [0, 1, 2, 3], [3, 2, 1, 0],
            [0, 0, 0, 0], [1, 0, 1, 0], [1, 1, 0, 2], [0, 2, 1, 1], [2, 0, 2, 1]]


# larger universes (6-7 elements): big buckets, many buckets, element in first / last / middle bucket
LARGER = [[0, 0, 0, 1, 1, 2], [5, 4, 3, 2, 1, 0], [0, 1, 1, 1, 2, 3], [2, 2, 0, 1, 3, 3], [0, 0, 0, 0, 0, 1],
          [1, 0, 2, 0, 1, 2, 3], [0, 1, 2, 3, 4, 5, 6], [3, 3, 3, 2, 1, 0, 0]]
LARGER_THOROUGH = [[0, 2, 4, 1, 3, 5, 2], [4, 4, 4, 4, 0, 1, 2, 3], [0, 0, 1, 1, 2, 2, 3, 3], [6, 5, 4, 3, 2, 1, 0]]


def analyse_vector(sim: bioc.BioSim, r0: List[int], cache: Dict[Tuple, List]) -> List[Tuple[str, str, str]]:
    """Returns a list of (rule, key-suffix, detail) problems for start vector r0 (empty = all obligations hold)."""
    problems: List[Tuple[str, str, str]] = []
    n = len(r0)
    base = sim.simulate(r0, None)
    tag = f"r={r0}"
    if base.index_error:
        return [("L7", "index", f"{tag}: array indexed out of range ({base.index_error})")]
    if base.halted:
        return [("L1", "termination", f"{tag}: search does not stop although no move is acceptable")]
    deltas = [e for e in base.events if e["kind"] == "delta"]
    if [e["elem"] for e in deltas] != list(range(n)):
        problems.append(("L1", "sweep", f"{tag}: with no acceptable move the sweep visits elements "
                                        f"{[e['elem'] for e in deltas]}, expected exactly one pass over 0..{n - 1}"))
    if base.ret != 0 and base.ret != Lin():
        problems.append(("S3", "zero", f"{tag}: returns {base.ret!r} although no move was applied"))
    if base.final != r0:
        problems.append(("L7", "nomove", f"{tag}: vector changed to {base.final} although no move was accepted"))
    # L2: per element, one change-search and one add-search
    searches = [e["fn"] for e in base.events if e["kind"] == "search"]
    if searches != ["_search_to_change_bucket", "_search_to_add_bucket"] * n:
        problems.append(("L2", "both-neighbourhoods", f"{tag}: searches run {searches}"))
    for e in base.events:
        if e["kind"] == "delta" and e["bucket_arg"] != e["r"][e["elem"]]:
            problems.append(("L5", "bucket-arg", f"{tag}: delta costs of element {e['elem']} computed for bucket "
                                                 f"{e['bucket_arg']}, element is in {e['r'][e['elem']]}"))
        if e["kind"] == "search" and e["max_arg"] != max(r0):
            problems.append(("L6", "max-arg", f"{tag}: search told the highest bucket id is {e['max_arg']}, "
                                              f"it is {max(r0)}"))
    # L3
    for e in base.events:
        if e["kind"] == "cmp" and not (e["op"] == "Lt" and -0.001 <= e["const"] < 0):
            problems.append(("L3", "threshold", f"{tag}: acceptance test `delta {e['op']} {e['const']}` at line "
                                                f"{e['line']}"))
    cache[tuple(r0)] = bioc.sweep_signature(base.events)
    # candidates per element
    seen: Dict[int, Dict[str, set]] = {e: {"change": set(), "add": set()} for e in range(n)}
    for k in range(base.n_cmp):
        tr = sim.simulate(r0, k)
        if tr.index_error:
            problems.append(("L7", "index", f"{tag} accepting test #{k}: array indexed out of range ({tr.index_error})"))
            continue
        if tr.halted:
            problems.append(("L1", "termination", f"{tag} accepting test #{k}: search does not stop"))
            continue
        moves = [e for e in tr.events if e["kind"] == "move"]
        cmp_ev = [e for e in tr.events if e["kind"] == "cmp" and e["idx"] == k][0]
        if len(moves) != 1:
            problems.append(("L1", "move-applied", f"{tag}: accepting test #{k} (line {cmp_ev['line']}) applies "
                                                   f"{len(moves)} moves"))
            continue
        mv = moves[0]
        e_, to = mv["elem"], mv["to"]
        kind = "change" if mv["fn"] == "_change_bucket" else "add"
        if mv["old"] != r0[e_] or mv["n_arg"] != n or mv["alone"] != (1 if r0.count(r0[e_]) == 1 else 0):
            problems.append(("L7", "move-args", f"{tag}: move of element {e_} called with old={mv['old']} n={mv['n_arg']} "
                                                f"alone={mv['alone']}"))
        if kind == "change":
            valid = 0 <= to <= max(r0) and to != r0[e_]
            want_delta = bioc.delta_change(r0, e_, to) if valid else None
            want_after = bioc.after_change(r0, e_, to) if valid else None
        else:
            valid = 0 <= to <= max(r0) + 1
            want_delta = bioc.delta_add(r0, e_, to) if valid else None
            want_after = bioc.after_add(r0, e_, to) if valid else None
        if not valid:
            problems.append(("L4", "target-range", f"{tag}: element {e_} {kind} target {to} is not a valid target"))
            continue
        seen[e_][kind].add(to)
        if cmp_ev["lin"] != want_delta:
            problems.append(("L5", f"delta-{kind}", f"{tag}: element {e_} (bucket {r0[e_]}) {kind} target {to}: tested "
                                                    f"value {cmp_ev['lin']!r}, definitional delta {want_delta!r} "
                                                    f"(C[k] = flattened cost slot k, n={n})"))
        if mv["after"] != want_after:
            problems.append(("L7", f"renumber-{kind}", f"{tag}: element {e_} {kind} target {to}: vector becomes "
                                                       f"{mv['after']}, intended ranking is {want_after}"))
            continue
        if tr.ret != cmp_ev["lin"]:
            problems.append(("S3", "accumulated", f"{tag}: after accepting one move of value {cmp_ev['lin']!r} the "
                                                  f"search returns {tr.ret!r}"))
        # L1 / L6: what follows the move
        idx_move = tr.events.index(mv)
        rest = tr.events[idx_move + 1:]
        rest_deltas = [x["elem"] for x in rest if x["kind"] == "delta"]
        want_rest = list(range(e_ + 1, n)) + list(range(n))
        if rest_deltas != want_rest:
            problems.append(("L1", "resweep", f"{tag}: after moving element {e_} the search visits {rest_deltas}, "
                                              f"expected the rest of the sweep and one more full sweep {want_rest}"))
            continue
        # the last full sweep must look exactly like a fresh search on the new vector
        last_start = max(i for i, x in enumerate(rest) if x["kind"] == "delta" and x["elem"] == 0)
        last = bioc.sweep_signature(rest[last_start:])
        r1 = mv["after"]
        if tuple(r1) not in cache:
            fresh = sim.simulate(r1, None)
            cache[tuple(r1)] = bioc.sweep_signature(fresh.events)
        if last != cache[tuple(r1)]:
            diff = next((i for i, (a, b) in enumerate(zip(last, cache[tuple(r1)])) if a != b), min(len(last), len(cache[tuple(r1)])))
            problems.append(("L6", "max-id-after-move",
                             f"{tag}: after {kind} of element {e_} to {to} (vector {r1}) the next sweep differs from a "
                             f"fresh search on {r1} at step {diff}: "
                             f"{last[diff] if diff < len(last) else 'end'} vs "
                             f"{cache[tuple(r1)][diff] if diff < len(cache[tuple(r1)]) else 'end'}"))
    # L1 with two accepted moves in different sweeps - explored only when the search compares cost-dependent values with
    # each other (a relative stopping rule ...): whatever such a comparison answers, a sweep in which an element moved
    # must be followed by another full sweep
    problems.extend(_relative_exits(sim, r0, base, tag))
    # L4 coverage
    for e_ in range(n):
        b = r0[e_]
        alone = r0.count(b) == 1
        want_change = {t for t in range(max(r0) + 1) if t != b}
        # new-bucket targets whose delta is identically zero (no-op moves) are compared as constants, not listed
        want_add = set()
        for t in range(max(r0) + 2):
            if bioc.delta_add(r0, e_, t) != Lin():
                want_add.add(t)
        want_change = {t for t in want_change if bioc.delta_change(r0, e_, t) != Lin()}
        if seen[e_]["change"] != want_change:
            problems.append(("L4", "coverage-change", f"{tag}: element {e_} (bucket {b}): join-bucket targets examined "
                                                      f"{sorted(seen[e_]['change'])}, all other buckets are {sorted(want_change)}"))
        if seen[e_]["add"] != want_add:
            problems.append(("L4", "coverage-add", f"{tag}: element {e_} (bucket {b}, alone={alone}): new-bucket positions "
                                                   f"examined {sorted(seen[e_]['add'])}, effective positions are {sorted(want_add)}"))
    return problems


def _relative_exits(sim: bioc.BioSim, r0: List[int], base, tag: str) -> List[Tuple[str, str, str]]:
    n = len(r0)
    out: List[Tuple[str, str, str]] = []
    probe = None
    budget = 24
    for i in range(base.n_cmp):
        t1 = sim.simulate(r0, i)
        if t1.halted or t1.index_error:
            continue
        moves = [e for e in t1.events if e["kind"] == "move"]
        if len(moves) != 1:
            continue
        k_move = t1.events.index(moves[0])
        # acceptance tests of the sweep after the one in which the move happened
        later = t1.events[k_move + 1:]
        starts = [k for k, x in enumerate(later) if x["kind"] == "delta" and x["elem"] == 0]
        if not starts:
            continue
        cands = [x["idx"] for x in later[starts[0]:] if x["kind"] == "cmp"]
        for j in cands[:3]:
            for choice in (True, False):
                if budget <= 0:
                    return out
                budget -= 1
                t2 = sim.simulate(r0, (i, j), free_choice=choice)
                if probe is None:
                    probe = bool(t2.free) or bool(t1.free)
                    if not probe and not t2.free:
                        # no comparison between cost-dependent values anywhere: nothing more to explore
                        pass
                if not t2.free:
                    continue
                if t2.halted:
                    out.append(("L1", "termination", f"{tag}: accepting tests #{i} and #{j}: search does not stop"))
                    return out
                mv = [e for e in t2.events if e["kind"] == "move"]
                if len(mv) != 2:
                    continue
                rest = t2.events[t2.events.index(mv[-1]) + 1:]
                rest_deltas = [x["elem"] for x in rest if x["kind"] == "delta"]
                want_rest = list(range(mv[-1]["elem"] + 1, n)) + list(range(n))
                if rest_deltas != want_rest:
                    fr = t2.free[-1]
                    out.append(("L1", "relative-exit",
                                f"{tag}: with a first move of element {mv[0]['elem']} and, in a later sweep, a move of element "
                                f"{mv[1]['elem']}, the comparison at line {fr['line']} (a combination {fr['coef']} of the two "
                                f"gains, which holds or not depending on their magnitudes) answering {fr['outcome']} ends the "
                                f"search after visiting {rest_deltas}: a sweep in which an element moved must be followed by "
                                f"a full sweep {want_rest}, otherwise the returned ranking may still be improvable"))
                    return out
        if probe is False:
            return out
    return out


def _worker(args):
    vectors = args
    proj = Project(overlay=_OVERLAY)
    sim = bioc.BioSim(proj)
    cache: Dict[Tuple, List] = {}
    out = []
    for r0 in vectors:
        out.append((r0, analyse_vector(sim, r0, cache)))
    return out


_OVERLAY = None


def vectors_for(thorough: bool) -> List[List[int]]:
    vs: List[List[int]] = []
    for n in (1, 2, 3):
        vs.extend(bioc.dense_vectors(n))
    vs.extend(bioc.dense_vectors(4))
    if thorough:
        vs.extend(bioc.dense_vectors(5))
    vs.extend(LARGER if not thorough else LARGER + LARGER_THOROUGH)
    return vs


def local_search_problems(proj: Project, thorough: bool):
    """(vectors analysed, {(rule, suffix): (first detail, count)})"""
    global _OVERLAY
    _OVERLAY = proj.overlay
    vectors = vectors_for(thorough)
    results = []
    if len(vectors) > 40:
        chunks = [vectors[i::16] for i in range(16)]
        with ProcessPoolExecutor(max_workers=min(16, os.cpu_count() or 1)) as ex:
            for part in ex.map(_worker, chunks):
                results.extend(part)
    else:
        results = _worker(vectors)
    agg: Dict[Tuple[str, str], Tuple[str, int]] = {}
    for r0, problems in results:
        for rule, suffix, detail in problems:
            key = (rule, suffix)
            if key in agg:
                agg[key] = (agg[key][0], agg[key][1] + 1)
            else:
                agg[key] = (detail, 1)
    return vectors, agg


RULES = {
    "L1": ("fix-point protocol of the sweep (stop only after a full pass without move)", ["termination", "sweep", "move-applied", "resweep", "relative-exit"]),
    "L2": ("both neighbourhoods searched for every element", ["both-neighbourhoods"]),
    "L3": ("acceptance thresholds are `delta < c`, -0.001 <= c < 0", ["threshold"]),
    "L4": ("every other bucket and every effective new-bucket position is examined", ["target-range", "coverage-change", "coverage-add"]),
    "L5": ("tested value = definitional move delta (symbolic costs)", ["bucket-arg", "delta-change", "delta-add"]),
    "L6": ("highest-bucket bookkeeping: sweeps after a move equal a fresh search on the new vector", ["max-arg", "max-id-after-move"]),
    "L7": ("accepted move yields the dense vector of the intended ranking; no out-of-range index", ["index", "nomove", "move-args", "renumber-change", "renumber-add"]),
    "S3": ("returned delta = sum of accepted test values", ["zero", "accumulated"]),
}


def fill_result(res: Result, proj: Project, thorough: bool, only=None):
    sim = bioc.BioSim(proj)
    for f in sim.fn.values():
        res.saw(f)
    vectors, agg = local_search_problems(proj, thorough)
    loc = sim.fn["_improve_one_ranking"].loc()
    for rule, (text, suffixes) in RULES.items():
        if only is not None and rule not in only:
            continue
        res.rule(rule, text, len(suffixes))
        for sfx in suffixes:
            key = f"bioconsert-local-search:{rule}:{sfx}"
            if (rule, sfx) in agg:
                detail, cnt = agg[(rule, sfx)]
                res.bad(rule, key, loc, f"{detail} [{cnt} case(s) over {len(vectors)} start vectors]")
            else:
                res.ok(rule, key, loc, f"holds on all {len(vectors)} dense start vectors (n <= {max(len(v) for v in vectors)})")
    res.extra["start_vectors"] = len(vectors)
    res.extra["max_universe"] = max(len(v) for v in vectors)
    return vectors


def run(ctx) -> Result:
    res = Result("C08")
    fill_result(res, ctx.proj, ctx.thorough)
    from . import C04
    res.rule("L8", "the row the search stopped on is the ranking returned: decoding of a 290-bucket row", 1)
    C04.check_decode_large(res, ctx.proj, "L8")
    res.assumptions.append("numba nopython mode preserves Python semantics of the kernels; behaviour depends on bucket "
                           "ids only through comparisons and +-1 shifts, so universes of <= 4 elements realise every "
                           "guard combination (alone / not alone, first / last bucket, neighbours of size 1 / >1)")
    res.not_decided.append("floating-point accumulation error of the delta arrays")
    if not res.violations:      # the end-to-end pass adds nothing to an established violation (and may not terminate on it)
        from . import e2e
        e2e.check(res, ctx.proj, "C08", ctx.thorough)
    return res

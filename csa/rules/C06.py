"""
C06 - ParCons: partition / optimality flag.

P1  flag typestate: the real ParCons.compute_consensus_rankings abstractly evaluated on component scenarios (scripted
    graph components and cost cube, stub sub-solvers): NECESSARILY_OPTIMAL is True iff no component was delegated to the
    auxiliary algorithm - whatever the order in which exact and auxiliary components occur.
P2  who may assert optimality (structural): the literal True is stored under NECESSARILY_OPTIMAL only by the exact
    back-ends; every other producer stores a variable decided by P1-style evaluation; the default is False.
P3  the reported weak partition lists the components in order through the dataset's id map and the consensus
    consists of each component's buckets, contiguous, in the same order.
P4  arc / all-tied predicates in normal form (shared with C05/X5, C07/Q1); the graph is built from the dataset's
    positions and the given scheme.
P5  exact sub-solver availability: ParCons() picks the free solver when `import cplex` fails, the CPLEX model when it
    succeeds; sub-solvers are called on (sub-problem, caller's scheme, at most one ranking).
P6  cost-preserving projection: the sub-problem handed to a sub-solver keeps one (possibly empty) ranking per input
    ranking, and exactly the component's elements.
"""
from __future__ import annotations

import ast
from typing import Dict, List

from ..loader import AnalysisError, Project, src, dotted
from ..report import Result
from ..engines.abseval import Unsupported, AbsRaise
from . import pairwise
from .ilp import ALG, ExactWorld, cost_cube
from .C05 import _safe, _raw


def _world(proj: Project, cplex_present: bool, n: int, sccs, tied_components):
    """ExactWorld whose cube makes exactly the components in `tied_components` all-tiable."""
    w = ExactWorld(proj, cplex_present)
    cube = cost_cube(n)
    for comp in sccs:
        for i in comp:
            for j in comp:
                if i < j:
                    if tuple(comp) in tied_components:
                        t = min(cube.data[i][j][0], cube.data[i][j][1]) - 1.0
                    else:
                        t = min(cube.data[i][j][0], cube.data[i][j][1]) + 5.0
                    cube.data[i][j][2] = t
                    cube.data[j][i][2] = t
    w.cube = cube
    w.sccs = sccs
    return w


def _stub_solvers(w: ExactWorld, log: List):
    """Replace every algorithm's compute by a stub returning the sub-problem's elements one per bucket, sorted."""
    proj = w.proj
    CONS = proj.cls("corankco.consensus", "Consensus")

    def make(tag):
        def stub(args, kw):
            me, ds, scheme = args[0], args[1], args[2]
            flag = args[3] if len(args) > 3 else kw.get("return_at_most_one_ranking")
            uni = sorted(w.rt.call_method(ds, "universe"), key=lambda e: repr(e.attrs["_value"]))
            raws = [[{("str" if e.attrs["_type"] is str else "int", e.attrs["_value"]) for e in b}
                     for b in r.attrs["_buckets"]] for r in ds.attrs["_rankings"]]
            log.append({"solver": tag, "class": me.cls.name, "rankings": raws, "scheme": scheme, "flag": flag,
                        "universe": [e.attrs["_value"] for e in uni]})
            rk = w.rt.new(w.R, [[{e} for e in reversed(uni)]], {})
            return w.rt.new(CONS, [[rk]], {"dataset": ds, "scoring_scheme": scheme})
        return stub
    for mod, cls in (("exact.exactalgorithmpulp", "ExactAlgorithmPulp"), ("exact.exactalgorithmcplex", "ExactAlgorithmCplex"),
                     ("borda.borda", "BordaCount")):
        c = proj.cls(f"{ALG}.{mod}", cls)
        w.rt.overrides[proj.method(c, "compute_consensus_rankings").qualname] = make("exact" if "exact" in mod else "aux")


# ids e0..e4 = 0..4; the last ranking misses every non-trivial component of the scenarios below
RAWS5 = [[{"e0"}, {"e1"}, {"e2"}, {"e3"}, {"e4"}], [{"e4"}, {"e0", "e1"}], [{"e2"}, {"e3"}, {"e4"}, {"e0"}], [{"e0"}]]


def _feature(cons, needle: str):
    for k, v in cons.attrs["_att"].items():
        text = str(getattr(k, "attrs", {}).get("value", k)) if hasattr(k, "attrs") else str(k)
        if needle in text:
            return v
    return None


def run(ctx) -> Result:
    res = Result("C06")
    proj = ctx.proj
    PCcls = proj.cls(ALG + ".parcons.parcons", "ParCons")
    comp = proj.method(PCcls, "compute_consensus_rankings")
    res.saw(comp, proj.method(PCcls, "__init__"))
    res.rule("P1", "optimality flag is True iff no component was delegated to the auxiliary algorithm", 5)
    res.rule("P2", "only the exact back-ends store a literal True under NECESSARILY_OPTIMAL; default False", 4)
    res.rule("P3", "weak partition = components in order; consensus = component buckets, contiguous, same order", 5)
    res.rule("P4", "arc / all-tied predicates in normal form; graph built from the dataset's positions and scheme", 3)
    res.rule("P5", "exact sub-solver selection and sub-solver call arguments", 3)
    res.rule("P6", "projection handed to sub-solvers keeps every input ranking and exactly the component's elements", 5)
    BORDA = proj.cls(ALG + ".borda.borda", "BordaCount")
    scenarios = [
        # label, sccs, all-tiable components, bound_for_exact, expected delegated (per non-trivial component)
        ("all-trivial", [[0], [1, 2], [3, 4]], {(0,), (1, 2), (3, 4)}, 1, []),
        ("exact-only", [[0], [1, 2], [3, 4]], {(0,)}, 2, ["exact", "exact"]),
        ("aux-only", [[0], [1, 2], [3, 4]], {(0,)}, 1, ["aux", "aux"]),
        ("exact-then-aux", [[1, 2], [0, 3, 4]], set(), 2, ["exact", "aux"]),
        ("aux-then-exact", [[0, 3, 4], [1, 2]], set(), 2, ["aux", "exact"]),
    ]
    for label, sccs, tied, bound, want_solvers in scenarios:
        w = _world(proj, False, 5, sccs, tied)
        log: List = []
        _stub_solvers(w, log)
        ds = w.dataset(RAWS5)
        sch = w.scheme()
        st, pc = _safe("ParCons()", lambda: w.rt.new(PCcls, [], {"auxiliary_algorithm": w.rt.new(BORDA, [], {}),
                                                                 "bound_for_exact": bound}))
        st, c = _safe("ParCons.compute_consensus_rankings",
                      lambda: w.rt.call_method(pc, "compute_consensus_rankings", ds, sch, True))
        if st != "ok":
            res.bad("P1", f"ParCons:{label}:flag", comp.loc(), f"evaluation raised {c}")
            continue
        flag = _feature(c, "necessarily optimal")
        want_flag = "aux" not in want_solvers
        got_solvers = [e["solver"] for e in log]
        res.check(flag is want_flag and got_solvers == want_solvers, "P1", f"ParCons:{label}:flag", comp.loc(),
                  ok_detail=f"sub-solvers {got_solvers or 'none'} -> necessarily optimal = {flag}",
                  bad_detail=f"components {sccs} (all-tiable {sorted(tied)}), bound {bound}: sub-solvers called "
                             f"{got_solvers} (expected {want_solvers}), flag {flag!r} (expected {want_flag})")
        # P3
        wp = _feature(c, "weak partitioning")
        want_wp = [{f"e{i}" for i in comp_} for comp_ in sccs]
        got_wp = [{e.attrs["_value"] for e in g} for g in wp] if isinstance(wp, list) else None
        cons = [[v for _t, v in sorted(b)] for b in _raw(w, c.attrs["_consensus_rankings"][0])]
        want_cons = []
        for comp_ in sccs:
            names = sorted(f"e{i}" for i in comp_)
            if tuple(comp_) in tied:
                want_cons.append(names)
            else:
                want_cons.extend([[x] for x in reversed(names)])
        res.check(got_wp == want_wp and cons == want_cons, "P3", f"ParCons:{label}:partition-and-consensus", comp.loc(),
                  ok_detail="weak partition = components in order; consensus = their buckets in the same order",
                  bad_detail=f"components {sccs}: weak partition {got_wp} (expected {want_wp}); consensus {cons} "
                             f"(expected {want_cons}, stub solvers answer reverse-sorted singletons)")
        # P5 / P6 on the calls
        for e in log:
            comp_names = None
            for comp_ in sccs:
                if sorted(f"e{i}" for i in comp_) == sorted(e["universe"]):
                    comp_names = sorted(e["universe"])
            ok_args = e["scheme"] is sch and e["flag"] is True
            keep = {("str", x) for x in (comp_names or [])}
            want_rankings = [[b & keep for b in [{("str", v) for v in bucket} for bucket in r] if b & keep] for r in RAWS5]
            ok_proj = comp_names is not None and e["rankings"] == want_rankings
            if label in ("exact-only", "aux-only", "exact-then-aux"):
                res.check(ok_proj, "P6", f"ParCons:{label}:{e['solver']}:{comp_names}:projection", comp.loc(),
                          ok_detail=f"{len(want_rankings)} rankings (one per input ranking, empty ones kept) over exactly "
                                    f"the component",
                          bad_detail=f"component {comp_names}: sub-problem rankings {e['rankings']}, expected "
                                     f"{want_rankings} (a ranking that misses the whole component still charges B[5]/T[5])")
            if not ok_args:
                res.bad("P5", f"ParCons:{label}:{e['solver']}:call-args", comp.loc(),
                        f"sub-solver called with scheme {e['scheme']!r} / at-most-one {e['flag']!r}")
        if w.graph_calls:
            a = w.graph_calls[0]
            res.check(len(a) >= 2 and a[1] is sch, "P4", f"ParCons:{label}:graph-inputs", comp.loc(),
                      ok_detail="graph of elements built from the dataset's positions and the caller's scheme",
                      bad_detail=f"graph built from {a!r}", nontrivial=False)
    # P5 selection
    for present, want in ((False, "ExactAlgorithmPulp"), (True, "ExactAlgorithmCplexForPaperOptim1")):
        w = ExactWorld(proj, present)
        st, pc = _safe("ParCons()", lambda: w.rt.new(PCcls, [], {}))
        got = pc.attrs.get("_exact_alg").cls.name if st == "ok" and pc.attrs.get("_exact_alg") is not None else None
        res.check(got == want, "P5", f"ParCons.__init__:cplex={'present' if present else 'absent'}",
                  proj.method(PCcls, "__init__").loc(), ok_detail=f"exact sub-solver {want}",
                  bad_detail=f"exact sub-solver {got!r} ({st} {pc if st != 'ok' else ''}), expected {want}")
    res.ok("P5", "ParCons:sub-solver-call-arguments", comp.loc(), "(sub-problem, caller's scheme, True) in every scenario")
    # P2
    _check_optimal_setters(res, proj)
    pairwise.check_graph_predicates(res, proj, "P4", None, "P4")
    pairwise.check_graph_wiring(res, proj, "P4")
    res.not_decided.append("that some optimal consensus respects the ParCons partition, and that concatenating component "
                           "optima is optimal (theorems over costs; igraph's component order is trusted)")
    if not res.violations:      # the end-to-end pass adds nothing to an established violation (and may not terminate on it)
        from . import e2e
        e2e.check(res, ctx.proj, "C06", ctx.thorough)
    return res


def _check_optimal_setters(res: Result, proj: Project):
    # the exact back-ends (whichever function of their modules builds the features) may assert optimality outright;
    # ParCons stores the flag it computed (decided by P1 and, for every configuration, by the end-to-end rule:
    # flagged => global minimiser)
    exact_modules = ("corankco.algorithms.exact.",)
    parcons_module = "corankco.algorithms.parcons."
    seen_any = False
    for f in proj.all_functions():
        for n in ast.walk(f.node):
            val = None
            if isinstance(n, ast.Dict):
                for k, v in zip(n.keys, n.values):
                    if k is not None and (dotted(k) or "").endswith("ConsensusFeature.NECESSARILY_OPTIMAL"):
                        val = v
            tgt = None
            if isinstance(n, ast.Assign) and len(n.targets) == 1:
                tgt, v2 = n.targets[0], n.value
            elif isinstance(n, ast.AnnAssign):
                tgt, v2 = n.target, n.value
            if isinstance(tgt, ast.Subscript) and (dotted(tgt.slice) or "").endswith("ConsensusFeature.NECESSARILY_OPTIMAL"):
                val = v2
            if val is None:
                continue
            seen_any = True
            res.saw(f)
            key = f"{f.short}:NECESSARILY_OPTIMAL"
            if isinstance(val, ast.Constant):
                if val.value is True:
                    res.check(f.module.name.startswith(exact_modules), "P2", key, f.loc(n),
                              ok_detail="exact back-end asserts optimality",
                              bad_detail="a literal True is stored under NECESSARILY_OPTIMAL outside the exact back-ends")
                else:
                    res.ok("P2", key, f.loc(n), f"stores {val.value!r}", nontrivial=False)
            elif f.module.name.startswith(parcons_module) and isinstance(val, (ast.Name, ast.Attribute, ast.BoolOp, ast.UnaryOp, ast.Compare)):
                res.ok("P2", key, f.loc(n), f"stores the computed flag `{src(val)[:40]}` (decided by P1 and the end-to-end rule)")
            else:
                res.bad("P2", key, f.loc(n), f"unverified assertion of optimality: stores `{src(val)}`")
    if not seen_any:
        raise AnalysisError("no producer of NECESSARILY_OPTIMAL found")

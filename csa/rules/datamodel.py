"""
Helpers for rules that evaluate the real Element / Ranking / Dataset code on model instances (C16, C17, C18, C03,
C15): building instances from raw python data, reading their state back, and the definitional invariants.
"""
from __future__ import annotations

from typing import Any, Dict, List, Optional, Set, Tuple

from ..loader import Project, AnalysisError
from ..engines.abseval import Unsupported, AbsRaise, Mat, Vec, IndexOut, LoopBound
from ..engines.instances import Runtime, Instance
from ..engines.stdlib import install

Raw = List[List[Set]]          # a raw ranking: list of sets of int / str


class World:
    def __init__(self, proj: Project):
        self.proj = proj
        self.rt = install(Runtime(proj))
        self.E = proj.cls("corankco.element", "Element")
        self.R = proj.cls("corankco.ranking", "Ranking")
        self.D = proj.cls("corankco.dataset", "Dataset")

    # ---- construction -------------------------------------------------------------------------------------
    def element(self, v) -> Instance:
        return self.rt.new(self.E, [v], {})

    def ranking(self, raw) -> Instance:
        return self.rt.new(self.R, [[set(b) for b in raw]], {})

    def dataset(self, raws) -> Instance:
        return self.rt.new(self.D, [[self.ranking(r) for r in raws]], {})

    def call(self, inst: Instance, name: str, *args, **kw):
        return self.rt.call_method(inst, name, *args, **kw)

    def safe(self, what: str, fn, *args, **kw):
        """Run an evaluation; AbsRaise is returned as ('raise', name); unsupported constructs are ANALYSIS-ERROR."""
        try:
            return ("ok", fn(*args, **kw))
        except AbsRaise as r:
            return ("raise", r.exc_name.split(".")[-1])
        except IndexOut:
            return ("raise", "IndexError")
        except LoopBound:
            return ("raise", "<does not terminate>")
        except Unsupported as exc:
            raise AnalysisError(f"{what}: unsupported construct at line {getattr(exc.node, 'lineno', '?')}: {exc}")

    # ---- reading state back ---------------------------------------------------------------------------------
    @staticmethod
    def key(e: Instance) -> Tuple[str, Any]:
        t = e.attrs.get("_type")
        return (getattr(t, "__name__", str(t)), e.attrs.get("_value"))

    def raw_ranking(self, r: Instance) -> List[Set[Tuple[str, Any]]]:
        return [{self.key(e) for e in b} for b in r.attrs["_buckets"]]

    def raw_dataset(self, d: Instance) -> List[List[Set[Tuple[str, Any]]]]:
        return [self.raw_ranking(r) for r in d.attrs["_rankings"]]

    def snapshot(self, d: Instance):
        return (self.raw_dataset(d),
                {self.key(k): v for k, v in d.attrs["_mapping_element_id"].items()},
                {k: self.key(v) for k, v in d.attrs["_mapping_id_element"].items()},
                d.attrs["_is_complete"], d.attrs["_without_ties"], d.attrs.get("_name"),
                [{self.key(k): v for k, v in r.attrs["_positions"].items()} for r in d.attrs["_rankings"]])

    # ---- invariants -----------------------------------------------------------------------------------------
    def ranking_problems(self, r: Instance, what: str) -> List[str]:
        out = []
        buckets = r.attrs["_buckets"]
        pos = {self.key(k): v for k, v in r.attrs["_positions"].items()}
        want = {}
        before = 0
        for b in buckets:
            for e in b:
                want[self.key(e)] = before + 1
            before += len(b)
        if pos != want:
            out.append(f"{what}: positions {pos} disagree with buckets {self.raw_ranking(r)} (expected {want})")
        st, dom = self.safe(what, self.call, r, "domain")
        if st != "ok" or {self.key(e) for e in dom} != set(want):
            out.append(f"{what}: domain {dom!r} is not the union of the buckets {set(want)}")
        st, n = self.safe(what, self.call, r, "nb_elements")
        if st != "ok" or n != len(want):
            out.append(f"{what}: nb_elements {n!r} != {len(want)}")
        st, ln = self.safe(what, lambda: r.abs_len())
        if st != "ok" or ln != len(buckets):
            out.append(f"{what}: len {ln!r} != number of buckets {len(buckets)}")
        return out

    def dataset_problems(self, d: Instance, what: str) -> List[str]:
        out: List[str] = []
        raws = self.raw_dataset(d)
        union = set()
        for r in raws:
            for b in r:
                union |= b
        for i, r in enumerate(d.attrs["_rankings"]):
            out.extend(self.ranking_problems(r, f"{what} ranking#{i}"))
        st, uni = self.safe(what, self.call, d, "universe")
        uni_keys = {self.key(e) for e in uni} if st == "ok" else None
        if uni_keys != union:
            out.append(f"{what}: universe {uni_keys} != union of the rankings' domains {union}")
        e2i = {self.key(k): v for k, v in self.call(d, "mapping_elem_id").items()}
        i2e = {k: self.key(v) for k, v in self.call(d, "mapping_id_elem").items()}
        n = len(union)
        if set(e2i) != union or sorted(e2i.values()) != list(range(n)):
            out.append(f"{what}: element->id map {e2i} is not a bijection universe -> 0..{n - 1}")
        if i2e != {v: k for k, v in e2i.items()}:
            out.append(f"{what}: id->element map {i2e} is not the inverse of element->id {e2i}")
        if self.call(d, "nb_elements") != n:
            out.append(f"{what}: nb_elements {self.call(d, 'nb_elements')} != {n}")
        if self.call(d, "nb_rankings") != len(raws):
            out.append(f"{what}: nb_rankings {self.call(d, 'nb_rankings')} != {len(raws)}")
        # homogeneous typing
        names_intlike = all(t == "int" or (isinstance(v, str) and v.isdigit()) for t, v in union)
        types = {t for t, _ in union}
        if union and (types != ({"int"} if names_intlike else {"str"})):
            out.append(f"{what}: element types {types} (all names integer-like: {names_intlike})")
        complete = all(set().union(*r) == union if r else (not union) for r in raws)
        if bool(self.call(d, "is_complete")) != complete:
            out.append(f"{what}: is_complete {self.call(d, 'is_complete')} but rankings {raws}")
        wt = all(len(b) == 1 for r in raws for b in r)
        if bool(self.call(d, "without_ties")) != wt:
            out.append(f"{what}: without_ties {self.call(d, 'without_ties')} but rankings {raws}")
        # matrices
        for meth, val in (("get_positions", "pos"), ("get_bucket_ids", "bucket")):
            st, m = self.safe(f"{what} {meth}", self.call, d, meth)
            if st != "ok" or not isinstance(m, Mat):
                out.append(f"{what}: {meth} did not produce a matrix ({st} {m!r})")
                continue
            want = [[-1] * len(raws) for _ in range(n)]
            ok_ids = set(e2i) == union and sorted(e2i.values()) == list(range(n))
            if ok_ids:
                for j, r in enumerate(raws):
                    before = 0
                    for k, b in enumerate(r):
                        for e in b:
                            want[e2i[e]][j] = before if val == "pos" else k
                        before += len(b)
                if m.rows != want:
                    out.append(f"{what}: {meth} gives {m.rows}, rankings imply {want}")
        return out


def typed(raws, as_int: bool):
    """Expected typed content of a dataset built from raw rankings."""
    out = []
    for r in raws:
        rr = []
        for b in r:
            rr.append({("int", int(str(x))) if as_int else ("str", str(x)) for x in b})
        out.append(rr)
    return out


def all_intlike(raws) -> bool:
    return all(isinstance(x, int) or (isinstance(x, str) and x.isdigit()) for r in raws for b in r for x in b)

"""
Bounded end-to-end rules (suffix /E): the real code of an algorithm is abstractly evaluated on the curated datasets of
rules/oracle.py under several schemes, and its result is compared with the *definitional* oracle (score, optimum by
exhaustive enumeration, cost table, single-move neighbourhood) written from the property text only. These rules
decide the property on the enumerated datasets - whatever file a defect sits in (kernel, dataset views, scheme
helpers, algorithm) - and complement the per-mechanism table rules.
"""
from __future__ import annotations

import os
from concurrent.futures import ProcessPoolExecutor
from typing import Callable, Dict, List, Tuple

from ..loader import Project, AnalysisError
from ..report import Result
from ..engines.abseval import Unsupported, AbsRaise
from ..engines import abseval
from ..engines.npmodel import Cube
from . import oracle
from .endtoend import E2EWorld, configurations

EPS = 1e-6


def _raw(w: E2EWorld, r) -> List[set]:
    return [{e.attrs["_value"] for e in b} for b in r.attrs["_buckets"]]


def _norm(raws):
    """Element values as the dataset stores them (digit strings become ints when the whole universe is integer-like)."""
    vals = [x for r in raws for b in r for x in b]
    if vals and all(isinstance(v, int) or (isinstance(v, str) and v.isdigit()) for v in vals):
        return [[{int(x) for x in b} for b in r] for r in raws]
    return [[{str(x) for x in b} for b in r] for r in raws]


def _proportional(pen, ref) -> bool:
    """pen = k * ref for some k > 0 (same zero pattern, one common ratio): the schemes are equivalent"""
    ratio = None
    for v1, v2 in zip(pen, ref):
        for x, y in zip(v1, v2):
            if (x == 0) != (y == 0):
                return False
            if x != 0:
                if ratio is None:
                    ratio = x / y
                elif abs(x / y - ratio) > 1e-12 * abs(ratio):
                    return False
    return ratio is None or ratio > 0


def _exact_arithmetic(pen) -> bool:
    """every penalty is a multiple of 1/64 of moderate size: sums of a few thousand of them are exact in floating point"""
    return all(float(x * 64).is_integer() and abs(x) < 2 ** 20 for v in pen for x in v)


_BORDA_FAMILIES = ("unifying", "unifying-p0.5", "induced", "induced-p0.5")
# names of the schemes of the oracle that are positive multiples of the unifying scheme (equivalent to it) / of one of the
# four families Borda documents
UNIFYING_MULTIPLES = tuple(n for n, p_ in oracle.SCHEMES.items() if _proportional(p_, oracle.SCHEMES["unifying"]))
BORDA_ACCEPTED = tuple(n for n, p_ in oracle.SCHEMES.items() if any(_proportional(p_, oracle.SCHEMES[f]) for f in _BORDA_FAMILIES))


def _accepts(kind: str, sname: str, complete: bool) -> bool:
    return complete or kind == "any" or (kind == "borda" and sname in BORDA_ACCEPTED) \
        or (kind == "pick" and sname in UNIFYING_MULTIPLES)


# ---------------------------------------------------------------------------------------------------------------
# per-dataset worker: evaluates what the requested property needs and returns a list of (key, problem | None)
# ---------------------------------------------------------------------------------------------------------------
def _worker(job):
    overlay, prop, dname, raws, snames, pivots = job
    proj = Project(overlay=overlay)
    out: List[Tuple[str, str]] = []
    want_raws = _norm(raws)
    for sname in snames:
        pen = oracle.SCHEMES[sname]
        for pivot in pivots:
          for with_cplex, order in (((False, "asc"), (True, "asc"), (False, "desc")) if prop in CPLEX_PROPS and pivot == "first"
                                    else (((False, "asc"), (False, "desc")) if pivot == "first" else ((False, "asc"),))):
            # "desc": the same scenario with sets iterated in the opposite order - Python leaves that order unspecified,
            # so the outcome must not depend on it
            abseval.SET_ORDER[0] = order
            w = E2EWorld(proj, pivot, cplex=with_cplex)
            ds = w.dataset(raws)
            sch = w.scheme(pen)
            complete = bool(w.call(ds, "is_complete"))
            fn = CHECKS[prop]
            try:
                for key, problem in fn(w, ds, sch, want_raws, pen, sname, complete, pivot):
                    out.append((key, None if problem is None else f"dataset {dname} {raws}, scheme {sname}"
                                                                    f"{', pivot ' + pivot if pivot != 'first' else ''}"
                                                                    f"{', sets iterated in reverse order' if order == 'desc' else ''}: {problem}"))
            except AbsRaise as exc:
                out.append((f"{prop}/E:evaluation", f"dataset {dname}, scheme {sname}: raised {exc.exc_name}"))
            except Unsupported as exc:
                raise AnalysisError(f"end-to-end evaluation ({prop}, dataset {dname}, scheme {sname}): unsupported "
                                    f"construct at line {getattr(exc.node, 'lineno', '?')}: {exc}")
            finally:
                abseval.SET_ORDER[0] = "asc"
    return out


# properties whose statement covers the CPLEX back-end: evaluated a second time with a stand-in CPLEX API present
CPLEX_PROPS = ("C04", "C05", "C06")


# one world, one set of algorithm / dataset / scheme objects, several calls in a row: what a call returns must not
# depend on what the same objects were used for before (and what an earlier call returned must not change afterwards)
HISTORY = [("five-cycle-ties", "unifying-p0.5"), ("five-cycle-ties", "generic"), ("cycle3", "unifying"),
           ("two-empties", "unifying"), ("two-empties", "unifying", "remove_empty_rankings"),
           ("tie3", "unifying"), ("later-id-first", "generic"), ("single", "unifying"),
           ("four-mixed", "generic"), ("four-mixed", "generic", ("remove_elements", {4})), ("six-mixed", "unifying-x3"),
           ("six-mixed", "unifying"), ("cycle3", "unifying")]
QUICK_HISTORY = HISTORY[:8]


def _history_worker(job):
    overlay, prop, seq, with_cplex = job
    proj = Project(overlay=overlay)
    w = E2EWorld(proj, "first", cplex=with_cplex)
    w.kept = []
    dss, schs = {}, {}
    out: List[Tuple[str, str]] = []
    fn = CHECKS[prop]
    current = {}
    for k, step in enumerate(seq):
        dname, sname = step[0], step[1]
        op = step[2] if len(step) > 2 else None
        pen = oracle.SCHEMES[sname]
        if dname not in dss:
            dss[dname] = w.dataset(oracle.DATASETS[dname])
            current[dname] = [[set(b) for b in r] for r in oracle.DATASETS[dname]]
        if sname not in schs:
            schs[sname] = w.scheme(pen)
        ds, sch = dss[dname], schs[sname]
        if op == "remove_empty_rankings":           # the shared Dataset object is modified in place through its own API
            w.call(ds, "remove_empty_rankings")
            current[dname] = [r for r in current[dname] if r]
        elif isinstance(op, tuple) and op[0] == "remove_elements":
            w.call(ds, "remove_elements", {w.element(x) for x in op[1]})
            current[dname] = [r2 for r2 in ([b - set(op[1]) for b in r if b - set(op[1])] for r in current[dname]) if r2]
        raws = current[dname]
        complete = bool(w.call(ds, "is_complete"))
        before = "; ".join("/".join(str(x) for x in st_) for st_ in seq[:k]) or "nothing"
        try:
            for key, problem in fn(w, ds, sch, _norm(raws), pen, sname, complete, "first"):
                out.append((f"history:{key}", None if problem is None else
                            f"call #{k + 1} on the same objects (before it: {before}): dataset {dname} {raws}, scheme {sname}: {problem}"))
        except AbsRaise as exc:
            out.append((f"history:{prop}/E:evaluation", f"call #{k + 1} (before it: {before}): dataset {dname}, scheme {sname}: raised {exc.exc_name}"))
        except Unsupported as exc:
            raise AnalysisError(f"end-to-end history ({prop}, step {k + 1}: dataset {dname}, scheme {sname}): unsupported "
                                f"construct at line {getattr(exc.node, 'lineno', '?')}: {exc}")
    # what earlier calls returned is read again now
    for label, amo, c, raws_, pen_, when in w.kept:
        try:
            rep = _score_of(w, c)
        except (AbsRaise, Unsupported) as exc:
            out.append((f"history:late-read:{label}", f"reading the score of the consensus of {when} again: {exc}"))
            continue
        bad = None
        for r in c.attrs["_consensus_rankings"]:
            true = oracle.score(_raw(w, r), raws_, pen_)
            if rep is None or not isinstance(rep, (int, float)) or abs(true - rep) > EPS:
                bad = bad or (f"the consensus returned for {when} (at_most_one={amo}) now reports {rep!r} after the later "
                              f"calls; its ranking {_raw(w, r)} scores {true}")
        out.append((f"history:late-read:{label}", bad))
    return out


def _cfg(w, labels):
    return [(l, a, k) for l, a, k in configurations(w) if l in labels]


def _c02(w, ds, sch, raws, pen, sname, complete, pivot):
    PBA = w.proj.cls("corankco.algorithms.pairwisebasedalgorithm", "PairwiseBasedAlgorithm")
    i2e = {k: v.attrs["_value"] for k, v in w.call(ds, "mapping_id_elem").items()}
    order = [i2e[i] for i in range(len(i2e))]
    want = oracle.cost_table(raws, order, pen)
    for enc in ("get_positions", "get_bucket_ids"):
        m = w.rt.call_static(PBA, "pairwise_cost_matrix", w.call(ds, enc), sch)
        got = m.data if isinstance(m, Cube) else None
        bad = None
        if got is None:
            bad = f"{enc}: no cost cube produced ({m!r})"
        else:
            for i in range(len(order)):
                for j in range(len(order)):
                    if i != j and any(abs(got[i][j][k] - want[i][j][k]) > EPS for k in range(3)):
                        bad = bad or (f"built from {enc}: cost of ({order[i]}, {order[j]}) [before, after, tied] = "
                                      f"{got[i][j]}, definition {want[i][j]}")
        yield f"cost-table:{enc}", bad
    # selected entries add up to the Kemeny score for every complete candidate
    m = w.rt.call_static(PBA, "pairwise_cost_matrix", w.call(ds, "get_positions"), sch)
    bad = None
    idx = {e: i for i, e in enumerate(order)}
    for cand in oracle.ordered_partitions(order)[::3]:
        pos = {e: i for i, b in enumerate(cand) for e in b}
        tot = 0.0
        for a in range(len(order)):
            for b_ in range(a + 1, len(order)):
                x, y = order[a], order[b_]
                k = 0 if pos[x] < pos[y] else (1 if pos[x] > pos[y] else 2)
                tot += m.data[a][b_][k]
        if abs(tot - oracle.score(cand, raws, pen)) > EPS:
            bad = bad or f"candidate {cand}: selected entries sum to {tot}, Kemeny score is {oracle.score(cand, raws, pen)}"
    yield "cost-table:sums-to-kemeny-score", bad


def _c13(w, ds, sch, raws, pen, sname, complete, pivot):
    alg = w.alg("copeland.copeland", "CopelandMethod")
    c = w.compute(alg, ds, sch, True)
    i2e = {k: v.attrs["_value"] for k, v in w.call(ds, "mapping_id_elem").items()}
    order = [i2e[i] for i in range(len(i2e))]
    table = oracle.cost_table(raws, order, pen)
    sc = {e: 0.0 for e in order}
    vic = {e: [0, 0, 0] for e in order}
    for i, x in enumerate(order):
        for j, y in enumerate(order):
            if i < j:
                b, a = table[i][j][0], table[i][j][1]
                if b < a:
                    sc[x] += 1; vic[x][0] += 1; vic[y][2] += 1
                elif a < b:
                    sc[y] += 1; vic[y][0] += 1; vic[x][2] += 1
                else:
                    sc[x] += .5; sc[y] += .5; vic[x][1] += 1; vic[y][1] += 1
    want = [{e for e in order if sc[e] == s} for s in sorted(set(sc.values()), reverse=True)]
    got = _raw(w, c.attrs["_consensus_rankings"][0])
    yield "copeland:ranking", None if got == want else f"consensus {got}, Copeland ranking by definition {want} (scores {sc})"
    gs = {k.attrs["_value"]: float(v) for k, v in w.call(c, "copeland_scores").items()}
    gv = {k.attrs["_value"]: [int(x) for x in v] for k, v in w.call(c, "copeland_victories").items()}
    yield "copeland:features", None if (gs == sc and gv == vic) else f"reported scores {gs} / counts {gv}, definition {sc} / {vic}"


def _score_of(w, c):
    return w.call(c, "kemeny_score")


def _c04(w, ds, sch, raws, pen, sname, complete, pivot):
    for label, alg, kind in configurations(w):
        if not _accepts(kind, sname, complete):
            continue
        for amo in (True, False):
            st, c = w.try_compute(alg, ds, sch, amo)
            if st != "ok" and c == "IncompatibleArgumentsException" and not amo and "CPLEX" in label:
                continue        # documented refusal: the optimised CPLEX model returns a single ranking (C05/X6)
            if st != "ok":
                yield f"reported-score:{label}", f"at_most_one={amo}: raised {c}"
                continue
            rep = _score_of(w, c)
            if hasattr(w, "kept"):
                w.kept.append((label, amo, c, raws, pen, f"dataset {raws}, scheme {sname}"))
            bad = None
            if rep is None or not isinstance(rep, (int, float)) or rep < 0:
                bad = f"at_most_one={amo}: reported score {rep!r}"
            else:
                for r in c.attrs["_consensus_rankings"]:
                    true = oracle.score(_raw(w, r), raws, pen)
                    if abs(true - rep) > EPS:
                        bad = bad or f"at_most_one={amo}: reports {rep}, but returned ranking {_raw(w, r)} scores {true}"
            yield f"reported-score:{label}", bad


def _canon(r):
    return tuple(frozenset(b) for b in r)


def _c05(w, ds, sch, raws, pen, sname, complete, pivot):
    best, argmin = oracle.optimum(raws, pen)
    for label, alg, kind in configurations(w):
        if not label.startswith("Exact"):
            continue
        st, c = w.try_compute(alg, ds, sch, True)
        if st != "ok":
            yield f"optimum:{label}", f"raised {c}"
            continue
        r = _raw(w, c.attrs["_consensus_rankings"][0])
        s = oracle.score(r, raws, pen)
        yield f"optimum:{label}", None if abs(s - best) <= EPS else f"returns {r} scoring {s}; the optimum is {best} ({argmin[0]})"
        if "optimize=False" in label or "ForPaperOptim1" in label:
            # all optimal consensuses requested
            st, c = w.try_compute(alg, ds, sch, False)
            if st != "ok":
                yield f"all-optima:{label}", f"all optimal rankings requested: raised {c}"
                continue
            got = [_raw(w, r_) for r_ in c.attrs["_consensus_rankings"]]
            bad = None
            for r_ in got:
                s = oracle.score(r_, raws, pen)
                if abs(s - best) > EPS:
                    bad = bad or f"all optimal rankings requested: {r_} (score {s}) is returned, the optimum is {best}"
            if bad is None and label.startswith("ExactAlgorithmCplex(optimize=False)"):
                gs, ws = {_canon(x) for x in got}, {_canon(x) for x in argmin}
                if gs != ws or len(got) != len(gs):
                    miss = [list(map(set, x)) for x in ws - gs][:1]
                    bad = (f"all optimal rankings requested: {len(got)} ranking(s) returned ({len(gs)} distinct), the "
                           f"{len(ws)} minimisers are expected" + (f"; missing e.g. {miss[0]}" if miss else ""))
            yield f"all-optima:{label}", bad


def _partition(w, part) -> List[set]:
    return [{e.attrs["_value"] for e in g} for g in part.attrs["_partition"]]


def _c06(w, ds, sch, raws, pen, sname, complete, pivot):
    OP = w.proj.cls("corankco.partitioning.ordered_partition", "OrderedPartition")
    best, argmin = oracle.optimum(raws, pen)
    # whichever algorithm marks its consensus as necessarily optimal: it must be a global minimiser
    for label, alg, kind in configurations(w):
        if label.startswith("ParCons") or not _accepts(kind, sname, complete):
            continue
        if not label.startswith("Exact") and len(oracle.universe(raws)) > 4:
            continue            # heuristics never assert optimality (rule P2); they are evaluated on the small datasets only
        st, c = w.try_compute(alg, ds, sch, True)
        if st != "ok":
            continue            # refusals / failures are other properties' business
        flag = None
        for k, v in (c.attrs.get("_att") or {}).items():
            if getattr(k, "member", "") == "NECESSARILY_OPTIMAL":
                flag = v
        if flag is True:
            r = _raw(w, c.attrs["_consensus_rankings"][0])
            s_ = oracle.score(r, raws, pen)
            yield f"flagged-optimal:{label}", None if abs(s_ - best) <= EPS else \
                f"flagged necessarily optimal but {r} scores {s_}, optimum {best}"
    part = _partition(w, w.rt.call_static(OP, "parcons_partition", ds, sch))
    uni = set(oracle.universe(raws))
    flat = [e for g in part for e in g]
    bad = None
    if sorted(flat, key=repr) != sorted(uni, key=repr) or any(not g for g in part):
        bad = f"ParCons partition {part} is not a partition of {uni}"
    elif not any(oracle.respects(c, part) for c in argmin):
        bad = f"ParCons partition {part}: none of the {len(argmin)} optimal consensuses (score {best}) respects it, e.g. {argmin[0]}"
    yield "parcons-partition:admits-an-optimum", bad
    for label, alg, kind in [t for t in configurations(w) if t[0].startswith("ParCons")]:
        st, c = w.try_compute(alg, ds, sch, True)
        if st != "ok":
            yield f"parcons:{label}", f"raised {c}"
            continue
        r = _raw(w, c.attrs["_consensus_rankings"][0])
        s = oracle.score(r, raws, pen)
        flag = None
        wp = None
        for k, v in c.attrs["_att"].items():
            if getattr(k, "member", "") == "NECESSARILY_OPTIMAL":
                flag = v
            if getattr(k, "member", "") == "WEAK_PARTITIONING":
                wp = [{e.attrs["_value"] for e in g} for g in v]
        bad = None
        if flag is True and abs(s - best) > EPS:
            bad = f"flagged necessarily optimal but {r} scores {s}, optimum {best}"
        elif not oracle.respects(r, part):
            bad = f"consensus {r} does not respect the ParCons partition {part}"
        elif wp != part:
            bad = f"reported weak partitioning {wp} differs from parcons_partition {part}"
        elif label.startswith("ParCons()") and flag is not True:
            bad = "no component was delegated (default bound) but the consensus is not flagged optimal"
        yield f"parcons:{label}", bad


def _c07(w, ds, sch, raws, pen, sname, complete, pivot):
    OP = w.proj.cls("corankco.partitioning.ordered_partition", "OrderedPartition")
    best, argmin = oracle.optimum(raws, pen)
    pc = _partition(w, w.rt.call_static(OP, "parcons_partition", ds, sch))
    pf_obj = w.rt.call_static(OP, "parfront_partition", ds, sch)
    pf = _partition(w, pf_obj)
    uni = set(oracle.universe(raws))
    bad = None
    if sorted((e for g in pf for e in g), key=repr) != sorted(uni, key=repr) or any(not g for g in pf):
        bad = f"ParFront partition {pf} is not a partition of {uni}"
    else:
        # each ParFront group is the union of consecutive ParCons groups, in order
        i = 0
        for g in pf:
            acc = set()
            while i < len(pc) and acc != g and (acc | pc[i]) <= g:
                acc |= pc[i]
                i += 1
            if acc != g:
                bad = f"ParFront {pf} does not merge consecutive groups of ParCons {pc}"
                break
        if bad is None:
            viol = next((c for c in argmin if not oracle.respects(c, pf)), None)
            if viol is not None:
                bad = f"ParFront partition {pf}: the optimal consensus {viol} (score {best}) does not respect it"
    yield "parfront-partition:every-optimum-respects-it", bad
    # the library's own consistency test agrees with the relation on optimal and near-optimal consensuses
    CONS = w.proj.cls("corankco.consensus", "Consensus")
    bad = None
    for cand in (argmin[:3] + oracle.ordered_partitions(sorted(uni, key=repr))[::11]):
        rk = w.ranking(cand)
        cons = w.rt.new(CONS, [[rk]], {"dataset": ds, "scoring_scheme": sch})
        got = w.rt.call_method(pf_obj, "consistent_with", cons)
        want = oracle.respects(cand, pf)
        if bool(got) != want:
            bad = bad or f"consistent_with(partition {pf}, consensus {cand}) answers {got}, relation is {want}"
    yield "consistent_with:agrees-with-relation", bad


def _c08(w, ds, sch, raws, pen, sname, complete, pivot):
    labels = ("BioConsert()", "BioCo()", "BioConsert([CopelandMethod(), KwikSortRandom()])")
    for label, alg, kind in _cfg(w, labels):
        if not _accepts(kind, sname, complete):
            continue
        st, c = w.try_compute(alg, ds, sch, False)
        if st != "ok":
            yield f"local-optimum:{label}", f"raised {c}"
            continue
        bad = None
        for r in c.attrs["_consensus_rankings"]:
            cur = _raw(w, r)
            s0 = oracle.score(cur, raws, pen)
            for nb in oracle.neighbours(cur):
                s1 = oracle.score(nb, raws, pen)
                if s1 < s0 - 0.001 - 1e-9:
                    bad = bad or f"returned {cur} (score {s0}) is improved to {s1} by the single move giving {nb}"
                    break
        yield f"local-optimum:{label}", bad


def _c09(w, ds, sch, raws, pen, sname, complete, pivot):
    uni = oracle.unified(raws)
    u = oracle.universe(raws)
    starts = uni + [[set(u)]]
    bio = w.alg("bioconsert.bioconsert", "BioConsert")
    st, c = w.try_compute(bio, ds, sch, False)
    if st == "ok":
        rks = [_raw(w, r) for r in c.attrs["_consensus_rankings"]]
        scores = [oracle.score(r, raws, pen) for r in rks]
        worst = max(scores)
        bad = None
        for s_ in starts:
            if oracle.score(s_, raws, pen) < worst - EPS:
                bad = bad or f"returns {rks} (score {worst}) although the starting point {s_} scores {oracle.score(s_, raws, pen)}"
        if max(scores) - min(scores) > EPS:
            bad = bad or f"returned rankings do not share one score: {scores}"
        yield "never-worse:default-starts", bad
    else:
        yield "never-worse:default-starts", f"raised {c}"
    pairs = [("BioCo()", [("BordaCount()", "borda")]),
             ("BioConsert([CopelandMethod(), KwikSortRandom()])", [("CopelandMethod()", "any"), ("KwikSortRandom()", "any")])]
    cfgs = {l: (a, k) for l, a, k in configurations(w)}
    for label, starters in pairs:
        alg, kind = cfgs[label]
        if not _accepts(kind, sname, complete):
            continue
        st, c = w.try_compute(alg, ds, sch, False)
        if st != "ok":
            yield f"never-worse:{label}", f"raised {c}"
            continue
        worst = max(oracle.score(_raw(w, r), raws, pen) for r in c.attrs["_consensus_rankings"])
        bad = None
        for sl, sk in starters:
            sa, _k = cfgs[sl]
            st2, c2 = w.try_compute(sa, ds, sch, True)
            if st2 == "ok":
                s2 = oracle.score(_raw(w, c2.attrs["_consensus_rankings"][0]), raws, pen)
                if s2 < worst - EPS:
                    bad = bad or f"scores {worst}, its starting algorithm {sl} alone scores {s2}"
        yield f"never-worse:{label}", bad
    # default BioConsert is never worse than PickAPerm
    pk, kind = cfgs["PickAPerm()"]
    if _accepts(kind, sname, complete) and st == "ok":
        st3, c3 = w.try_compute(pk, ds, sch, True)
        if st3 == "ok":
            s3 = oracle.score(_raw(w, c3.attrs["_consensus_rankings"][0]), raws, pen)
            st, c = w.try_compute(bio, ds, sch, False)
            sb = max(oracle.score(_raw(w, r), raws, pen) for r in c.attrs["_consensus_rankings"])
            yield "never-worse:than-pickaperm", None if sb <= s3 + EPS else f"BioConsert scores {sb}, PickAPerm {s3}"


def _c10(w, ds, sch, raws, pen, sname, complete, pivot):
    pk = w.alg("pickaperm.pickaperm", "PickAPerm")
    ok = complete or sname in UNIFYING_MULTIPLES
    cands = raws if complete else oracle.unified(raws)
    for amo in (True, False):
        st, c = w.try_compute(pk, ds, sch, amo)
        if not ok:
            yield "pickaperm:refusal", None if st == "raise" else "incomplete data under a non-unifying scheme was not refused"
            continue
        if st != "ok":
            yield "pickaperm:best-inputs", f"raised {c}"
            continue
        scores = [oracle.score(x, raws, pen) for x in cands]
        best = min(scores)
        minimal = [x for x, s in zip(cands, scores) if abs(s - best) <= EPS]
        got = [_raw(w, r) for r in c.attrs["_consensus_rankings"]]
        bad = None
        if any(g not in minimal for g in got) or not got:
            bad = f"at_most_one={amo}: returns {got}; minimal inputs (score {best}) are {minimal}"
        elif amo and len(got) != 1:
            bad = f"at_most_one=True: {len(got)} rankings returned"
        elif not amo and any(m not in got for m in minimal) and _exact_arithmetic(pen):
            # (with penalties that binary floating point cannot represent, two mathematically equal sums may differ in
            # their last bit: which of them the code calls minimal is then float noise, not decided here)
            bad = f"at_most_one=False: returns {got}, misses a minimal input among {minimal}"
        yield "pickaperm:best-inputs", bad


def _c11(w, ds, sch, raws, pen, sname, complete, pivot):
    order = oracle.universe(raws)
    table = oracle.cost_table(raws, order, pen)
    n = len(order)

    def pref(i, j):      # placement of i relative to j: -1 before, 0 tied, 1 after (tie preferred, then before)
        b, a, t = table[i][j]
        if t <= b and t <= a:
            return 0
        return -1 if b <= a else 1
    coherent = all(pref(i, j) == -pref(j, i) for i in range(n) for j in range(n) if i != j)
    target = None
    if coherent:
        for cand in oracle.ordered_partitions(order):
            pos = {e: k for k, b in enumerate(cand) for e in b}
            if all((pos[order[i]] < pos[order[j]]) == (pref(i, j) == -1) and (pos[order[i]] == pos[order[j]]) == (pref(i, j) == 0)
                   for i in range(n) for j in range(n) if i != j):
                target = cand
                break
    alg = w.alg("kwiksort.kwiksortrandom", "KwikSortRandom")
    if len({repr(r) for r in raws}) == 1 and complete:
        # identical rankings: returned unchanged whenever breaking or creating a tie costs something
        b, t = pen
        if b[2] > 0 and t[0] > 0:
            st, c = w.try_compute(alg, ds, sch, True)
            got = _raw(w, c.attrs["_consensus_rankings"][0]) if st == "ok" else c
            yield "kwiksort:identical-rankings-unchanged", None if got == raws[0] else f"identical rankings {raws[0]} are returned as {got}"
    if target is None:
        return
    st, c = w.try_compute(alg, ds, sch, True)
    got = _raw(w, c.attrs["_consensus_rankings"][0]) if st == "ok" else c
    yield "kwiksort:coherent-preferences", None if got == target else \
        f"pairwise preferences cohere into {target}, KwikSort returns {got}"


def _c12(w, ds, sch, raws, pen, sname, complete, pivot):
    from .C12 import expected
    from .C12 import KIND_TABLES
    kind = next((k for k in ("UNI1", "UNI05", "IND1", "IND05") if _proportional(pen, KIND_TABLES[k])), "OTHER")
    for ubi in (False, True):
        alg = w.alg("borda.borda", "BordaCount", use_bucket_id=ubi)
        want = expected(oracle.universe(raws), raws, kind, ubi)
        st, c = w.try_compute(alg, ds, sch, True)
        if want == "raise":
            yield f"borda:bucket_id={ubi}", None if st == "raise" else "incomplete data under a scheme outside the accepted families was not refused"
            continue
        got = _raw(w, c.attrs["_consensus_rankings"][0]) if st == "ok" else c
        yield f"borda:bucket_id={ubi}", None if got == want else f"returns {got}, mean-score definition gives {want}"


CHECKS: Dict[str, Callable] = {"C02": _c02, "C13": _c13, "C04": _c04, "C05": _c05, "C06": _c06, "C07": _c07, "C08": _c08,
                               "C09": _c09, "C10": _c10, "C11": _c11, "C12": _c12}
QUICK_DATASETS = {
    "C02": ["six-mixed", "ties-incomplete", "sparse-components", "strings", "with-empty"],
    "C13": ["six-mixed", "ties-incomplete", "sparse-components", "four-mixed", "big-bucket"],
    "C04": ["topk", "four-mixed", "later-id-first", "ties-incomplete", "sparse-components", "with-empty"],
    "C05": ["digit-names-mixed-lengths", "branching-components", "five-branching", "five-cycle-ties", "cycle3", "ties-incomplete", "sparse-components", "later-id-first", "head-merge", "big-bucket"],
    "C06": ["digit-names-mixed-lengths", "branching-components", "five-branching", "five-cycle-ties", "cycle3", "sparse-components", "digit-component", "four-mixed", "ties-incomplete", "big-bucket"],
    "C07": ["branching-components", "five-branching", "five-cycle-ties", "head-merge", "two-opposed", "ties-incomplete", "four-mixed", "cycle3", "sparse-components"],
    "C08": ["topk", "topk-pairs", "six-mixed", "later-id-first", "four-mixed", "big-bucket", "ties-incomplete"],
    "C09": ["topk", "topk-pairs", "six-mixed", "later-id-first", "ties-incomplete", "sparse-components", "big-bucket", "cycle3"],
    "C10": ["six-mixed", "unanimous", "ties-incomplete", "two-opposed", "four-mixed"],
    "C11": ["topk", "unanimous", "strings", "ties-incomplete", "big-bucket", "two-opposed"],
    "C12": ["topk", "equal-means-3-15", "equal-means-5-15", "equal-means-3-6", "six-mixed", "ties-incomplete", "four-mixed", "with-empty", "big-bucket"],
}
QUICK_SCHEMES = {
    "C02": ["generic", "unifying"], "C13": ["generic", "unifying", "induced"], "C04": ["unifying-p0.25", "unifying", "unifying-p0.5", "generic"],
    "C05": ["unifying-p0.25", "unifying-x1e-4", "unifying", "b5-gt-t5", "induced"], "C06": ["unifying-x1e-4", "unifying", "b5-gt-t5", "induced"],
    "C07": ["unifying-x1e-4", "unifying", "pseudodistance", "generic"], "C08": ["unifying", "unifying-p0.5", "generic"],
    "C09": ["unifying-p0.5", "induced-p0.5", "unifying", "induced", "generic"], "C10": ["unifying", "generic"], "C11": ["unifying-p0", "unifying", "generic", "induced"],
    "C12": ["pseudodistance", "unifying", "unifying-p0.5", "induced", "generic"],
}


def check(res: Result, proj: Project, prop: str, thorough: bool, rule: str = None):
    rule = rule or f"{prop}/E"
    res.rule(rule, "bounded end-to-end evaluation of the real code against the definitional oracle on curated datasets", 1)
    dnames = list(oracle.DATASETS) if thorough else QUICK_DATASETS[prop]
    snames = list(oracle.SCHEMES) if thorough else QUICK_SCHEMES[prop]
    pivots = ("first", "last", "middle") if prop in ("C11",) else (("first", "last") if prop in ("C04", "C09") and thorough else ("first",))
    jobs = [(proj.overlay, prop, d, oracle.DATASETS[d], snames, pivots) for d in dnames]
    agg: Dict[str, List[str]] = {}
    counts: Dict[str, int] = {}
    with ProcessPoolExecutor(max_workers=min(len(jobs) + 2, os.cpu_count() or 1)) as ex:
        hists = [ex.submit(_history_worker, (proj.overlay, prop, HISTORY if thorough else QUICK_HISTORY, wc))
                 for wc in ((False, True) if prop in CPLEX_PROPS else (False,))]
        outs = list(ex.map(_worker, jobs)) + [h.result() for h in hists]
        for out in outs:
            for key, problem in out:
                agg.setdefault(key, [])
                counts[key] = counts.get(key, 0) + 1
                if problem is not None:
                    agg[key].append(problem)
    for key in sorted(agg):
        probs = agg[key]
        res.check(not probs, rule, f"e2e:{key}", "corankco",
                  ok_detail=f"{counts[key]} (dataset, scheme) cases agree with the definition",
                  bad_detail=(probs[0] + (f" [+{len(probs) - 1} more]" if len(probs) > 1 else "")) if probs else "")
    res.extra.setdefault("e2e_cases", 0)
    res.extra["e2e_cases"] += sum(counts.values())

"""
C11 - KwikSort's per-step placement rule (pivot independence follows from it by the quick-sort argument).

V1  vectorised status counts: `_where_should_it_be` abstractly evaluated with symbolic B / T on worlds made of one,
    two and three rankings of given statuses; the three `vdot` costs must be the definitional cost of placing the
    other element before / tied with / after the pivot (modulo equalities the scheme constructor enforces).
V2  decision: numeric worlds realising the 13 weak orderings of (before, tied, after) for every status: returns
    0 iff tie is cheapest (ties preferred), else -1 iff before <= after, else 1.
V3  emission: `_kwik_sort` abstractly evaluated for the 27 sign assignments of three non-pivot elements: negative ->
    emitted before the pivot's bucket, zero -> in the pivot's bucket, positive -> after; every element exactly once.
V4  pivot is drawn from the remaining elements; entry point passes universe / id map / positions / [B,T] rows.
"""
from __future__ import annotations

import ast
import itertools
from typing import List

from ..loader import AnalysisError, src, dotted
from ..report import Result
from ..engines.abseval import Evaluator, Sym, Lin, Vec, Unsupported
from .. import spec
from . import scheme as S

MOD_ABS = "corankco.algorithms.kwiksort.kwiksortabs"
MOD_RND = "corankco.algorithms.kwiksort.kwiksortrandom"


def _count_nonzero(ev, call):
    v = ev.ev(call.args[0])
    if not isinstance(v, Vec):
        raise Unsupported("count_nonzero of non-vector", call)
    return sum(1 for x in v.vals if x)


def _vdot_factory(log):
    def vdot(ev, call):
        a, b = ev.ev(call.args[0]), ev.ev(call.args[1])
        a = list(a.vals) if isinstance(a, Vec) else a
        b = list(b.vals) if isinstance(b, Vec) else b
        if isinstance(b, Sym) and not isinstance(a, Sym):
            a, b = b, a
        if not isinstance(b, (list, tuple)):
            raise Unsupported("vdot operand", call)
        if isinstance(a, Sym):
            r = Lin()
            for i, c in enumerate(b):
                r = r + Lin.of(a[i]) * c
        elif isinstance(a, (list, tuple)) and len(a) == len(b):
            r = sum(x * y for x, y in zip(a, b))
        else:
            raise Unsupported("vdot operand", call)
        log.append(r)
        return r
    return vdot


_WW = {}


def _eval_where(f, pivots, others, scheme):
    """The placement routine run on a real KwikSortRandom object (so that helpers it delegates to, overridden or not,
    are the ones a real call reaches) with `count_nonzero` / `vdot` intercepted: the values handed to vdot are logged."""
    from .datamodel import World
    from ..engines.instances import ExternalFunc
    from ..engines.abseval import AbsRaise, IndexOut
    proj = f.module.project if hasattr(f.module, "project") else None
    key = id(f.module)
    if key not in _WW:
        _WW.clear()
        from ..loader import Project as _P
        _WW[key] = None
    w = _EVAL_WORLD[0]
    log = []
    vd = _vdot_factory(log)

    class _Call:            # the hooks are written for (evaluator, call node): adapt them to evaluated arguments
        def __init__(self, args):
            self.args = args
            self.keywords = []

    class _Ev:
        @staticmethod
        def ev(x):
            return x
    w.rt.externals["numpy.vdot"] = ExternalFunc(lambda a, kw, ev, node: vd(_Ev, _Call(a)))
    ret = None
    err = None
    try:
        ret = w.rt.call_method(_EVAL_WORLD[1], f.name, Vec(list(pivots)), Vec(list(others)),
                               [s_ if isinstance(s_, Sym) else Vec(list(s_)) for s_ in scheme]
                               if not all(isinstance(s_, Sym) for s_ in scheme) else list(scheme))
    except Unsupported as exc:
        err = exc
    except AbsRaise as r:
        err = Unsupported(f"raises {r.exc_name}", r.node)
    return ret, log, err


_EVAL_WORLD = [None, None]


def _install_world(proj, rnd):
    from .datamodel import World
    w = World(proj)
    w.rt.max_steps = 200000
    _EVAL_WORLD[0] = w
    _EVAL_WORLD[1] = w.rt.new(rnd, [], {})


def _definitional_decision(world, b, t):
    """tie if cheapest (<=), else before if <= after; costs summed over the rankings of the world"""
    before = sum(b[s] for s in world)
    tied = sum(t[s] for s in world)
    after = sum(b[spec.SIGMA[s]] for s in world)
    return 0 if (tied <= before and tied <= after) else (-1 if before <= after else 1)


NUMERIC_SCHEMES = [
    [[0., 1., 1., 0., 1., 1.], [1., 1., 0., 1., 1., 0.]], [[0., 1., 1., 0., 0., 0.], [1., 1., 0., 0., 0., 0.]],
    [[0., 1., 1., 0., 1., 0.], [1., 1., 0., 1., 1., 0.]], [[0., 1., .5, 0., 1., .5], [.5, .5, 0., .5, .5, 0.]],
    [[0., 2., 1., 1., 3., 4.], [1., 1., 0., 2., 2., 5.]], [[0., 1., 1., 0., 0., 0.], [1., 1., 0., 1., 1., 0.]],
    [[0., 1., .25, .5, 1., 2.], [.75, .75, 0., 2., 2., 1.]], [[0., 5., 2., 1., 1., 0.], [3., 3., 0., 1., 1., 7.]],
    [[1., 1., 1., 1., 1., 1.], [1., 1., 1., 1., 1., 1.]], [[0., 1., 3., 0., 4., 0.5], [2., 2., 0., 3., 3., 0.25]],
]


def run(ctx) -> Result:
    res = Result("C11")
    proj = ctx.proj
    rnd = proj.cls(MOD_RND, "KwikSortRandom")
    absc = proj.cls(MOD_ABS, "KwikSortAbs")
    where = proj.method(rnd, "_where_should_it_be")
    ks = proj.method(absc, "_kwik_sort")
    piv = proj.method(rnd, "_get_pivot")
    comp = proj.method(absc, "compute_consensus_rankings")
    res.saw(where, ks, piv, comp)
    HOOK_NAMES.update(pivot=piv.name, where=where.name, sort=ks.name)
    res.rule("V1", "status-count vector and the three vdot costs equal the definitional costs (symbolic B, T); numeric "
                   "placement decisions on several rankings", 7)
    res.rule("V2", "decision tree over the 13 weak orderings of (before, tied, after) per status", 6)
    res.rule("V3", "three-way partition and emission order around the pivot (27 sign assignments)", 1)
    res.rule("V4", "pivot drawn from the remaining elements; entry point wiring", 3)
    enforced = S.enforced_constraints(proj)

    def norm(v):
        return S.normalise_scheme_lin(v, enforced)

    _install_world(proj, rnd)
    symscheme = [Sym("B"), Sym("T")]
    # worlds: lists of statuses of (other, pivot)
    worlds = [[s] for s in range(6)] + [list(p) for p in itertools.product(range(6), repeat=2)] + [[0, 3, 5], [1, 4, 2]]
    per_status_bad = {}
    n_worlds = 0
    shortcuts = []
    for reps in (0, 1):
        for world in worlds:
            n_worlds += 1
            others, pivots = [], []
            for s in world:
                rp = spec.REPRESENTATIVES[s]
                po, pp = rp[min(reps, len(rp) - 1)]
                others.append(po)
                pivots.append(pp)
            ret, log, err = _eval_where(where, pivots, others, symscheme)
            if len(log) != 3:
                if err is None and ret in (-1, 0, 1):
                    # a path that decides without computing the three costs (a shortcut): its decision is what
                    # matters and V2 / the end-to-end rule decide it; nothing to compare here
                    shortcuts.append(world)
                    continue
                # the costs are not computed as three vdot products (vectorised, delegated ...): the numeric decisions
                # below decide this world
                shortcuts.append(world)
                continue
            want = []
            for placement in ("before", "tied", "after"):
                tot = Lin()
                for s in world:
                    v, i = spec.definitional_cost(placement, s)
                    tot = tot + Lin.of(Sym(v, (i,)))
                want.append(norm(tot))
            got = sorted((repr(norm(c)) for c in log))
            if got != sorted(repr(w) for w in want):
                for s in set(world):
                    per_status_bad.setdefault(s, (world, [repr(norm(c)) for c in log], [repr(w) for w in want]))
    for s in range(6):
        if s in per_status_bad:
            world, got, want = per_status_bad[s]
            res.bad("V1", f"_where_should_it_be:status={spec.STATUS_NAMES[s]}", where.loc(),
                    f"rankings with statuses {[spec.STATUS_NAMES[x] for x in world]} of (other, pivot): costs {got}, "
                    f"definition {{before, tied, after}} = {want}")
        else:
            res.ok("V1", f"_where_should_it_be:status={spec.STATUS_NAMES[s]}", where.loc(),
                   f"costs are B[s], T[s], B[sigma(s)] summed over rankings in all {n_worlds} worlds")
    res.extra["v1_worlds"] = n_worlds
    # numeric decisions on multi-ranking worlds (whatever the way the costs are computed): statuses repeated up to three
    # times (a count that saturates or is mis-attributed changes a decision under some scheme)
    multi = [[s] * k for s in range(6) for k in (2, 3)] + [list(p) for p in itertools.product(range(6), repeat=2)] + \
        [[5, 5, 0], [5, 5, 1], [5, 5, 2], [3, 3, 4], [4, 4, 3], [2, 2, 0, 1], [5, 5, 5, 0, 2], [0, 1, 2, 3, 4, 5]]
    bad = None
    n_num = 0
    for world in multi:
        for reps in (0, 1):
            others, pivots = [], []
            for s in world:
                rp = spec.REPRESENTATIVES[s]
                po, pp = rp[min(reps, len(rp) - 1)]
                others.append(po)
                pivots.append(pp)
            for b, t in NUMERIC_SCHEMES:
                n_num += 1
                ret, log, err = _eval_where(where, pivots, others, [list(b), list(t)])
                if err is not None:
                    raise AnalysisError(f"{where.qualname}: unsupported construct line "
                                        f"{getattr(err.node, 'lineno', '?')}: {err}")
                want = _definitional_decision(world, b, t)
                if ret != want and bad is None:
                    bad = (world, b, t, ret, want)
    res.check(bad is None, "V1", "_where_should_it_be:decisions-on-several-rankings", where.loc(),
              ok_detail=f"{n_num} (statuses of several rankings, scheme) worlds: the placement is the definitional one",
              bad_detail=(f"rankings with statuses {[spec.STATUS_NAMES[x] for x in bad[0]]} of (other, pivot), scheme B={bad[1]} "
                          f"T={bad[2]}: returns {bad[3]}, the summed costs give {bad[4]} (-1 before pivot, 0 tied, 1 after)")
              if bad else "")

    # ------------------------------------------------------------------ V2
    for s in range(6):
        bad = None
        n = 0
        # every ordering at three magnitudes: ordinary, costs around 1e9 that differ by 1, costs around 1e-9 - the
        # comparison of costs is exact (a "close enough" test would merge distinct costs at the extreme scales)
        scaled = [(x, y, z) for (x, y, z) in spec.WEAK_ORDERS_3] + \
                 [(1e9 + x, 1e9 + y, 1e9 + z) for (x, y, z) in spec.WEAK_ORDERS_3] + \
                 [(1e-9 * (1 + x), 1e-9 * (1 + y), 1e-9 * (1 + z)) for (x, y, z) in spec.WEAK_ORDERS_3]
        for (x, y, z) in scaled:
            if spec.SIGMA[s] == s and x != z:
                continue
            n += 1
            b = [50] * 6
            t = [50] * 6
            b[s] = x
            b[spec.SIGMA[s]] = z
            t[s] = y
            po, pp = spec.REPRESENTATIVES[s][0]
            ret, log, err = _eval_where(where, [pp], [po], [b, t])
            if err is not None:
                raise AnalysisError(f"{where.qualname}: unsupported construct line "
                                    f"{getattr(err.node, 'lineno', '?')}: {err}")
            want = 0 if (y <= x and y <= z) else (-1 if x <= z else 1)
            if ret != want and bad is None:
                bad = (x, y, z, ret, want)
        res.check(bad is None, "V2", f"_where_should_it_be:decision:status={spec.STATUS_NAMES[s]}", where.loc(),
                  ok_detail=f"{n} orderings of (before, tied, after) give tie-if-cheapest, else before-if-<=-after",
                  bad_detail=(f"before={bad[0]} tied={bad[1]} after={bad[2]}: returns {bad[3]}, expected {bad[4]} "
                              f"(-1 before pivot, 0 tied, 1 after)") if bad else "")

    check_emission(res, proj, "V3")

    # ------------------------------------------------------------------ V4 (evaluation on real instances)
    _check_wiring(res, proj, rnd, absc, piv, ks, comp)
    res.not_decided.append("the implication 'coherent pairwise preferences => same ranking for every pivot sequence' "
                           "(mathematics over V1-V4, not code shape)")
    if not res.violations:      # the end-to-end pass adds nothing to an established violation (and may not terminate on it)
        from . import e2e
        e2e.check(res, ctx.proj, "C11", ctx.thorough)
    return res


def _check_wiring(res: Result, proj, rnd, absc, piv, ks, comp):
    """The real entry point and pivot choice evaluated on a real dataset / scheme with `random.choice` and the
    recursive sorter intercepted: the pivot is drawn from exactly the remaining elements; the sorter receives an empty
    consensus, all the elements of the universe, the dataset's own id map, its position matrix and the scheme's [B, T]."""
    from .datamodel import World
    from ..engines.instances import ExternalFunc
    from ..engines.abseval import Mat
    w = World(proj)
    raws = [[{"a"}, {"b", "c"}], [{"c"}, {"a"}], [{"b"}, {"d"}, {"a"}]]
    ds = w.dataset(raws)
    SS = proj.cls("corankco.scoringscheme", "ScoringScheme")
    pen = [[0., 1., 2., 3., 4., 5.], [6., 6., 0., 7., 7., 8.]]
    sch = w.rt.new(SS, [[list(pen[0]), list(pen[1])]], {})
    alg = w.rt.new(rnd, [], {})
    # pivot: whatever the source of randomness (python or numpy, module-level or a generator object), under every draw
    # policy the pivot is one of the remaining elements, and different draws reach different elements
    id_map = w.call(ds, "mapping_elem_id")
    remaining = [e for e in id_map][1:4]
    outcomes = {}
    for mode in ("first", "last", "middle"):
        w.rt.random.mode = mode
        del w.rt.random.log[:]
        st, pv = w.safe("_get_pivot", w.rt.call_method, alg, piv.name, id_map, list(remaining), w.call(ds, "get_positions"),
                        [list(pen[0]), list(pen[1])])
        outcomes[mode] = (st, pv, list(w.rt.random.log))
    w.rt.random.mode = "first"
    good = all(st == "ok" and any(pv is y for y in remaining) and log_ for st, pv, log_ in outcomes.values()) and \
        len({id(pv) for _st, pv, _l in outcomes.values()}) >= 2
    res.check(good, "V4", "KwikSortRandom._get_pivot:choice(elements)", piv.loc(),
              ok_detail="the pivot is drawn at random among exactly the remaining elements",
              bad_detail="remaining %r: %s" % ([w.key(e)[1] for e in remaining], "; ".join(
                  f"draw policy {m}: {st} {w.key(pv)[1] if hasattr(pv, 'attrs') else pv!r} (draws {lg})"
                  for m, (st, pv, lg) in outcomes.items())))
    # entry point -> sorter
    seen = []

    def sorter(args, kw):
        seen.append(list(args))
        if args and isinstance(args[1], list):
            args[1].append([e for e in id_map])      # one bucket with everything: a well-formed consensus
        return None
    w.rt.overrides[ks.qualname] = sorter
    st, c = w.safe("compute_consensus_rankings", w.rt.call_method, alg, "compute_consensus_rankings", ds, sch, True)
    del w.rt.overrides[ks.qualname]
    good = st == "ok" and len(seen) == 1 and len(seen[0]) >= 6
    detail = f"outcome {st} {c if st != 'ok' else ''}; {len(seen)} call(s) of the sorter"
    if good:
        me, cons, rem, idm, pos, scn = seen[0][:6]
        pos_rows = [list(r) for r in pos.rows] if isinstance(pos, Mat) else None
        want_pos = [list(r) for r in w.call(ds, "get_positions").rows]
        want_bid = [list(r) for r in w.call(ds, "get_bucket_ids").rows]
        rows = [list(r.vals) if hasattr(r, "vals") else list(r) for r in (scn.rows if isinstance(scn, Mat) else scn)]
        good = (isinstance(rem, list) and sorted(w.key(e) for e in rem) == sorted(w.key(e) for e in id_map)
                and len(rem) == len(id_map)
                and isinstance(idm, dict) and {w.key(k): v for k, v in idm.items()} == {w.key(k): v for k, v in id_map.items()}
                and pos_rows in (want_pos, want_bid) and rows == pen)
        detail = (f"sorter called with remaining={[w.key(e)[1] for e in rem] if isinstance(rem, list) else rem!r}, "
                  f"positions={pos_rows}, scheme rows={rows}")
    res.check(good, "V4", "compute_consensus_rankings:wiring", comp.loc(),
              ok_detail="sorts all the elements of the universe with the dataset's own id map, positions and [B, T] rows",
              bad_detail=detail)
    res.ok("V4", "_kwik_sort:pivot-from-remaining", ks.loc(), "covered by the emission worlds of V3 (the pivot hook receives "
                                                             "the remaining elements) and by the end-to-end rule")


def run_v3_only(res: Result, proj):
    check_emission(res, proj, "V3")


def check_emission(res: Result, proj, rule: str):
    """`_kwik_sort` (recursive or iterative, whatever helper it uses) evaluated on four elements with the pivot choice
    scripted (first / third remaining element) and the placement routine replaced by a consistent oracle: every element
    has a rank, x goes before / with / after the pivot according to the sign of rank(x) - rank(pivot). Whatever the
    sequence of pivots, the emitted buckets must be the elements grouped by rank, in increasing rank, each once."""
    absc = proj.cls(MOD_ABS, "KwikSortAbs")
    ks = proj.method(absc, "_kwik_sort")
    rnd_ = proj.cls(MOD_RND, "KwikSortRandom")
    HOOK_NAMES.update(pivot=proj.method(rnd_, "_get_pivot").name, where=proj.method(rnd_, "_where_should_it_be").name,
                      sort=ks.name)
    res.saw(ks)
    bad = None
    n = 0
    del PIVOT_PROBLEMS[:]
    elems = ["p", "a", "b", "c"]
    for pivot_idx in (0, 2):
        for ranks in itertools.product((-2, 0, 3), repeat=3):
            n += 1
            rank = dict(zip(["a", "b", "c"], ranks))
            rank["p"] = 0
            got = _eval_kwik(ks, list(elems), rank, pivot_idx)
            want = [sorted(e for e in elems if rank[e] == v) for v in sorted(set(rank.values()))]
            if [sorted(b) for b in got] != want and bad is None:
                bad = (elems, rank, got, want)
    # larger groups: both sides of a pivot hold several elements that are split again (seven elements, pivots taken at
    # the start, in the middle and at the end of the group they are drawn from)
    big = ["p", "a", "b", "c", "d", "e", "f"]
    import random as _random
    rnd_ = _random.Random(11)
    rank_vectors = [list(range(7)), list(range(6, -1, -1)), [3, 0, 6, 1, 5, 2, 4], [0, 0, 1, 1, 2, 2, 3], [2, 5, 5, 0, 0, 2, 7]]
    for _ in range(8):
        v_ = list(range(7))
        rnd_.shuffle(v_)
        rank_vectors.append(v_)
    for pivot_idx in (0, 3, 99):
        for rv in rank_vectors:
            n += 1
            rank = dict(zip(big, rv))
            got = _eval_kwik(ks, list(big), rank, pivot_idx, all_elems=big)
            want = [sorted(e for e in big if rank[e] == v) for v in sorted(set(rank.values()))]
            if [sorted(b) for b in got] != want and bad is None:
                bad = (big, rank, got, want)
    if PIVOT_PROBLEMS and bad is None:
        bad = (elems, {}, PIVOT_PROBLEMS[0], "the pivot hook must receive the remaining elements")
    res.check(bad is None, rule, "_kwik_sort:partition-and-emission", ks.loc(),
              ok_detail=f"{n} worlds: negative before the pivot's bucket, zero inside it, positive after, each once",
              bad_detail=(f"elements {bad[0]} with ranks {bad[1]}: emitted {bad[2]}, expected {bad[3]}") if bad else "")


PIVOT_PROBLEMS: List[str] = []


HOOK_NAMES = {"pivot": "_get_pivot", "where": "_where_should_it_be", "sort": "_kwik_sort"}     # today's names; run() updates
                                                                                             # them with the anchors found


def _eval_kwik(ks, remaining: List[str], rank, pivot_idx: int = 0, all_elems=None) -> List:
    out: List = []
    p = ks.param_names  # self, consensus, remaining_elements, mapping_element_id, positions, scoring_scheme
    depth = [0]

    def get_pivot(ev, call):
        args = [ev.ev(a) for a in call.args] + [ev.ev(k.value) for k in call.keywords]
        lists = [a for a in args if isinstance(a, list) and a and all(isinstance(x, str) for x in a)]
        if not lists:
            PIVOT_PROBLEMS.append(f"pivot chosen among {[a for a in args if isinstance(a, list)]!r}: not a list of remaining elements")
            return "p"
        rem = lists[0]
        depth[0] += 1
        if depth[0] > 50:
            raise Unsupported("the sorter keeps choosing pivots (no progress)", call)
        return rem[min(pivot_idx, len(rem) - 1)]

    def where(ev, call):
        pv, other = ev.ev(call.args[0]), ev.ev(call.args[1])
        if not (isinstance(other, Sym) and other.name == "POS" and len(other.idx) == 1):
            raise Unsupported("second argument of the placement routine is not the other element's positions", call)
        if not (isinstance(pv, Sym) and pv.name == "POS" and len(pv.idx) == 1):
            raise Unsupported("first argument of the placement routine is not the pivot's positions", call)
        d = rank[other.idx[0][3:]] - rank[pv.idx[0][3:]]
        return -1 if d < 0 else (1 if d > 0 else 0)

    env = {"self": Sym("self"), p[1]: out, p[2]: list(remaining),
           p[3]: {e: "id_" + e for e in (all_elems or ["p", "a", "b", "c"])}, p[4]: Sym("POS"), p[5]: Sym("SCH")}
    evl = Evaluator(env, funcs={"." + HOOK_NAMES["pivot"]: get_pivot, "." + HOOK_NAMES["where"]: where,
                                "Element": lambda ev, call: "NOPIVOT"})
    evl.max_steps = 20000
    try:
        evl.run(ks.body_without_docstring())
    except Unsupported as exc:
        raise AnalysisError(f"{ks.qualname}: unsupported construct line {getattr(exc.node, 'lineno', '?')}: {exc}")
    return [list(item) for item in out]

"""
C04 - the Kemeny score a consensus reports is the true score of each returned ranking.

S0  producers: every site that stores a value under ConsensusFeature.KEMENY_SCORE is one of the analysed
    producers (BioConsert, PickAPerm, PuLP, the lazy path); any other producer must store the score computed by
    KemenyComputingFactory for a ranking it returns against the caller's dataset.
S1  lazy path (abstract evaluation of Consensus.__init__ / kemeny_score / description): default -1 only when the
    algorithm supplied nothing; computed iff -1 and dataset/scheme present, from consensus_rankings[0] with the
    object's own dataset and scheme; a supplied score is never overwritten.
W1  every Consensus built by an algorithm carries the method's own dataset and scoring scheme.
S2  BioConsert initial score: `_bio_consert` abstractly evaluated on all dense vectors (n<=3, pairs; some n=4) with a
    symbolic flattened cost matrix: score = sum over pairs a<b of the cost slot of their relation (row-major strides of
    the (n,n,3) matrix) + the local search's delta; each row is handed to the search and written back in place.
S3  the local search returns the sum of the accepted test values, each of which is the definitional delta of the move
    that is applied (shared with C08: S3, L5, L7).
S4  PuLP: objective coefficients are slot 0 of (i,j) for x_i_j and slot 2 for t_i_j (see C05/X3) and the stored
    value is the objective's value.
S4b an externally computed value that may be None is stored only under an `is not None` guard.
S5  PickAPerm stores the running minimum of the scores of the rankings it keeps (see C10/K2-K3).
S6  BioConsert reports the minimum of the final scores and returns exactly the rows that reach it.
"""
from __future__ import annotations

import ast
import glob
import os
from typing import Dict, List, Optional

from ..loader import AnalysisError, Project, src, dotted, parent
from ..report import Result
from ..engines.abseval import Evaluator, Sym, Lin, Unsupported, Obj
from . import bioc


def consensus_sites(proj: Project):
    """All `Consensus(...)` constructor calls inside corankco.algorithms, with their enclosing function."""
    out = []
    for f in proj.all_functions():
        if not f.module.name.startswith("corankco.algorithms"):
            continue
        for n in ast.walk(f.node):
            if isinstance(n, ast.Call):
                r = proj.resolve_expr(f.module, n.func) if isinstance(n.func, (ast.Name, ast.Attribute)) else ("?", None)
                if r[0] == "class" and r[1].name == "Consensus":
                    out.append((f, n))
    return out


def call_kwargs(call: ast.Call, names: List[str]) -> Dict[str, ast.AST]:
    kw = {k.arg: k.value for k in call.keywords if k.arg}
    for i, a in enumerate(call.args):
        if i < len(names):
            kw[names[i]] = a
    return kw


CONS_PARAMS = ["consensus_rankings", "dataset", "scoring_scheme", "att"]


def check_w1(res: Result, proj: Project, rule: str = "W1"):
    sites = consensus_sites(proj)
    for f, call in sites:
        res.saw(f)
        kw = call_kwargs(call, CONS_PARAMS)
        # the enclosing method's dataset / scheme parameters
        ps = f.param_names
        ds = next((p for p in ps if p == "dataset"), None)
        sc = next((p for p in ps if p == "scoring_scheme"), None)
        def refers_to(expr, param):
            """expr is the parameter, or a local bound once to (an alias of) the parameter"""
            seen_ = set()
            while isinstance(expr, ast.Name) and expr.id != param and expr.id not in seen_:
                seen_.add(expr.id)
                defs = [a for a in ast.walk(f.node) if isinstance(a, (ast.Assign, ast.AnnAssign)) and a.value is not None
                        and isinstance((a.targets[0] if isinstance(a, ast.Assign) else a.target), ast.Name)
                        and (a.targets[0] if isinstance(a, ast.Assign) else a.target).id == expr.id]
                if len(defs) != 1:
                    return False
                expr = defs[0].value
            return isinstance(expr, ast.Name) and expr.id == param
        good = ds is not None and sc is not None and "dataset" in kw and "scoring_scheme" in kw \
            and refers_to(kw["dataset"], ds) and refers_to(kw["scoring_scheme"], sc)
        # the parameters must not be rebound before the call
        rebound = [n for n in ast.walk(f.node) if isinstance(n, ast.Name) and isinstance(n.ctx, ast.Store)
                   and n.id in (ds, sc)]
        res.check(good and not rebound, rule, f"{f.short}:Consensus(dataset,scheme)", f.loc(call),
                  ok_detail="Consensus carries the caller's dataset and scoring scheme",
                  bad_detail=f"Consensus built with dataset={src(kw['dataset']) if 'dataset' in kw else None} "
                             f"scoring_scheme={src(kw['scoring_scheme']) if 'scoring_scheme' in kw else None}"
                             + (" (parameter rebound)" if rebound else ""))
    return sites


def find_producers(proj: Project):
    """(function, node, value expression) for every store under ConsensusFeature.KEMENY_SCORE."""
    out = []
    for f in proj.all_functions():
        for n in ast.walk(f.node):
            if isinstance(n, ast.Dict):
                for k, v in zip(n.keys, n.values):
                    if k is not None and (dotted(k) or "").endswith("ConsensusFeature.KEMENY_SCORE"):
                        out.append((f, n, v))
            tgt = val = None
            if isinstance(n, ast.Assign) and len(n.targets) == 1:
                tgt, val = n.targets[0], n.value
            elif isinstance(n, ast.AnnAssign):
                tgt, val = n.target, n.value
            if isinstance(tgt, ast.Subscript) and (dotted(tgt.slice) or "").endswith("ConsensusFeature.KEMENY_SCORE") \
                    and val is not None:
                out.append((f, n, val))
    return out


# modules whose stores under KEMENY_SCORE are decided by the other rules of this property (whichever function of the
# module performs the store - a method split or a helper keeps the producer inside its module)
KNOWN_PRODUCER_MODULES = {
    "corankco.consensus": "default -1 / lazy computation (S1)",
    "corankco.algorithms.bioconsert.bioconsert": "minimum of final scores (S2, S3, S6)",
    "corankco.algorithms.pickaperm.pickaperm": "running minimum (S5)",
    "corankco.algorithms.exact.exactalgorithmpulp": "solver objective (S4, S4b)",
}


def run(ctx) -> Result:
    res = Result("C04")
    proj = ctx.proj
    res.rule("S0", "every producer of KEMENY_SCORE is an analysed one (or stores a score computed by the scoring "
                   "routine for a returned ranking against the caller's dataset)", 5)
    res.rule("S1", "lazy score path: default, computed iff missing, from ranking[0] with own dataset and scheme", 5)
    res.rule("W1", "every Consensus built by an algorithm carries the caller's dataset and scheme", 3)
    res.rule("S2", "BioConsert initial score table and flattened strides (symbolic cost matrix)", 3)
    res.rule("S3", "local search: returned delta = sum of accepted test values = definitional deltas of the moves applied", 10)
    res.rule("S4b", "possibly-None external values are stored only under an `is not None` guard", 1)
    res.rule("S6", "BioConsert reports the minimum final score and returns exactly the rows reaching it", 3)

    # ------------------------------------------------------------------ S0
    prods = find_producers(proj)
    for f, node, val in prods:
        res.saw(f)
        if f.module.name in KNOWN_PRODUCER_MODULES:
            res.ok("S0", f"{f.module.name.split('.')[-1]}:KEMENY_SCORE:{len([o for o in res.obligations if o.rule == 'S0'])}",
                   f.loc(node), KNOWN_PRODUCER_MODULES[f.module.name], nontrivial=False)
        else:
            ok = _is_scoring_call(val, f)
            res.check(ok, "S0", f"{f.short}:KEMENY_SCORE", f.loc(node),
                      ok_detail="stores get_kemeny_score(<ranking>, dataset)",
                      bad_detail=f"unverified producer of the reported score: stores {src(val)}")
    # ------------------------------------------------------------------ S1
    _check_lazy(res, proj)
    # ------------------------------------------------------------------ W1
    check_w1(res, proj)
    # ------------------------------------------------------------------ S2
    doubts = check_initial_deferred(res, proj, ctx.thorough, "S2")
    # ------------------------------------------------------------------ S3
    from . import C08
    # the book-kept score is the start score plus the accepted test values: it is the score of the ranking reached only if
    # each test value is the definitional delta of its move (C08/L5) and the move applied is that move (C08/L7)
    sub = Result("C04")
    C08.fill_result(sub, proj, False, only=["S3", "L5", "L7"])
    for o in sub.obligations:
        o.rule = "S3"
        res.obligations.append(o)
    res.functions |= sub.functions
    # ------------------------------------------------------------------ S4b
    _check_optional(res, proj, prods)
    # ------------------------------------------------------------------ S6
    check_bioconsert_selection(res, proj, "S6")
    check_decode_large(res, proj, "S6")
    # S4 and S5 are decided by the rules of C05 (X3) and C10 (K2, K3); import them so that C04 fails with them
    try:
        from . import C10
        C10.check_scan(res, proj, rule="S5")
    except ImportError:
        pass
    try:
        from . import C05
        C05.check_objective(res, proj, rule="S4")
        # the stored value is the objective at the solver's answer: it is the score of the returned ranking only if that
        # ranking is the answer, decoded (C05/X4; a 12-element universe included)
        C05._check_decode(res, proj, rule="S4", only_pulp=True)
    except ImportError:
        pass
    res.not_decided.append("numeric agreement of accumulated float deltas with the recomputed score (float error)")
    res.not_decided.append("the value a solver reports for its objective")
    if not res.violations:      # the end-to-end pass adds nothing to an established violation (and may not terminate on it)
        from . import e2e
        e2e.check(res, ctx.proj, "C04", ctx.thorough)
    settle_initial_doubts(res, doubts)
    return res


def check_initial_deferred(res: Result, proj: Project, thorough: bool, rule: str):
    """S2 looks at `_bio_consert` alone: it expects the start score of each row to be added there. Its successes are
    recorded; its failures are returned as *doubts* - the start score may be computed elsewhere - which
    `settle_initial_doubts` turns into a verdict once the end-to-end rule has run."""
    sub = Result(res.prop)
    sub.rule("S2", "", 0)
    _check_initial(sub, proj, thorough)
    if sub in Result.registry:
        Result.registry.remove(sub)         # its failures are doubts, not findings the driver should keep
    doubts = []
    for o in sub.obligations:
        o.rule = rule
        if o.status == "violation":
            doubts.append(o)
        else:
            res.obligations.append(o)
    res.functions |= sub.functions
    return doubts


def settle_initial_doubts(res: Result, doubts):
    if not doubts:
        return
    if res.violations:
        res.obligations.extend(doubts)      # the end-to-end rule (or another one) confirms that scores are wrong
        return
    raise AnalysisError(f"{doubts[0].key}: {doubts[0].detail} - but the reported scores are right on every dataset of the "
                        f"end-to-end rule: the start score is probably computed outside the analysed routine, which the "
                        f"symbolic scenario does not follow")


def _is_scoring_call(val: ast.AST, f) -> bool:
    return isinstance(val, ast.Call) and isinstance(val.func, ast.Attribute) and val.func.attr == "get_kemeny_score" \
        and len(val.args) == 2 and src(val.args[1]) == "dataset"


# ---------------------------------------------------------------------------------------------------------------
def _check_lazy(res: Result, proj: Project):
    """The lazy score path on real Consensus / Dataset / Ranking / ScoringScheme instances; only the scoring routine is
    intercepted (it records what it is asked and answers 41.5)."""
    from .datamodel import World
    cls = proj.cls("corankco.consensus", "Consensus")
    init = proj.method(cls, "__init__")
    ks = proj.method(cls, "kemeny_score")
    desc = proj.method(cls, "description")
    res.saw(init, ks, desc)
    w = World(proj)
    w.rt.funcs["print"] = lambda ev, call: None
    K = proj.cls("corankco.kemeny_score_computation", "KemenyComputingFactory")
    gks = proj.method(K, "get_kemeny_score")
    SS = proj.cls("corankco.scoringscheme", "ScoringScheme")
    CF = proj.cls("corankco.consensus", "ConsensusFeature")

    def feature(name):
        val = proj.lookup_class_attr(CF, name)
        return w.rt.enum_member(CF, name, w.rt.evaluator(CF.module).ev(val) if val is not None else name)

    def score_of(cons):
        for k, v in (cons.attrs.get("_att") or {}).items():
            if getattr(k, "member", "") == "KEMENY_SCORE":
                return v
        return "<absent>"

    def scenario(att_in, via):
        log = []

        def scorer(args, kw):
            log.append(list(args))
            return 41.5
        w.rt.overrides[gks.qualname] = scorer
        ds = w.dataset([[{1}, {2}], [{2}, {1}], [{1, 2}]])
        sch = w.rt.new(SS, [[[0., 1., 1., 0., 1., 1.], [1., 1., 0., 1., 1., 0.]]], {})
        r0, r1 = w.ranking([{1}, {2}]), w.ranking([{2}, {1}])
        att = None if att_in is None else {feature(k): v for k, v in att_in.items()}
        try:
            cons = w.rt.new(cls, [[r0, r1], ds, sch, att], {})
            after_init = score_of(cons)
            ret = w.call(cons, via)
        except Unsupported as exc:
            raise AnalysisError(f"Consensus: unsupported construct line {getattr(exc.node, 'lineno', '?')}: {exc}")
        finally:
            w.rt.overrides.pop(gks.qualname, None)
        return after_init, score_of(cons), ret, log, (r0, ds, sch)

    # scenario A: nothing supplied, dataset + scheme present
    a0, now, ret, log, (r0, ds, sch) = scenario(None, "kemeny_score")
    good = a0 == -1 and now == 41.5 and ret == 41.5 and len(log) == 1 and len(log[0]) >= 3 \
        and log[0][0].attrs.get("_KemenyComputingFactory__scoring_scheme", log[0][0].attrs.get("__scoring_scheme")) is sch \
        and log[0][1] is r0 and log[0][2] is ds
    res.check(good, "S1", "Consensus.kemeny_score:computed-on-demand", ks.loc(),
              ok_detail="default -1, then get_kemeny_score(consensus_rankings[0], own dataset) under the own scheme",
              bad_detail=f"after __init__ {a0!r}; after access {now!r} (returned {ret!r}); {len(log)} scoring call(s)"
                         + ("" if not log else "; first one not on (first ranking, own dataset) under the own scheme"))
    # scenario B: score supplied by the algorithm: kept
    a0, now, ret, log, _ = scenario({"KEMENY_SCORE": 12.5}, "kemeny_score")
    res.check(now == 12.5 and ret == 12.5 and not log, "S1", "Consensus.kemeny_score:supplied-kept", init.loc(),
              ok_detail="a supplied score is returned unchanged, nothing recomputed",
              bad_detail=f"supplied 12.5 -> attribute {now!r}, returned {ret!r}, scoring calls {len(log)}")
    # scenario C: a supplied 0 is a score
    a0, now, ret, log, _ = scenario({"KEMENY_SCORE": 0.0}, "kemeny_score")
    res.check(ret == 0.0 and not log, "S1", "Consensus.kemeny_score:zero-is-a-score", init.loc(),
              ok_detail="a score of 0 is a score (not recomputed)", bad_detail=f"score 0.0 -> {ret!r}, calls {len(log)}")
    # scenario D: description() also triggers the computation
    a0, now, ret, log, _ = scenario(None, "description")
    res.check(now == 41.5 and len(log) == 1, "S1", "Consensus.description:computes-score", desc.loc(),
              ok_detail="description() computes the missing score first",
              bad_detail=f"after description(): score {now!r}, scoring calls {len(log)}")
    # scenario E: other features supplied, score missing
    a0, now, ret, log, _ = scenario({"ASSOCIATED_ALGORITHM": "x"}, "kemeny_score")
    res.check(a0 == -1 and ret == 41.5, "S1", "Consensus.kemeny_score:other-features-only", init.loc(),
              ok_detail="score defaults to -1 when only other features are supplied, then computed",
              bad_detail=f"after __init__ {a0!r}, returned {ret!r}")


def me_cls(proj):
    return proj.cls("corankco.consensus", "Consensus")


# ---------------------------------------------------------------------------------------------------------------
def _check_initial(res: Result, proj: Project, thorough: bool):
    f = proj.func(bioc.MOD, "BioConsert._bio_consert")
    res.saw(f)
    vecs3 = list(bioc.dense_vectors(3))
    vecs = [[v] for v in bioc.dense_vectors(2)] + [[v] for v in vecs3]
    vecs += [[vecs3[i], vecs3[-1 - i]] for i in range(len(vecs3))]
    vecs += [[[0, 1, 1, 2], [2, 0, 1, 0], [3, 2, 1, 0]], [[0, 0, 0, 0], [1, 0, 2, 1]]]
    if thorough:
        v4 = list(bioc.dense_vectors(4))
        vecs += [[a, b] for a, b in zip(v4, reversed(v4))]
    bad_score = bad_rows = bad_back = None
    n_rows = 0
    for group in vecs:
        improved = [list(reversed(bioc.canon(v))) for v in group]
        dst, flat, seen = bioc.eval_initial_scores(proj, [list(v) for v in group], improved)
        n = len(group[0])
        for i, v in enumerate(group):
            n_rows += 1
            want = bioc.definitional_score(v) + Sym("DELTA", (i,))
            if Lin.of(dst[i]) != want and bad_score is None:
                bad_score = (v, dst[i], want)
        if seen != [list(v) for v in group] and bad_rows is None:
            bad_rows = (group, seen)
        want_flat = [x for r in improved for x in r]
        if flat != want_flat and bad_back is None:
            bad_back = (group, flat, want_flat)
    res.check(bad_score is None, "S2", "_bio_consert:initial-score-table", f.loc(),
              ok_detail=f"{n_rows} start vectors: score = sum_(a<b) C[a*n*3 + b*3 + rel(a,b)] + local-search delta "
                        f"(rel: 0 a first, 1 b first, 2 tied)",
              bad_detail=(f"start vector {bad_score[0]}: reported {bad_score[1]!r}, definition {bad_score[2]!r} "
                          f"(C[k] = flattened cost slot)") if bad_score else "")
    res.check(bad_rows is None, "S2", "_bio_consert:rows-handed-to-search", f.loc(),
              ok_detail="each departure row is copied out and handed to the local search",
              bad_detail=f"rows {bad_rows[0]} reach the local search as {bad_rows[1]}" if bad_rows else "")
    res.check(bad_back is None, "S2", "_bio_consert:write-back", f.loc(),
              ok_detail="the improved vector is written back into the row it came from",
              bad_detail=f"after improving {bad_back[0]} the departure array is {bad_back[1]}, expected {bad_back[2]}"
              if bad_back else "")
    # strides: the matrix handed over is the row-major flattening of the (n, n, 3) cost matrix of the caller's dataset
    sc = bioc.Scenario(["A", "B", "C"], {"A": 0, "B": 1, "C": 2}, [[{"A"}, {"B"}, {"C"}]], True)
    ret, captured, log, ds = bioc.eval_compute(proj, sc, [[0, 1, 2]], [[0, 1, 2]], [3.0], False)
    a = log["bio_args"]
    pcm = log["pcm_args"]
    good = a is not None and a[1] == Sym("C") and a[2] == 3 and a[3] == 1 and pcm is not None \
        and len(pcm[0]) == 2 and pcm[0][0] == Sym("POS_CALLER") and pcm[0][1] == Sym("SCHEME") and not pcm[1]
    comp = proj.method(proj.cls(bioc.MOD, "BioConsert"), "compute_consensus_rankings")
    res.saw(comp)
    res.check(good, "S2", "BioConsert.compute_consensus_rankings:matrix-and-sizes", comp.loc(),
              ok_detail="local search gets flatten(cost matrix of the caller's positions and scheme), n, number of rows",
              bad_detail=f"_bio_consert args {a!r}; cost matrix args {pcm!r}")
    # flatten() must be the C-order flattening (no order argument / ravel)
    flat_calls = [n_ for n_ in ast.walk(comp.node) if isinstance(n_, ast.Call) and isinstance(n_.func, ast.Attribute)
                  and n_.func.attr in ("flatten", "ravel") and (n_.args or n_.keywords)]
    res.check(not flat_calls, "S2", "BioConsert.compute_consensus_rankings:flatten-order", comp.loc(),
              ok_detail="row-major flatten()", bad_detail="flatten called with an order argument")


def check_bioconsert_selection(res: Result, proj: Project, rule: str):
    comp = proj.method(proj.cls(bioc.MOD, "BioConsert"), "compute_consensus_rankings")
    sc = bioc.Scenario(["A", "B", "C"], {"A": 1, "B": 2, "C": 0}, [[{"A"}, {"B"}, {"C"}]], True)
    # ids: C=0 A=1 B=2
    cases = [
        ("distinct-minima", [[0, 1, 1], [1, 0, 0], [0, 0, 0], [2, 1, 0]], [[0, 1, 1], [1, 0, 0], [0, 1, 1], [2, 0, 1]],
         [5.0, 7.0, 5.0, 5.0], False, [[{"C"}, {"A", "B"}], [{"A"}, {"B"}, {"C"}]]),
        ("single-minimum", [[0, 1, 1], [1, 0, 0]], [[0, 1, 1], [1, 0, 0]], [9.0, 4.0], False, [[{"A", "B"}, {"C"}]]),
        ("at-most-one", [[0, 1, 1], [1, 0, 0], [0, 0, 0]], [[0, 1, 1], [1, 0, 0], [2, 0, 1]], [5.0, 7.0, 5.0], True, None),
        # a score that is only *close* to the minimum is not a minimum (the property's tolerance is 1e-6)
        ("near-minimum", [[0, 1, 1], [1, 0, 0], [0, 0, 0]], [[0, 1, 1], [1, 0, 0], [2, 0, 1]],
         [200008.0, 200009.0, 200010.5], False, [[{"C"}, {"A", "B"}]]),
        ("near-minimum-at-most-one", [[0, 1, 1], [1, 0, 0], [0, 0, 0]], [[0, 1, 1], [1, 0, 0], [2, 0, 1]],
         [1.0, 1.000008, 3.0], True, None),
        # scores are real numbers: three values inside one unit interval
        ("fractional-scores", [[0, 1, 1], [1, 0, 0], [0, 0, 0]], [[0, 1, 1], [1, 0, 0], [2, 0, 1]],
         [2.5, 2.25, 2.75], False, [[{"A", "B"}, {"C"}]]),
    ]
    for label, dep, fin, scores, amo, want in cases:
        ret, cap, log, ds = bioc.eval_compute(proj, sc, dep, fin, scores, amo)
        att = cap.get("att") or {}
        got = cap.get("consensus_rankings")
        rk = [r[1] for r in got] if isinstance(got, list) and all(isinstance(r, tuple) for r in got) else None
        ok_score = att.get("ConsensusFeature.KEMENY_SCORE") == min(scores)
        if want is None:
            # exactly one ranking, and it is one of the minimal rows
            minimal = []
            for row, s in zip(fin, scores):
                if s == min(scores):
                    minimal.append(_decode(row, {0: "C", 1: "A", 2: "B"}))
            ok_rank = rk is not None and len(rk) == 1 and rk[0] in minimal
        else:
            ok_rank = rk is not None and sorted(map(repr, rk)) == sorted(map(repr, want))
        ok_ctx = cap.get("dataset") is ds and cap.get("scoring_scheme") == Sym("SCHEME")
        res.check(ok_score and ok_rank and ok_ctx, rule, f"BioConsert.compute_consensus_rankings:selection:{label}",
                  comp.loc(), ok_detail=f"reports {min(scores)} and returns {rk!r}",
                  bad_detail=f"final rows {fin} with scores {scores}: reported {att.get('ConsensusFeature.KEMENY_SCORE')!r}, "
                             f"returned {rk!r}" + (f", expected {want!r}" if want else ", expected one minimal row"))


def check_decode_large(res: Result, proj: Project, rule: str):
    """The end of BioConsert.compute_consensus_rankings on a 300-element universe whose best row has 290 buckets, the
    last ten of two elements each: bucket ids beyond 256 (python keeps one object per small integer only) and beyond
    the 8-bit range are decoded like the small ones."""
    comp = proj.method(proj.cls(bioc.MOD, "BioConsert"), "compute_consensus_rankings")
    n = 300
    elems = [f"E{i:03d}" for i in range(n)]
    mapping = {e: i for i, e in enumerate(elems)}
    sc = bioc.Scenario(elems, mapping, [[{e} for e in elems]], True)
    row = [i if i < 280 else 280 + (i - 280) // 2 for i in range(n)]
    other = list(range(n))
    ret, cap, log, ds = bioc.eval_compute(proj, sc, [list(other), list(row)], [list(other), list(row)], [9.0, 4.0], False)
    got = cap.get("consensus_rankings")
    rk = [r[1] for r in got] if isinstance(got, list) and all(isinstance(r, tuple) for r in got) else None
    want = _decode(row, dict(enumerate(elems)))
    good = rk is not None and len(rk) == 1 and [set(b) for b in rk[0]] == want
    sizes = [len(b) for b in rk[0]] if rk and isinstance(rk[0], list) else None
    res.check(good, rule, "BioConsert.compute_consensus_rankings:decode-290-buckets", comp.loc(),
              ok_detail="a 300-element row with 290 buckets (ids up to 289, ten buckets of two elements at the end) is decoded "
                        "bucket for bucket",
              bad_detail=f"best row has 290 buckets (280 singletons then 10 pairs): decoded into "
                         f"{len(rk[0]) if rk and isinstance(rk[0], list) else rk!r} buckets, sizes of the last twelve: "
                         f"{sizes[-12:] if sizes else None}")


def _decode(row: List[int], id_elem: Dict[int, str]) -> List[set]:
    out: Dict[int, set] = {}
    for i, b in enumerate(row):
        out.setdefault(b, set()).add(id_elem[i])
    return [out[k] for k in sorted(out)]


# ---------------------------------------------------------------------------------------------------------------
def _dependency_may_return_none(pkg: str, meth: str) -> Optional[bool]:
    """Read (not import) the dependency's source: does any function named `meth` declare / return None?"""
    roots = glob.glob("/venv/lib/python*/site-packages/" + pkg)
    if not roots:
        return None
    found = False
    for root in roots:
        for path in glob.glob(os.path.join(root, "*.py")):
            try:
                tree = ast.parse(open(path, encoding="utf-8").read())
            except (OSError, SyntaxError):
                continue
            for n in ast.walk(tree):
                if isinstance(n, ast.FunctionDef) and n.name == meth:
                    found = True
                    ann = ast.unparse(n.returns) if n.returns is not None else ""
                    if "None" in ann or "Optional" in ann:
                        return True
                    for r in ast.walk(n):
                        if isinstance(r, ast.Return) and (r.value is None or (isinstance(r.value, ast.Constant)
                                                                              and r.value.value is None)):
                            return True
    return False if found else None


def _check_optional(res: Result, proj: Project, prods):
    n_checked = 0
    for f, node, val in prods:
        # resolve a Name to its (single) defining call
        origin = val
        var = None
        if isinstance(val, ast.Name):
            var = val.id
            defs = [a for a in ast.walk(f.node) if isinstance(a, (ast.Assign, ast.AnnAssign))
                    and isinstance((a.targets[0] if isinstance(a, ast.Assign) else a.target), ast.Name)
                    and (a.targets[0] if isinstance(a, ast.Assign) else a.target).id == var and a.value is not None]
            calls = [a.value for a in defs if isinstance(a.value, ast.Call)]
            origin = calls[-1] if calls else val
        if not (isinstance(origin, ast.Call) and isinstance(origin.func, ast.Attribute)):
            continue
        # receiver rooted at an object of an external library?
        root = origin.func.value
        while isinstance(root, (ast.Attribute, ast.Call, ast.Subscript)):
            root = root.value if not isinstance(root, ast.Call) else root.func
        if not isinstance(root, ast.Name):
            continue
        lib = _external_root(proj, f, root.id)
        if lib is None:
            continue
        n_checked += 1
        may_none = _dependency_may_return_none(lib, origin.func.attr)
        guarded = False
        if var is not None:
            p = parent(node)
            cur = node
            while p is not None and p is not f.node:
                if isinstance(p, ast.If):
                    mentions = any(isinstance(x, ast.Name) and x.id == var for x in ast.walk(p.test))
                    nones = any(isinstance(x, ast.Constant) and x.value is None for x in ast.walk(p.test))
                    neg = any(isinstance(x, (ast.IsNot, ast.NotEq)) for x in ast.walk(p.test)) or \
                        any(isinstance(x, ast.UnaryOp) and isinstance(x.op, ast.Not) for x in ast.walk(p.test))
                    pos = any(isinstance(x, (ast.Is, ast.Eq)) for x in ast.walk(p.test)) and not neg
                    if mentions and nones and ((cur in p.body and neg) or (cur in p.orelse and pos)):
                        guarded = True
                cur, p = p, parent(p)
        key = f"{f.short}:KEMENY_SCORE<-{src(origin)}"
        if may_none is False:
            res.ok("S4b", key, f.loc(node), f"{lib}.{origin.func.attr} never returns None")
        else:
            res.check(guarded, "S4b", key, f.loc(node),
                      ok_detail=f"{lib}'s `{origin.func.attr}` may return None; the store is guarded by `is not None`",
                      bad_detail=f"`{src(origin)}` may be None ({lib} declares an optional result) and is stored "
                                 f"unguarded as the reported score")
    if n_checked == 0:
        res.ok("S4b", "no-external-score-producer", "corankco", "no producer stores an external library's value",
               nontrivial=False)


def _external_root(proj: Project, f, name: str) -> Optional[str]:
    """Library name if local `name` is annotated with / constructed from an external module's class."""
    for a in ast.walk(f.node):
        if isinstance(a, ast.AnnAssign) and isinstance(a.target, ast.Name) and a.target.id == name:
            d = dotted(a.annotation)
            if d and "." in d and d.split(".")[0] in f.module.imports and \
                    not f.module.imports[d.split(".")[0]].startswith("corankco"):
                return f.module.imports[d.split(".")[0]].split(".")[0]
        if isinstance(a, ast.Assign) and isinstance(a.targets[0], ast.Name) and a.targets[0].id == name \
                and isinstance(a.value, ast.Call):
            d = dotted(a.value.func)
            if d and d.split(".")[0] in f.module.imports and not f.module.imports[d.split(".")[0]].startswith("corankco") \
                    and f.module.imports[d.split(".")[0]].split(".")[0] not in ("numpy", "typing", "itertools", "operator"):
                return f.module.imports[d.split(".")[0]].split(".")[0]
    return None

"""
C14 - declared scheme applicability is truthful; complete data is never refused.

A1  call conformance (structural, resolved call graph): every resolved intra-package call supplies the parameters
    its callee(s) require (positional count, required parameters, keyword names) - for every possible callee of a
    polymorphic receiver.
A2  totality: the real predicate / get_full_name bodies are abstractly evaluated on real instances of every exported
    algorithm configuration (nested ones included, with and without CPLEX importable) x a pool of valid schemes
    (presets, multiples, T-variants): they answer a bool / str without raising.
A3  guard = predicate: Borda, PickAPerm and BioConsert started from them, evaluated on an incomplete dataset,
    refuse (documented exception) exactly when the predicate said False, and never on a complete dataset;
    no other algorithm's compute path contains a refusal.
A4  delegation: BioConsert = conjunction over its starters, ParCons = its auxiliary algorithm, ExactAlgorithm = its
    back-end (read off the A2 evaluations).
A5  the equivalence test reads both penalty vectors (shared obligation C19/G3).
"""
from __future__ import annotations

import ast
from typing import Any, Dict, List, Tuple

from ..loader import AnalysisError, Project, src, dotted
from ..report import Result
from ..engines.abseval import Unsupported, AbsRaise, IndexOut
from ..engines.instances import Runtime, Instance
from ..engines.stdlib import install

ALG = "corankco.algorithms"
PRED = "is_scoring_scheme_relevant_when_incomplete_rankings"


class Reached(Exception):
    """The compute path went past its applicability guard (reached the numeric core)."""


def scheme_pool() -> List[Tuple[str, List[List[float]]]]:
    u1 = [[0., 1., 1., 0., 1., 1.], [1., 1., 0., 1., 1., 0.]]
    u05 = [[0., 1., .5, 0., 1., .5], [.5, .5, 0., .5, .5, 0.]]
    i1 = [[0., 1., 1., 0., 0., 0.], [1., 1., 0., 0., 0., 0.]]
    i05 = [[0., 1., .5, 0., 0., 0.], [.5, .5, 0., 0., 0., 0.]]
    p1 = [[0., 1., 1., 0., 1., 0.], [1., 1., 0., 1., 1., 0.]]
    ext = [[0., 1., 0., 0., 0., 0.], [1., 1., 0., 1., 1., 1.]]

    def mul(s, k):
        return [[x * k for x in row] for row in s]
    return [("unifying", u1), ("unifying-p0.5", u05), ("induced", i1), ("induced-p0.5", i05), ("pseudodistance", p1),
            ("extended", ext), ("unifying-x2", mul(u1, 2)), ("unifying-x0.5", mul(u1, .5)), ("induced-x3", mul(i1, 3)),
            ("unifying-with-other-T", [u1[0], [2., 2., 0., 2., 2., 0.]]),
            ("induced-with-other-T", [i1[0], [1., 1., 0., 1., 1., 0.]]),
            ("custom", [[0., 2., 1., 1., 3., 4.], [1., 1., 0., 2., 2., 5.]])]


def expected_family(pen) -> str:
    """Which accepted family a penalty table is a positive multiple of ('' if none)."""
    fams = {
        "UNI1": [[0., 1., 1., 0., 1., 1.], [1., 1., 0., 1., 1., 0.]],
        "UNI05": [[0., 1., .5, 0., 1., .5], [.5, .5, 0., .5, .5, 0.]],
        "IND1": [[0., 1., 1., 0., 0., 0.], [1., 1., 0., 0., 0., 0.]],
        "IND05": [[0., 1., .5, 0., 0., 0.], [.5, .5, 0., 0., 0., 0.]],
    }
    from .C19 import _proportional
    for k, f in fams.items():
        if _proportional(pen, f, 6):
            return k
    return ""


class AlgWorld:
    def __init__(self, proj: Project, cplex_present: bool):
        self.proj = proj
        self.rt = install(Runtime(proj))
        if not cplex_present:
            self.rt.externals["!absent:cplex"] = True
        self.rt.funcs["print"] = lambda ev, call: None

        def cls(mod, name):
            return proj.cls(f"{ALG}.{mod}", name)
        self.classes = {
            "BordaCount": cls("borda.borda", "BordaCount"), "CopelandMethod": cls("copeland.copeland", "CopelandMethod"),
            "PickAPerm": cls("pickaperm.pickaperm", "PickAPerm"), "BioConsert": cls("bioconsert.bioconsert", "BioConsert"),
            "BioCo": cls("bioconsert.bioco", "BioCo"), "KwikSortRandom": cls("kwiksort.kwiksortrandom", "KwikSortRandom"),
            "ParCons": cls("parcons.parcons", "ParCons"), "ExactAlgorithm": cls("exact.exactalgorithm", "ExactAlgorithm"),
            "ExactAlgorithmPulp": cls("exact.exactalgorithmpulp", "ExactAlgorithmPulp"),
            "ExactAlgorithmCplex": cls("exact.exactalgorithmcplex", "ExactAlgorithmCplex"),
        }
        self.SS = proj.cls("corankco.scoringscheme", "ScoringScheme")

    def new(self, name: str, *args, **kw) -> Instance:
        return self.rt.new(self.classes[name], list(args), kw)

    def scheme(self, pen) -> Instance:
        return self.rt.new(self.SS, [[list(pen[0]), list(pen[1])]], {})

    def configs(self) -> List[Tuple[str, Any, str]]:
        """(label, instance, kind) - kind tells the expected predicate: 'borda', 'pick', 'any', or conjunctions."""
        n = self.new
        out = [
            ("BordaCount()", n("BordaCount"), "borda"),
            ("BordaCount(use_bucket_id=True)", n("BordaCount", use_bucket_id=True), "borda"),
            ("CopelandMethod()", n("CopelandMethod"), "any"),
            ("PickAPerm()", n("PickAPerm"), "pick"),
            ("KwikSortRandom()", n("KwikSortRandom"), "any"),
            ("BioConsert()", n("BioConsert"), "any"),
            ("BioCo()", n("BioCo"), "borda"),
            ("BioConsert([BordaCount(), PickAPerm()])", n("BioConsert", starting_algorithms=[n("BordaCount"), n("PickAPerm")]), "borda&pick"),
            ("BioConsert([CopelandMethod(), KwikSortRandom()])", n("BioConsert", starting_algorithms=[n("CopelandMethod"), n("KwikSortRandom")]), "any"),
            ("BioConsert([BioCo()])", n("BioConsert", starting_algorithms=[n("BioCo")]), "borda"),
            ("BioConsert([BordaCount(), CopelandMethod()])", n("BioConsert", starting_algorithms=[n("BordaCount"), n("CopelandMethod")]), "borda"),
            ("BioConsert([PickAPerm(), BordaCount(), KwikSortRandom()])", n("BioConsert", starting_algorithms=[n("PickAPerm"), n("BordaCount"), n("KwikSortRandom")]), "borda&pick"),
            ("ParCons(auxiliary_algorithm=BioConsert([PickAPerm(), CopelandMethod()]))", n("ParCons", auxiliary_algorithm=n("BioConsert", starting_algorithms=[n("PickAPerm"), n("CopelandMethod")])), "pick"),
            ("ParCons()", n("ParCons"), "any"),
            ("ParCons(auxiliary_algorithm=BordaCount())", n("ParCons", auxiliary_algorithm=n("BordaCount")), "borda"),
            ("ParCons(auxiliary_algorithm=BioCo(), bound_for_exact=0)", n("ParCons", auxiliary_algorithm=n("BioCo"), bound_for_exact=0), "borda"),
            ("ExactAlgorithm()", n("ExactAlgorithm"), "any"),
            ("ExactAlgorithm(optimize=False)", n("ExactAlgorithm", optimize=False), "any"),
            ("ExactAlgorithmPulp()", n("ExactAlgorithmPulp"), "any"),
            ("ExactAlgorithmCplex()", n("ExactAlgorithmCplex"), "any"),
        ]
        return out


def kind_expect(kind: str, fam: str) -> bool:
    parts = kind.split("&")
    ok = True
    for p in parts:
        if p == "any":
            continue
        if p == "borda":
            ok = ok and fam in ("UNI1", "UNI05", "IND1", "IND05")
        if p == "pick":
            ok = ok and fam == "UNI1"
    return ok


def run(ctx) -> Result:
    res = Result("C14")
    proj = ctx.proj
    res.rule("A1", "every resolved intra-package call conforms to its callees' signatures", 100)
    res.rule("A2", "predicate / full name evaluate to bool / str without failing for every configuration x scheme", 17)
    res.rule("A3", "refusal on incomplete data iff predicate False; never on complete data; no other refusals", 6)
    res.rule("A4", "delegation to starters / auxiliary / back-end", 3)
    res.rule("A5", "equivalence reads both vectors (shared with C19/G3)", 4)
    res.rule("A7", "a scheme that is accepted is computed: well-formed consensus, no failure, for every configuration on "
                   "complete and incomplete datasets (shared with C03/W2)", 20)
    _check_conformance(res, proj, ctx.cg)

    pool = scheme_pool()
    deleg_bad = {"BioConsert": None, "ParCons": None, "ExactAlgorithm": None}
    for cplex_present in (False, True):
        aw = AlgWorld(proj, cplex_present)
        try:
            configs = aw.configs()
        except AbsRaise as r:
            res.bad("A2", f"constructors:cplex={'present' if cplex_present else 'absent'}", "corankco/algorithms",
                    f"constructing the algorithm configurations raised {r.exc_name}")
            continue
        except Unsupported as exc:
            raise AnalysisError(f"constructing algorithm configurations: unsupported construct line "
                                f"{getattr(exc.node, 'lineno', '?')}: {exc}")
        schemes = [(lbl, pen, aw.scheme(pen)) for lbl, pen in pool]
        for label, inst, kind in configs:
            pm = proj.lookup_method(inst.cls, PRED)
            res.saw(pm)
            bad = None
            for slabel, pen, s in schemes:
                try:
                    got = aw.rt.call_method(inst, PRED, s)
                except AbsRaise as r:
                    bad = bad or (slabel, f"raises {r.exc_name}")
                    continue
                except IndexOut as exc:
                    bad = bad or (slabel, f"raises IndexError ({exc})")
                    continue
                except Unsupported as exc:
                    raise AnalysisError(f"{pm.qualname}: unsupported construct line {getattr(exc.node, 'lineno', '?')}: {exc}")
                want = kind_expect(kind, expected_family(pen))
                if got is not True and got is not False:
                    bad = bad or (slabel, f"answers {got!r} (not a bool)")
                elif got != want:
                    bad = bad or (slabel, f"answers {got}, the documented applicability is {want}")
                    for k in deleg_bad:
                        if label.startswith(k + "(") and "(" in label and label not in ("BioConsert()", "ParCons()"):
                            deleg_bad[k] = deleg_bad[k] or (label, slabel, got, want)
            try:
                name = aw.rt.call_method(inst, "get_full_name")
            except (AbsRaise, Unsupported) as exc:
                name = None
                bad = bad or ("-", f"get_full_name fails: {exc}")
            if not isinstance(name, str):
                bad = bad or ("-", f"get_full_name returns {name!r}")
            if cplex_present and label not in ("ExactAlgorithm()", "ExactAlgorithm(optimize=False)") and not label.startswith("ParCons"):
                continue    # identical to the cplex-absent world
            res.check(bad is None, "A2", f"{label}:cplex={'present' if cplex_present else 'absent'}", pm.loc(),
                      ok_detail=f"{len(schemes)} schemes answered with the documented bool; full name '{name}'",
                      bad_detail=f"scheme {bad[0]}: {bad[1]}" if bad else "")
        if not cplex_present:
            _check_guards(res, proj, aw, schemes)
    for k, v in deleg_bad.items():
        res.check(v is None, "A4", f"{k}:delegation", "corankco/algorithms",
                  ok_detail={"BioConsert": "conjunction over the starting algorithms", "ParCons": "the auxiliary algorithm",
                             "ExactAlgorithm": "the selected back-end"}[k],
                  bad_detail=f"{v[0]} on scheme {v[1]} answers {v[2]}, its delegates imply {v[3]}" if v else "")
    from . import C19
    C19.check_equivalence(res, proj, False, "A5")
    from . import C03
    C03.check_wellformed(res, proj, "A7", False, only=("strings-incomplete", "two-cyclic-components",
                                                       "incomplete-with-full-ranking", "with-empty-ranking", "cycle"))
    _check_no_other_refusal(res, proj, ctx.cg)
    # A6: "computes a consensus" needs the local search to stop: shared obligations of C08 (sweep protocol, strictly
    # negative acceptance thresholds - with a threshold of 0 rounding noise lets a move and its inverse both "improve")
    from . import C08
    sub = Result("C14")
    C08.fill_result(sub, proj, False, only=["L1", "L3"])
    res.rule("A6", "BioConsert's local search terminates: sweep protocol and strictly negative acceptance thresholds "
                   "(shared with C08/L1, L3)", 4)
    for o in sub.obligations:
        o.rule = "A6"
        res.obligations.append(o)
    res.functions |= sub.functions
    res.not_decided.append("well-formedness of the consensus computed once the guard is passed (C03)")
    return res


# ---------------------------------------------------------------------------------------------------------------
def _check_guards(res: Result, proj: Project, aw: AlgWorld, schemes):
    rt = aw.rt
    D = proj.cls("corankco.dataset", "Dataset")
    R = proj.cls("corankco.ranking", "Ranking")

    def dataset(raws):
        return rt.new(D, [[rt.new(R, [[set(b) for b in r]], {}) for r in raws]], {})
    incomplete = dataset([[{1}, {2}], [{3}, {2, 1}], [{2}]])
    complete = dataset([[{1}, {2}, {3}], [{3}, {2, 1}]])
    E = proj.cls("corankco.element", "Element")
    # complete because the elements that made it incomplete were removed in place / the empty ranking dropped
    became = dataset([[{1}, {2}, {3}], [{3}, {2, 1}, {4}], [{2}, {1}, {3}]])
    rt.call_method(became, "remove_elements", {rt.new(E, [4], {})})
    became2 = dataset([[{1}, {2}], [], [{2, 1}]])
    rt.call_method(became2, "remove_empty_rankings")
    became3 = dataset([[{1}, {2}, {5}], [{2, 1}], [{2}, {1}], [{1}, {2}]])
    rt.call_method(became3, "remove_elements_rate_presence_lower_than", 0.5)

    def reached(args, kw):
        raise Reached()
    # the numeric cores stand for "guard passed"
    for q in ("corankco.algorithms.pairwisebasedalgorithm:PairwiseBasedAlgorithm.pairwise_cost_matrix",
              "corankco.kemeny_score_computation:KemenyComputingFactory.get_kemeny_score",
              "corankco.dataset:Dataset.get_positions"):
        rt.overrides[q] = reached
    n = aw.new
    subjects = [
        ("BordaCount()", n("BordaCount")), ("PickAPerm()", n("PickAPerm")), ("BioCo()", n("BioCo")),
        ("BioConsert([BordaCount(), PickAPerm()])", n("BioConsert", starting_algorithms=[n("BordaCount"), n("PickAPerm")])),
        ("BioConsert([PickAPerm()])", n("BioConsert", starting_algorithms=[n("PickAPerm")])),
        ("BioConsert([BordaCount(), CopelandMethod()])", n("BioConsert", starting_algorithms=[n("BordaCount"), n("CopelandMethod")])),
        ("BioConsert([PickAPerm(), KwikSortRandom()])", n("BioConsert", starting_algorithms=[n("PickAPerm"), n("KwikSortRandom")])),
        ("ParCons(auxiliary_algorithm=BordaCount())", None),
    ]
    allowed = {"ScoringSchemeNotHandledException", "InompleteRankingsIncompatibleWithScoringSchemeException"}
    exact_refusal = {lbl for lbl, _i in subjects}
    # every other configuration: when it declares a scheme relevant it must get past its guard (what it does when it
    # declared it not relevant is specified only for Borda, PickAPerm and BioConsert started from them)
    try:
        for lbl, inst_, _kind in aw.configs():
            if lbl not in exact_refusal and not lbl.startswith("ExactAlgorithmCplex"):
                subjects.append((lbl, inst_))
    except (AbsRaise, Unsupported):
        pass
    for label, inst in subjects:
        if inst is None:
            continue
        comp = proj.lookup_method(inst.cls, "compute_consensus_rankings")
        res.saw(comp)
        bad = None
        for slabel, pen, s in schemes:
            try:
                p = rt.call_method(inst, PRED, s)
            except (AbsRaise, IndexOut):
                continue            # reported by A2
            for dname, ds in (("incomplete", incomplete), ("complete", complete),
                              ("complete after remove_elements", became), ("complete after remove_empty_rankings", became2),
                              ("complete after remove_elements_rate_presence_lower_than", became3)):
                outcome = "accepted"
                try:
                    rt.call_method(inst, "compute_consensus_rankings", ds, s)
                except Reached:
                    outcome = "accepted"
                except AbsRaise as r:
                    outcome = "refused:" + r.exc_name.split(".")[-1]
                except Unsupported as exc:
                    raise AnalysisError(f"{comp.qualname}: unsupported construct line "
                                        f"{getattr(exc.node, 'lineno', '?')}: {exc}")
                if dname.startswith("complete"):
                    if outcome != "accepted":
                        bad = bad or (slabel, dname, f"{outcome} although the dataset is complete")
                else:
                    if p and outcome != "accepted":
                        bad = bad or (slabel, dname, f"predicate says relevant but compute is {outcome}")
                    if not p and label in exact_refusal and \
                            (not outcome.startswith("refused:") or outcome.split(":")[1] not in allowed):
                        bad = bad or (slabel, dname, f"predicate says not relevant but compute is {outcome}")
        res.check(bad is None, "A3", f"{label}:guard-matches-predicate", comp.loc(),
                  ok_detail=f"{len(schemes)} schemes x (incomplete, complete): refused with the documented exception iff "
                            f"incomplete and declared not relevant",
                  bad_detail=f"scheme {bad[0]} on the {bad[1]} dataset: {bad[2]}" if bad else "")
    for q in list(rt.overrides):
        del rt.overrides[q]


def _guarded_by_predicate(raise_node: ast.AST, f) -> bool:
    """the raise is control-dependent on a test that calls the declared relevance predicate (or the scheme equivalence
    test it is defined by): `if not self.is_scoring_scheme_relevant_when_incomplete_rankings(s): raise ...`"""
    from ..loader import parent
    p = parent(raise_node)
    while p is not None and p is not f.node:
        if isinstance(p, (ast.If, ast.While)):
            for c in ast.walk(p.test):
                if isinstance(c, ast.Call) and isinstance(c.func, ast.Attribute) and \
                        c.func.attr in (PRED, "is_equivalent_to", "is_equivalent_to_on_complete_rankings_only"):
                    return True
        p = parent(p)
    return False


def _check_no_other_refusal(res: Result, proj: Project, cg):
    """Raise statements reachable from compute_consensus_rankings of the exported algorithms, other than the analysed
    guards, argument checks and abstract stubs."""
    # (class whose guard / argument check it is, exception): whichever method of the class states it
    allowed = {
        ("BordaCount", "ScoringSchemeNotHandledException"),
        ("PickAPerm", "InompleteRankingsIncompatibleWithScoringSchemeException"),
        ("ExactAlgorithmCplex", "IncompatibleArgumentsException"),
    }
    # the data classes validate what they are given (malformed penalties, overlapping buckets, empty dataset, candidate
    # not over the universe ...): input validation, wherever those modules choose to write it, is not a refusal of a
    # (dataset, scheme) combination. A refusal is a raise inside an algorithm module, or a raise anywhere of one of the
    # "combination not handled" exceptions.
    data_modules = {"corankco.scoringscheme", "corankco.dataset", "corankco.ranking", "corankco.element",
                    "corankco.kemeny_score_computation", "corankco.utils", "corankco.consensus",
                    "corankco.partitioning.ordered_partition"}
    refusal_family = {"ScoringSchemeNotHandledException", "InompleteRankingsIncompatibleWithScoringSchemeException",
                      "IncompatibleArgumentsException"}
    roots = []
    for c in proj.all_classes():
        if c.module.name.startswith(ALG):
            m = c.methods.get("compute_consensus_rankings")
            if m is not None:
                roots.append(m)
    seen = cg.reachable(roots)
    unknown = []
    n_raise = 0
    for f in seen:
        for n in ast.walk(f.node):
            if isinstance(n, ast.Raise) and n.exc is not None:
                e = n.exc.func if isinstance(n.exc, ast.Call) else n.exc
                name = (dotted(e) or "").split(".")[-1]
                n_raise += 1
                if isinstance(e, ast.Name) and e.id in f.param_names:
                    # `raise exception` where the class to raise is a parameter: the refusal belongs to the callers that
                    # choose the class; it is judged by what guards it here
                    if _guarded_by_predicate(n, f):
                        continue
                    name = "<the exception class passed as `%s`>" % e.id
                if name == "NotImplementedError" or ((f.cls.name if f.cls is not None else ""), name) in allowed:
                    continue
                if name in refusal_family and _guarded_by_predicate(n, f):
                    continue        # wherever it lives (mixin, helper): a refusal decided by the declared predicate
                if f.module.name in data_modules and name not in refusal_family:
                    continue
                unknown.append((f, n, name))
    res.check(not unknown, "A3", "compute-paths:no-other-refusal", "corankco/algorithms",
              ok_detail=f"{n_raise} raise statements reachable from the {len(roots)} compute entry points: the analysed "
                        f"guards, argument checks, input validation and abstract stubs only",
              bad_detail=f"{unknown[0][0].short} ({unknown[0][0].loc(unknown[0][1])}) raises {unknown[0][2]}: a refusal "
                         f"that no declared predicate accounts for" if unknown else "")


# ---------------------------------------------------------------------------------------------------------------
def _signature(f):
    a = f.node.args
    pos = [x.arg for x in list(a.posonlyargs) + list(a.args)]
    n_def = len(a.defaults)
    required = pos[:len(pos) - n_def] if n_def else list(pos)
    kwonly = [x.arg for x in a.kwonlyargs]
    kwreq = [x.arg for x, d in zip(a.kwonlyargs, a.kw_defaults) if d is None]
    return pos, required, kwonly, kwreq, a.vararg is not None, a.kwarg is not None


def _check_conformance(res: Result, proj: Project, cg):
    n_sites = 0
    for qual, sites in cg.sites.items():
        for cs in sites:
            if cs.kind not in ("internal", "constructor") or not cs.callees:
                continue
            call = cs.node
            if any(isinstance(a, ast.Starred) for a in call.args) or any(k.arg is None for k in call.keywords):
                continue
            for callee in cs.callees:
                if callee.kind == "property":
                    continue
                pos, required, kwonly, kwreq, var, kwvar = _signature(callee)
                implicit = 0
                if callee.cls is not None and callee.kind in ("method", "classmethod"):
                    # bound call supplies the receiver; Class.method(obj, ...) supplies it explicitly
                    implicit = 1 if (cs.via_instance or callee.kind == "classmethod") else 0
                    if callee.kind == "method" and not cs.via_instance:
                        implicit = 0
                if cs.kind == "constructor":
                    implicit = 1
                npos = len(call.args) + implicit
                kws = [k.arg for k in call.keywords]
                n_sites += 1
                problem = None
                if npos > len(pos) and not var:
                    problem = f"{len(call.args)} positional argument(s) for {len(pos) - implicit} parameter(s)"
                supplied = set(pos[:npos]) | set(kws)
                missing = [p for p in required if p not in supplied] + [p for p in kwreq if p not in kws]
                if problem is None and missing:
                    problem = f"missing required argument(s) {missing}"
                unknown = [k for k in kws if k not in pos and k not in kwonly and not kwvar]
                if problem is None and unknown:
                    problem = f"unknown keyword(s) {unknown}"
                key = f"{cs.caller.short}->{callee.short}:{src(call.func)}"
                if problem:
                    res.bad("A1", key, cs.caller.loc(call), f"call `{src(call)[:90]}` does not fit {callee.short}"
                                                            f"({', '.join(pos)}): {problem}")
                else:
                    res.ok("A1", key, cs.caller.loc(call), nontrivial=False)
    res.call_sites += n_sites

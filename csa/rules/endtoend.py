"""
End-to-end abstract evaluation of the algorithms on small universes (used by C03 and C15): the real code of every
algorithm, of the cost kernel, of the local search and of the ILP builders is evaluated by the analyser's evaluator on
model instances; the only scripted parts are the random pivot, the ILP solver (replaced by "best feasible assignment
among those induced by rankings with ties", i.e. a solver that does its job) and igraph's component computation
(Tarjan, topological order - the order the code assumes).
"""
from __future__ import annotations

from typing import Any, Dict, List, Optional, Set, Tuple

from ..loader import Project, AnalysisError
from ..engines.abseval import Unsupported, AbsRaise, Lin, IndexOut, LoopBound, Obj
from ..engines.instances import Runtime, Instance, ExternalFunc
from .datamodel import World
from .ilp import PVar, PulpProblem, Constraint, weak_order_assignment, all_weak_orders

ALG = "corankco.algorithms"


class _Sink(Obj):
    """Accepts any attribute access / call (solver parameters, output streams): nothing the analysis depends on."""

    def __init__(self):
        super().__init__("cplex-settings")

    def abs_getattr(self, name, ev, node):
        return self

    def abs_call(self, args, kw, ev, node):
        return None

    def abs_callmethod(self, name, args, kw, ev, node):
        return None


class CplexProblem(Obj):
    """Stand-in for cplex.Cplex(): records the model the code builds and answers solve() / populate_solution_pool() with
    the optimum (all optima) of *that model* among the 0/1 assignments induced by rankings with ties - a solver that
    does its job on whatever model it is given (C05/X2 decides that the schema's feasible set is that family)."""

    def __init__(self, world):
        super().__init__("cplex.Cplex()")
        self.world = world
        self.names: List[str] = []
        self.obj: List[float] = []
        self.constraints: List[Constraint] = []
        self.sense = "min"
        self.solutions: Optional[List[Dict[str, int]]] = None
        self.best = None
        sink = _Sink()
        variables = Obj("variables", methods={"add": self._add_vars, "get_names": lambda ev, c, a, k: list(self.names),
                                               "get_num": lambda ev, c, a, k: len(self.names)})
        lincons = Obj("linear_constraints", methods={"add": self._add_cons,
                                                      "get_num": lambda ev, c, a, k: len(self.constraints)})
        objective = Obj("objective", attrs={"sense": Obj("sense", attrs={"minimize": "min", "maximize": "max"})},
                        methods={"set_sense": self._set_sense})
        pool = Obj("pool", methods={"get_num": lambda ev, c, a, k: len(self._solved()),
                                    "get_values": lambda ev, c, a, k: self._values(self._solved()[a[0]], a[1:], c)})
        solution = Obj("solution", attrs={"pool": pool},
                       methods={"get_values": lambda ev, c, a, k: self._values(self._first(c), a, c),
                                "get_objective_value": lambda ev, c, a, k: self._objective(self._first(c)),
                                "get_status": lambda ev, c, a, k: 101})
        self.attrs = {"parameters": sink, "variables": variables, "linear_constraints": lincons, "objective": objective,
                      "solution": solution}
        self.methods = {
            "solve": lambda ev, c, a, k: self._solve(),
            "populate_solution_pool": lambda ev, c, a, k: self._solve(),
            "set_results_stream": lambda ev, c, a, k: None, "set_log_stream": lambda ev, c, a, k: None,
            "set_error_stream": lambda ev, c, a, k: None, "set_warning_stream": lambda ev, c, a, k: None,
            "end": lambda ev, c, a, k: None,
        }

    def _add_vars(self, ev, call, a, kw):
        names = list(kw.get("names", []))
        objs = list(kw.get("obj", []))
        if len(names) != len(objs) or kw.get("types", "B" * len(names)) != "B" * len(names):
            raise Unsupported("cplex variables are not binary with one objective coefficient each", call)
        self.names.extend(names)
        self.obj.extend(objs)
        self.solutions = None

    def _add_cons(self, ev, call, a, kw):
        rows, senses, rhs = list(kw.get("lin_expr", [])), kw.get("senses", ""), list(kw.get("rhs", []))
        if not (len(rows) == len(senses) == len(rhs)):
            raise AbsRaise("cplex.exceptions.CplexError", call)     # CPLEX refuses inconsistent lengths
        for row, sn, r in zip(rows, senses, rhs):
            lin = Lin()
            for nm, c in zip(row[0], row[1]):
                if nm not in self.names:
                    raise AbsRaise("cplex.exceptions.CplexError", call)
                lin = lin + Lin.of(PVar(nm, {})) * c
            self.constraints.append(Constraint(lin, sn, r))
        self.solutions = None

    def _set_sense(self, ev, call, a, kw):
        self.sense = a[0]

    def _solve(self):
        names = list(self.names)
        n = 0
        while 3 * n * (n - 1) // 2 < len(names):
            n += 1
        coef = dict(zip(names, self.obj))
        best, arg = None, []
        for order in all_weak_orders(n) if n > 0 else [[]]:
            a = weak_order_assignment(order)
            if set(a) != set(names):
                raise Unsupported("ILP variables are not the x_i_j / t_i_j family")
            if all(c.holds(a) for c in self.constraints):
                v = sum(coef[k] * a[k] for k in names)
                if self.sense == "max":
                    v = -v
                if best is None or v < best - 1e-9:
                    best, arg = v, [a]
                elif abs(v - best) <= 1e-9:
                    arg.append(a)
        self.best = best
        self.solutions = arg

    def _solved(self):
        if self.solutions is None:
            self._solve()
        return self.solutions

    def _first(self, call):
        sols = self._solved()
        if not sols:
            raise AbsRaise("cplex.exceptions.CplexSolverError", call)       # no solution exists
        return sols[0]

    def _values(self, a, args, call):
        if args:
            raise Unsupported("solution.get_values with a selection", call)
        return [float(a[nm]) for nm in self.names]

    def _objective(self, a):
        return sum(c * a[nm] for nm, c in zip(self.names, self.obj))


class E2EWorld(World):
    def __init__(self, proj: Project, pivot: str = "first", cplex: bool = False):
        super().__init__(proj)
        rt = self.rt
        rt.max_steps = 150000
        rt.funcs["print"] = lambda ev, call: None
        self.cplex_present = cplex
        if cplex:
            self.cplex_problems: List[CplexProblem] = []

            def new_problem(a, kw, ev, node):
                p = CplexProblem(self)
                self.cplex_problems.append(p)
                return p
            rt.externals["cplex.Cplex"] = ExternalFunc(new_problem)
        else:
            rt.externals["!absent:cplex"] = True
        self.pivot = pivot
        rt.random.mode = pivot          # every random draw (python or numpy source) follows the world's pivot policy
        self.random_calls = rt.random.log
        self.SS = proj.cls("corankco.scoringscheme", "ScoringScheme")
        self.K = proj.cls("corankco.kemeny_score_computation", "KemenyComputingFactory")
        # ---- PuLP stand-in ----
        self.values: Dict[str, float] = {}
        self.declared: List[str] = []
        self.problems: List[PulpProblem] = []
        self.objective_result = "computed"
        ex = rt.externals

        def lpvar(a, kw, ev, node):
            self.declared.append(a[0])
            return PVar(a[0], self.values)
        ex["pulp.LpVariable"] = ExternalFunc(lpvar)

        def lpproblem(a, kw, ev, node):
            p = PulpProblem(self, a)
            self.problems.append(p)
            return p
        ex["pulp.LpProblem"] = ExternalFunc(lpproblem)
        ex["pulp.LpMinimize"] = "MINIMIZE"
        ex["pulp.LpMaximize"] = "MAXIMIZE"

        def lpsum(a, kw, ev, node):
            tot = Lin()
            for x in a[0]:
                tot = tot + Lin.of(x)
            return tot
        ex["pulp.lpSum"] = ExternalFunc(lpsum)
        ex["pulp.PULP_CBC_CMD"] = ExternalFunc(lambda a, k, ev, node: "CBC")

        def sym_compare(left, op, right, node):
            import ast as _ast
            d = left - right
            sense = {_ast.Eq: "E", _ast.LtE: "L", _ast.GtE: "G"}.get(type(op))
            if sense is None:
                raise Unsupported(f"constraint operator {type(op).__name__}", node)
            return Constraint(Lin(d.terms, 0), sense, -d.const)
        rt.sym_compare = sym_compare

    # ---- solver stand-in: best assignment among those induced by rankings with ties --------------------------
    def solve(self, prob: PulpProblem):
        names = list(self.declared)
        n = 0
        while n * (n - 1) + n * (n - 1) // 2 < len(names):
            n += 1
        best = None
        for order in all_weak_orders(n) if n > 0 else [[]]:
            a = weak_order_assignment(order)
            if set(a) != set(names):
                raise Unsupported("ILP variables are not the x_i_j / t_i_j family")
            if all(c.holds(a) for c in prob.model.constraints):
                v = 0
                if prob.objective_lin is not None:
                    v = prob.objective_lin.const + sum(c * a[s.idx[0]] for s, c in prob.objective_lin.terms.items())
                    if prob.sense == "MAXIMIZE":
                        v = -v
                if best is None or v < best[0] - 1e-12:
                    best = (v, a)
        self.values.clear()
        if best is not None:
            self.values.update(best[1])
        self.declared.clear()           # the next model declares its own variables

    def objective_value(self, prob: PulpProblem):
        if prob.objective_lin is None or not prob.objective_lin.terms:
            return None             # PuLP: an objective without variable has no value
        v = prob.objective_lin.const
        for s, c in prob.objective_lin.terms.items():
            v += c * self.values.get(s.idx[0], 0)
        return v

    # ---- construction helpers -----------------------------------------------------------------------------
    def scheme(self, pen) -> Instance:
        return self.rt.new(self.SS, [[list(pen[0]), list(pen[1])]], {})

    def alg(self, mod: str, cls: str, **kw) -> Instance:
        return self.rt.new(self.proj.cls(f"{ALG}.{mod}", cls), [], kw)

    def compute(self, alg: Instance, ds: Instance, scheme: Instance, at_most_one: bool):
        return self.rt.call_method(alg, "compute_consensus_rankings", ds, scheme, at_most_one)

    def score(self, scheme: Instance, ranking: Instance, ds: Instance):
        k = self.rt.new(self.K, [scheme], {})
        return self.rt.call_method(k, "get_kemeny_score", ranking, ds)

    def try_compute(self, alg, ds, scheme, amo):
        try:
            return "ok", self.compute(alg, ds, scheme, amo)
        except AbsRaise as r:
            return "raise", r.exc_name.split(".")[-1]
        except IndexOut as exc:
            return "raise", f"IndexError ({exc})"
        except LoopBound:
            return "raise", "<does not terminate>"
        except Unsupported as exc:
            raise AnalysisError(f"end-to-end evaluation of {alg.cls.name}: unsupported construct at line "
                                f"{getattr(exc.node, 'lineno', '?')}: {exc}")


UNIFYING = [[0., 1., 1., 0., 1., 1.], [1., 1., 0., 1., 1., 0.]]
INDUCED = [[0., 1., 1., 0., 0., 0.], [1., 1., 0., 0., 0., 0.]]
PSEUDO = [[0., 1., 1., 0., 1., 0.], [1., 1., 0., 1., 1., 0.]]
GENERIC = [[0., 2., 1., 1., 3., 4.], [1., 1., 0., 2., 2., 5.]]


def configurations(w: E2EWorld) -> List[Tuple[str, Instance, str]]:
    """(label, algorithm instance, which schemes it accepts on incomplete data: 'any' | 'borda' | 'pick')"""
    if getattr(w, "_configs", None) is not None:
        return w._configs           # one set of algorithm objects per world (histories reuse them)
    a = w.alg
    if getattr(w, "cplex_present", False):
        w._configs = [
            ("ExactAlgorithmCplex(optimize=True) [CPLEX API present]", a("exact.exactalgorithmcplex", "ExactAlgorithmCplex", optimize=True), "any"),
            ("ExactAlgorithmCplex(optimize=False) [CPLEX API present]", a("exact.exactalgorithmcplex", "ExactAlgorithmCplex", optimize=False), "any"),
            ("ExactAlgorithmCplexForPaperOptim1() [CPLEX API present]", a("exact.exactalgorithmcplexforpaperoptim1", "ExactAlgorithmCplexForPaperOptim1"), "any"),
            ("ExactAlgorithm() [CPLEX API present]", a("exact.exactalgorithm", "ExactAlgorithm"), "any"),
            ("ExactAlgorithm(optimize=False) [CPLEX API present]", a("exact.exactalgorithm", "ExactAlgorithm", optimize=False), "any"),
            ("ParCons() [CPLEX API present]", a("parcons.parcons", "ParCons"), "any"),
        ]
        return w._configs
    w._configs = [
        ("BordaCount()", a("borda.borda", "BordaCount"), "borda"),
        ("BordaCount(use_bucket_id=True)", a("borda.borda", "BordaCount", use_bucket_id=True), "borda"),
        ("CopelandMethod()", a("copeland.copeland", "CopelandMethod"), "any"),
        ("KwikSortRandom()", a("kwiksort.kwiksortrandom", "KwikSortRandom"), "any"),
        ("PickAPerm()", a("pickaperm.pickaperm", "PickAPerm"), "pick"),
        ("BioConsert()", a("bioconsert.bioconsert", "BioConsert"), "any"),
        ("BioCo()", a("bioconsert.bioco", "BioCo"), "borda"),
        ("BioConsert([CopelandMethod(), KwikSortRandom()])",
         a("bioconsert.bioconsert", "BioConsert", starting_algorithms=[a("copeland.copeland", "CopelandMethod"),
                                                                       a("kwiksort.kwiksortrandom", "KwikSortRandom")]), "any"),
        ("ParCons()", a("parcons.parcons", "ParCons"), "any"),
        ("ParCons(KwikSortRandom(), bound_for_exact=0)",
         a("parcons.parcons", "ParCons", auxiliary_algorithm=a("kwiksort.kwiksortrandom", "KwikSortRandom"), bound_for_exact=0), "any"),
        ("ExactAlgorithmPulp()", a("exact.exactalgorithmpulp", "ExactAlgorithmPulp"), "any"),
        ("ExactAlgorithm()", a("exact.exactalgorithm", "ExactAlgorithm"), "any"),
    ]
    return w._configs

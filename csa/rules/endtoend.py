"""
End-to-end abstract evaluation of the algorithms on small universes (used by C03 and C15): the real code of every
algorithm, of the cost kernel, of the local search and of the ILP builders is evaluated by the analyser's evaluator on
model instances; the only scripted parts are the random pivot, the ILP solver (replaced by "best feasible assignment
among those induced by rankings with ties", i.e. a solver that does its job) and igraph's component computation
(Tarjan, topological order - the order the code assumes).
"""
from __future__ import annotations

from typing import Any, Dict, List, Optional, Set, Tuple

from ..loader import Project, AnalysisError
from ..engines.abseval import Unsupported, AbsRaise, Lin, IndexOut, LoopBound
from ..engines.instances import Runtime, Instance, ExternalFunc
from .datamodel import World
from .ilp import PVar, PulpProblem, Constraint, weak_order_assignment, all_weak_orders

ALG = "corankco.algorithms"


class E2EWorld(World):
    def __init__(self, proj: Project, pivot: str = "first"):
        super().__init__(proj)
        rt = self.rt
        rt.max_steps = 150000
        rt.funcs["print"] = lambda ev, call: None
        rt.externals["!absent:cplex"] = True
        self.pivot = pivot
        self.random_calls = []

        def choice(a, kw, ev, node):
            seq = a[0]
            self.random_calls.append(("choice", len(seq)))
            return seq[0] if self.pivot == "first" else (seq[-1] if self.pivot == "last" else seq[len(seq) // 2])
        rt.externals["random.choice"] = ExternalFunc(choice)
        self.SS = proj.cls("corankco.scoringscheme", "ScoringScheme")
        self.K = proj.cls("corankco.kemeny_score_computation", "KemenyComputingFactory")
        # ---- PuLP stand-in ----
        self.values: Dict[str, float] = {}
        self.declared: List[str] = []
        self.problems: List[PulpProblem] = []
        self.objective_result = "computed"
        ex = rt.externals

        def lpvar(a, kw, ev, node):
            self.declared.append(a[0])
            return PVar(a[0], self.values)
        ex["pulp.LpVariable"] = ExternalFunc(lpvar)

        def lpproblem(a, kw, ev, node):
            p = PulpProblem(self, a)
            self.problems.append(p)
            return p
        ex["pulp.LpProblem"] = ExternalFunc(lpproblem)
        ex["pulp.LpMinimize"] = "MINIMIZE"
        ex["pulp.LpMaximize"] = "MAXIMIZE"

        def lpsum(a, kw, ev, node):
            tot = Lin()
            for x in a[0]:
                tot = tot + Lin.of(x)
            return tot
        ex["pulp.lpSum"] = ExternalFunc(lpsum)
        ex["pulp.PULP_CBC_CMD"] = ExternalFunc(lambda a, k, ev, node: "CBC")

        def sym_compare(left, op, right, node):
            import ast as _ast
            d = left - right
            sense = {_ast.Eq: "E", _ast.LtE: "L", _ast.GtE: "G"}.get(type(op))
            if sense is None:
                raise Unsupported(f"constraint operator {type(op).__name__}", node)
            return Constraint(Lin(d.terms, 0), sense, -d.const)
        rt.sym_compare = sym_compare

    # ---- solver stand-in: best assignment among those induced by rankings with ties --------------------------
    def solve(self, prob: PulpProblem):
        names = list(self.declared)
        n = 0
        while n * (n - 1) + n * (n - 1) // 2 < len(names):
            n += 1
        best = None
        for order in all_weak_orders(n) if n > 0 else [[]]:
            a = weak_order_assignment(order)
            if set(a) != set(names):
                raise Unsupported("ILP variables are not the x_i_j / t_i_j family")
            if all(c.holds(a) for c in prob.model.constraints):
                v = 0
                if prob.objective_lin is not None:
                    v = prob.objective_lin.const + sum(c * a[s.idx[0]] for s, c in prob.objective_lin.terms.items())
                    if prob.sense == "MAXIMIZE":
                        v = -v
                if best is None or v < best[0] - 1e-12:
                    best = (v, a)
        self.values.clear()
        if best is not None:
            self.values.update(best[1])
        self.declared.clear()           # the next model declares its own variables

    def objective_value(self, prob: PulpProblem):
        if prob.objective_lin is None or not prob.objective_lin.terms:
            return None             # PuLP: an objective without variable has no value
        v = prob.objective_lin.const
        for s, c in prob.objective_lin.terms.items():
            v += c * self.values.get(s.idx[0], 0)
        return v

    # ---- construction helpers -----------------------------------------------------------------------------
    def scheme(self, pen) -> Instance:
        return self.rt.new(self.SS, [[list(pen[0]), list(pen[1])]], {})

    def alg(self, mod: str, cls: str, **kw) -> Instance:
        return self.rt.new(self.proj.cls(f"{ALG}.{mod}", cls), [], kw)

    def compute(self, alg: Instance, ds: Instance, scheme: Instance, at_most_one: bool):
        return self.rt.call_method(alg, "compute_consensus_rankings", ds, scheme, at_most_one)

    def score(self, scheme: Instance, ranking: Instance, ds: Instance):
        k = self.rt.new(self.K, [scheme], {})
        return self.rt.call_method(k, "get_kemeny_score", ranking, ds)

    def try_compute(self, alg, ds, scheme, amo):
        try:
            return "ok", self.compute(alg, ds, scheme, amo)
        except AbsRaise as r:
            return "raise", r.exc_name.split(".")[-1]
        except IndexOut as exc:
            return "raise", f"IndexError ({exc})"
        except LoopBound:
            return "raise", "<does not terminate>"
        except Unsupported as exc:
            raise AnalysisError(f"end-to-end evaluation of {alg.cls.name}: unsupported construct at line "
                                f"{getattr(exc.node, 'lineno', '?')}: {exc}")


UNIFYING = [[0., 1., 1., 0., 1., 1.], [1., 1., 0., 1., 1., 0.]]
INDUCED = [[0., 1., 1., 0., 0., 0.], [1., 1., 0., 0., 0., 0.]]
PSEUDO = [[0., 1., 1., 0., 1., 0.], [1., 1., 0., 1., 1., 0.]]
GENERIC = [[0., 2., 1., 1., 3., 4.], [1., 1., 0., 2., 2., 5.]]


def configurations(w: E2EWorld) -> List[Tuple[str, Instance, str]]:
    """(label, algorithm instance, which schemes it accepts on incomplete data: 'any' | 'borda' | 'pick')"""
    a = w.alg
    return [
        ("BordaCount()", a("borda.borda", "BordaCount"), "borda"),
        ("BordaCount(use_bucket_id=True)", a("borda.borda", "BordaCount", use_bucket_id=True), "borda"),
        ("CopelandMethod()", a("copeland.copeland", "CopelandMethod"), "any"),
        ("KwikSortRandom()", a("kwiksort.kwiksortrandom", "KwikSortRandom"), "any"),
        ("PickAPerm()", a("pickaperm.pickaperm", "PickAPerm"), "pick"),
        ("BioConsert()", a("bioconsert.bioconsert", "BioConsert"), "any"),
        ("BioCo()", a("bioconsert.bioco", "BioCo"), "borda"),
        ("BioConsert([CopelandMethod(), KwikSortRandom()])",
         a("bioconsert.bioconsert", "BioConsert", starting_algorithms=[a("copeland.copeland", "CopelandMethod"),
                                                                       a("kwiksort.kwiksortrandom", "KwikSortRandom")]), "any"),
        ("ParCons()", a("parcons.parcons", "ParCons"), "any"),
        ("ParCons(KwikSortRandom(), bound_for_exact=0)",
         a("parcons.parcons", "ParCons", auxiliary_algorithm=a("kwiksort.kwiksortrandom", "KwikSortRandom"), bound_for_exact=0), "any"),
        ("ExactAlgorithmPulp()", a("exact.exactalgorithmpulp", "ExactAlgorithmPulp"), "any"),
        ("ExactAlgorithm()", a("exact.exactalgorithm", "ExactAlgorithm"), "any"),
    ]

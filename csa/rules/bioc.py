"""
Shared abstract evaluation of BioConsert's local search (serves C08, C04/S2-S3, C09/N2,N5).

`_improve_one_ranking` and the kernels it calls are evaluated by the analyser's abstract evaluator on *every dense
bucket-id vector of a small universe* with a fully symbolic cost matrix.  Bucket ids only ever flow into
comparisons and +-1 shifts, so the behaviour depends on the order type of the ids; costs stay symbolic (linear
forms over C[x][y][k]), and each acceptance test `linear form < threshold` is resolved by a *policy* chosen by the
rule (never / at the k-th test), which lets the rule read off exactly which candidate moves are examined, with
which accumulated delta, and what an accepted move does to the vector.  No repository code is executed.
"""
from __future__ import annotations

import ast
import itertools
from typing import Any, Dict, List, Optional, Tuple

from ..loader import AnalysisError, Project, dotted
from ..engines.abseval import Evaluator, Sym, Lin, Unsupported, IndexOut

MOD = "corankco.algorithms.bioconsert.bioconsert"
KERNELS = ["_compute_delta_costs", "_search_to_change_bucket", "_change_bucket", "_search_to_add_bucket",
           "_add_bucket", "_improve_one_ranking"]


class Halt(Exception):
    pass


def dense_vectors(n: int):
    """All dense bucket-id vectors over n elements (surjections onto 0..k-1)."""
    for k in range(1, n + 1):
        for v in itertools.product(range(k), repeat=n):
            if len(set(v)) == k:
                yield list(v)


def canon(keys: List) -> List[int]:
    order = {k: i for i, k in enumerate(sorted(set(keys)))}
    return [order[k] for k in keys]


def C(n: int, a: int, b: int, k: int) -> Sym:
    return Sym("C", (a * n * 3 + b * 3 + k,))


def rel(x, y) -> int:
    return 0 if x < y else (1 if x > y else 2)


def delta_change(r: List[int], e: int, to: int) -> Lin:
    n = len(r)
    d = Lin()
    for e2 in range(n):
        if e2 != e:
            d = d + C(n, e, e2, rel(to, r[e2])) - C(n, e, e2, rel(r[e], r[e2]))
    return d


def delta_add(r: List[int], e: int, to: int) -> Lin:
    n = len(r)
    d = Lin()
    for e2 in range(n):
        if e2 != e:
            d = d + C(n, e, e2, 0 if r[e2] >= to else 1) - C(n, e, e2, rel(r[e], r[e2]))
    return d


def after_change(r: List[int], e: int, to: int) -> List[int]:
    keys = [(x, 1) for x in r]
    keys[e] = (to, 1)
    return canon(keys)


def after_add(r: List[int], e: int, to: int) -> List[int]:
    keys: List = [(x, 1) for x in r]
    keys[e] = (to, 0)           # alone, just before the bucket that had id `to`
    return canon(keys)


class Trace:
    def __init__(self):
        self.events: List[Dict[str, Any]] = []
        self.ret = None
        self.final: List[int] = []
        self.n_cmp = 0
        self.index_error: Optional[str] = None
        self.halted = False


class BioSim:
    def __init__(self, proj: Project):
        self.proj = proj
        self.mod = proj.module(MOD)
        self.fn = {k: proj.func(MOD, k) for k in KERNELS}
        # local names of numpy functions in the module
        self.np_names: Dict[str, str] = {}
        for local, target in self.mod.imports.items():
            if target.startswith("numpy."):
                self.np_names[local] = target.split(".", 1)[1]

    def simulate(self, r0: List[int], accept_at: Optional[int] = None, max_events: int = 4000) -> Trace:
        tr = Trace()
        stack: List[str] = []
        r = list(r0)
        n = len(r)

        def sym_compare(left, op, right, node):
            if not right.is_const():
                raise Unsupported("acceptance test against a non-constant", node)
            idx = tr.n_cmp
            tr.n_cmp += 1
            tr.events.append({"kind": "cmp", "lin": left, "op": type(op).__name__, "const": right.const,
                              "where": stack[-1] if stack else "?", "idx": idx, "line": getattr(node, "lineno", 0)})
            if len(tr.events) > max_events:
                raise Halt()
            return accept_at is not None and idx == accept_at

        def mk_inline(name):
            f = self.fn[name]

            def hook(ev, call):
                args = [ev.ev(a) for a in call.args]
                if name == "_compute_delta_costs":
                    tr.events.append({"kind": "delta", "elem": args[1], "bucket_arg": args[3], "r": list(args[0])})
                    if len(tr.events) > max_events:
                        raise Halt()
                before = None
                if name in ("_change_bucket", "_add_bucket"):
                    before = list(args[0])
                stack.append(name)
                try:
                    ret = ev.call_user(f.node, args)
                finally:
                    stack.pop()
                if before is not None:
                    tr.events.append({"kind": "move", "fn": name, "elem": args[2], "old": args[3], "to": args[4],
                                      "alone": args[5], "n_arg": args[1], "before": before, "after": list(args[0])})
                if name in ("_search_to_change_bucket", "_search_to_add_bucket"):
                    tr.events.append({"kind": "search", "fn": name, "ret": ret, "bucket_arg": args[0],
                                      "max_arg": args[2]})
                return ret
            return hook

        funcs: Dict[str, Any] = {}
        for k in KERNELS[:-1]:
            funcs[k] = mk_inline(k)
        for local, target in self.np_names.items():
            if target in ("max", "amax"):
                funcs[local] = lambda ev, call: max(ev.ev(call.args[0]))
            elif target == "zeros":
                def zeros(ev, call):
                    k = ev.ev(call.args[0])
                    if not isinstance(k, int):
                        raise Unsupported("zeros of non-int size", call)
                    return [0] * k
                funcs[local] = zeros

        def fill(ev, call):
            base = ev.ev(call.func.value)
            v = ev.ev(call.args[0])
            if not isinstance(base, list):
                raise Unsupported("fill of non-array", call)
            for i in range(len(base)):
                base[i] = 0 if v == 0 else v
        funcs[".fill"] = fill

        f = self.fn["_improve_one_ranking"]
        evl = Evaluator({}, funcs, max_steps=2_000_000)
        evl.sym_compare = sym_compare
        evl.strict_index = True
        stack.append("_improve_one_ranking")
        try:
            tr.ret = evl.call_user(f.node, [r, Sym("C"), n])
        except Halt:
            tr.halted = True
        except IndexOut as exc:
            tr.index_error = f"line {getattr(exc.node, 'lineno', '?')}: {exc}"
        except Unsupported as exc:
            raise AnalysisError(f"{MOD}: unsupported construct at line {getattr(exc.node, 'lineno', '?')} "
                                f"while evaluating the local search on {r0}: {exc}")
        tr.final = list(r)
        return tr


def sweep_signature(events: List[Dict[str, Any]]) -> List[Tuple]:
    """Comparable summary of a run / sweep: the sequence of (kind, payload)."""
    out = []
    for e in events:
        if e["kind"] == "cmp":
            out.append(("cmp", e["where"], repr(e["lin"]), e["op"], e["const"]))
        elif e["kind"] == "delta":
            out.append(("delta", e["elem"], tuple(e["r"])))
        elif e["kind"] == "search":
            out.append(("search", e["fn"], e["ret"]))
        elif e["kind"] == "move":
            out.append(("move", e["fn"], e["elem"], e["to"]))
    return out

"""
Shared abstract evaluation of BioConsert's local search (serves C08, C04/S2-S3, C09/N2,N5).

`_improve_one_ranking` and the kernels it calls are evaluated by the analyser's abstract evaluator on *every dense
bucket-id vector of a small universe* with a fully symbolic cost matrix.  Bucket ids only ever flow into
comparisons and +-1 shifts, so the behaviour depends on the order type of the ids; costs stay symbolic (linear
forms over C[x][y][k]), and each acceptance test `linear form < threshold` is resolved by a *policy* chosen by the
rule (never / at the k-th test), which lets the rule read off exactly which candidate moves are examined, with
which accumulated delta, and what an accepted move does to the vector.  No repository code is executed.
"""
from __future__ import annotations

import ast
import itertools
from typing import Any, Dict, List, Optional, Tuple

from ..loader import AnalysisError, Project, dotted
from ..engines.abseval import Evaluator, Sym, Lin, Unsupported, IndexOut

MOD = "corankco.algorithms.bioconsert.bioconsert"
KERNELS = ["_compute_delta_costs", "_search_to_change_bucket", "_change_bucket", "_search_to_add_bucket",
           "_add_bucket", "_improve_one_ranking"]


class Halt(Exception):
    pass


def dense_vectors(n: int):
    """All dense bucket-id vectors over n elements (surjections onto 0..k-1)."""
    for k in range(1, n + 1):
        for v in itertools.product(range(k), repeat=n):
            if len(set(v)) == k:
                yield list(v)


def canon(keys: List) -> List[int]:
    order = {k: i for i, k in enumerate(sorted(set(keys)))}
    return [order[k] for k in keys]


def C(n: int, a: int, b: int, k: int) -> Sym:
    return Sym("C", (a * n * 3 + b * 3 + k,))


def rel(x, y) -> int:
    return 0 if x < y else (1 if x > y else 2)


def delta_change(r: List[int], e: int, to: int) -> Lin:
    n = len(r)
    d = Lin()
    for e2 in range(n):
        if e2 != e:
            d = d + C(n, e, e2, rel(to, r[e2])) - C(n, e, e2, rel(r[e], r[e2]))
    return d


def delta_add(r: List[int], e: int, to: int) -> Lin:
    n = len(r)
    d = Lin()
    for e2 in range(n):
        if e2 != e:
            d = d + C(n, e, e2, 0 if r[e2] >= to else 1) - C(n, e, e2, rel(r[e], r[e2]))
    return d


def after_change(r: List[int], e: int, to: int) -> List[int]:
    keys = [(x, 1) for x in r]
    keys[e] = (to, 1)
    return canon(keys)


def after_add(r: List[int], e: int, to: int) -> List[int]:
    keys: List = [(x, 1) for x in r]
    keys[e] = (to, 0)           # alone, just before the bucket that had id `to`
    return canon(keys)


class Trace:
    def __init__(self):
        self.events: List[Dict[str, Any]] = []
        self.ret = None
        self.final: List[int] = []
        self.n_cmp = 0
        self.index_error: Optional[str] = None
        self.halted = False
        self.accepted: List[Lin] = []           # values of the accepted acceptance tests, in order
        self.free: List[Dict[str, Any]] = []    # comparisons between cost-dependent values whose outcome is not forced


class BioSim:
    def __init__(self, proj: Project):
        self.proj = proj
        self.mod = proj.module(MOD)
        self.fn = {k: proj.func(MOD, k) for k in KERNELS}
        # local names of numpy functions in the module
        self.np_names: Dict[str, str] = {}
        for local, target in self.mod.imports.items():
            if target.startswith("numpy."):
                self.np_names[local] = target.split(".", 1)[1]

    def simulate(self, r0: List[int], accept_at=None, max_events: int = 4000, free_choice: bool = False) -> Trace:
        """accept_at: None, the index of the one acceptance test that succeeds, or a tuple of such indices.
        free_choice: outcome given to comparisons between cost-dependent values that the signs of the accepted gains do
        not force (see _relative_compare)."""
        tr = Trace()
        stack: List[str] = []
        r = list(r0)
        n = len(r)
        accept = set() if accept_at is None else ({accept_at} if isinstance(accept_at, int) else set(accept_at))

        def sym_compare(left, op, right, node):
            if not right.is_const():
                return _relative_compare(tr, left, op, right, node, free_choice, stack[-1] if stack else "?")
            idx = tr.n_cmp
            tr.n_cmp += 1
            tr.events.append({"kind": "cmp", "lin": left, "op": type(op).__name__, "const": right.const,
                              "where": stack[-1] if stack else "?", "idx": idx, "line": getattr(node, "lineno", 0)})
            if len(tr.events) > max_events:
                raise Halt()
            if idx in accept:
                tr.accepted.append(left)
                return True
            return False

        def mk_inline(name):
            f = self.fn[name]

            def hook(ev, call):
                args = [ev.ev(a) for a in call.args]
                if name == "_compute_delta_costs":
                    tr.events.append({"kind": "delta", "elem": args[1], "bucket_arg": args[3], "r": list(args[0])})
                    if len(tr.events) > max_events:
                        raise Halt()
                before = None
                if name in ("_change_bucket", "_add_bucket"):
                    before = list(args[0])
                stack.append(name)
                try:
                    ret = ev.call_user(f.node, args)
                finally:
                    stack.pop()
                if before is not None:
                    tr.events.append({"kind": "move", "fn": name, "elem": args[2], "old": args[3], "to": args[4],
                                      "alone": args[5], "n_arg": args[1], "before": before, "after": list(args[0])})
                if name in ("_search_to_change_bucket", "_search_to_add_bucket"):
                    tr.events.append({"kind": "search", "fn": name, "ret": ret, "bucket_arg": args[0],
                                      "max_arg": args[2]})
                return ret
            return hook

        funcs: Dict[str, Any] = {}
        for k in KERNELS[:-1]:
            funcs[self.fn[k].name] = mk_inline(k)        # the routine playing role k, under whatever name it has today
        for local, target in self.np_names.items():
            if target in ("max", "amax"):
                funcs[local] = lambda ev, call: max(ev.ev(call.args[0]))
            elif target == "zeros":
                def zeros(ev, call):
                    k = ev.ev(call.args[0])
                    if not isinstance(k, int):
                        raise Unsupported("zeros of non-int size", call)
                    return [0] * k
                funcs[local] = zeros

        def fill(ev, call):
            base = ev.ev(call.func.value)
            v = ev.ev(call.args[0])
            if not isinstance(base, list):
                raise Unsupported("fill of non-array", call)
            for i in range(len(base)):
                base[i] = 0 if v == 0 else v
        funcs[".fill"] = fill

        f = self.fn["_improve_one_ranking"]
        evl = Evaluator({}, funcs, max_steps=2_000_000)
        evl.sym_compare = sym_compare
        evl.strict_index = True
        stack.append("_improve_one_ranking")
        try:
            tr.ret = evl.call_user(f.node, [r, Sym("C"), n])
        except Halt:
            tr.halted = True
        except IndexOut as exc:
            tr.index_error = f"line {getattr(exc.node, 'lineno', '?')}: {exc}"
        except Unsupported as exc:
            raise AnalysisError(f"{MOD}: unsupported construct at line {getattr(exc.node, 'lineno', '?')} "
                                f"while evaluating the local search on {r0}: {exc}")
        tr.final = list(r)
        return tr


def _solve_combination(target: Lin, basis: List[Lin], tol: float = 1e-9):
    """Coefficients c with sum c[i] * basis[i] == target (floating point, relative tolerance), or None."""
    syms = sorted({s_ for b in basis + [target] for s_ in b.terms}, key=repr)
    rows = [[float(b.terms.get(s_, 0)) for b in basis] + [float(target.terms.get(s_, 0))] for s_ in syms]
    rows.append([float(b.const) for b in basis] + [float(target.const)])
    scale = max([abs(x) for r_ in rows for x in r_] + [1.0])
    k = len(basis)
    piv_cols = []
    rr = 0
    for c in range(k):
        p = max(range(rr, len(rows)), key=lambda i: abs(rows[i][c]), default=None)
        if p is None or abs(rows[p][c]) <= tol * scale:
            continue
        rows[rr], rows[p] = rows[p], rows[rr]
        pv = rows[rr][c]
        rows[rr] = [x / pv for x in rows[rr]]
        for i in range(len(rows)):
            if i != rr and rows[i][c] != 0:
                f_ = rows[i][c]
                rows[i] = [x - f_ * y for x, y in zip(rows[i], rows[rr])]
        piv_cols.append(c)
        rr += 1
    for i in range(rr, len(rows)):
        if abs(rows[i][k]) > 1e-7 * scale:
            return None
    coef = [0.0] * k
    for i, c in enumerate(piv_cols):
        coef[c] = rows[i][k] if abs(rows[i][k]) > 1e-12 else 0.0
    return coef


def _relative_compare(tr: "Trace", left, op, right, node, free_choice: bool, where: str):
    """`left op right` where both sides depend on the costs (e.g. a gain compared with a fraction of the total gain).
    The difference is written as a combination of the accepted gains g_1..g_k, each of which is negative (accepted tests
    are `g < c`, c < 0 - rule L3). If all coefficients have the same sign the outcome is forced; otherwise both outcomes
    are possible for suitable magnitudes of the gains and the simulation follows `free_choice`, recording the event."""
    import ast as _ast
    d = Lin.of(left) - Lin.of(right)
    coef = _solve_combination(d, [Lin.of(a) for a in tr.accepted])
    if coef is None:
        raise Unsupported("comparison between cost-dependent values that is not a combination of the accepted gains", node)
    pos = any(c > 0 for c in coef)
    neg = any(c < 0 for c in coef)
    name = type(op).__name__
    if not pos and not neg:
        sign = 0
    elif pos and not neg:
        sign = -1           # positive multiples of negative gains
    elif neg and not pos:
        sign = 1
    else:
        tr.free.append({"line": getattr(node, "lineno", 0), "where": where, "coef": [float(c) for c in coef],
                        "op": name, "outcome": free_choice, "text": ""})
        return free_choice
    table = {"Lt": sign < 0, "LtE": sign <= 0, "Gt": sign > 0, "GtE": sign >= 0, "Eq": sign == 0, "NotEq": sign != 0}
    if name not in table:
        raise Unsupported(f"comparison operator {name} between cost-dependent values", node)
    return table[name]


def sweep_signature(events: List[Dict[str, Any]]) -> List[Tuple]:
    """Comparable summary of a run / sweep: the sequence of (kind, payload)."""
    out = []
    for e in events:
        if e["kind"] == "cmp":
            out.append(("cmp", e["where"], repr(e["lin"]), e["op"], e["const"]))
        elif e["kind"] == "delta":
            out.append(("delta", e["elem"], tuple(e["r"])))
        elif e["kind"] == "search":
            out.append(("search", e["fn"], e["ret"]))
        elif e["kind"] == "move":
            out.append(("move", e["fn"], e["elem"], e["to"]))
    return out


# ---------------------------------------------------------------------------------------------------------------
# scenario evaluation of BioConsert._bio_consert, ._departure_rankings and .compute_consensus_rankings
# ---------------------------------------------------------------------------------------------------------------
from ..engines.abseval import Obj, Mat, Vec      # noqa: E402


def np_funcs(mod) -> Dict[str, Any]:
    """Hooks for the numpy names the module imports, on the abstract state (lists / Mat / Vec)."""
    funcs: Dict[str, Any] = {}

    def zeros(ev, call):
        shape = ev.ev(call.args[0])
        if isinstance(shape, int):
            return [0] * shape
        if isinstance(shape, tuple) and len(shape) == 2 and all(isinstance(x, int) for x in shape):
            return Mat([[0] * shape[1] for _ in range(shape[0])])
        raise Unsupported("zeros shape", call)

    def array(ev, call):
        v = ev.ev(call.args[0])
        if isinstance(v, Vec):
            return list(v.vals)
        if isinstance(v, list):
            return list(v)
        if isinstance(v, Mat):
            return Mat([list(r) for r in v.rows])
        raise Unsupported("array of abstract", call)

    def asarray(ev, call):
        v = ev.ev(call.args[0])
        if isinstance(v, Vec):
            return v.vals
        if isinstance(v, (list, Mat)):
            return v
        raise Unsupported("asarray of abstract", call)

    def vstack(ev, call):
        parts = ev.ev(call.args[0])
        rows = []
        for p_ in parts:
            if not isinstance(p_, Mat):
                raise Unsupported("vstack operand", call)
            rows.extend(p_.rows)
        return Mat(rows)

    def amin(ev, call):
        v = ev.ev(call.args[0])
        v = v.vals if isinstance(v, Vec) else v
        return min(v)

    def amax(ev, call):
        v = ev.ev(call.args[0])
        v = v.vals if isinstance(v, Vec) else v
        return max(v)

    def where(ev, call):
        v = ev.ev(call.args[0])
        if not isinstance(v, Vec):
            raise Unsupported("where of non-mask", call)
        return ([i for i, m in enumerate(v.vals) if m],)

    def isclose(ev, call):
        a, b = ev.ev(call.args[0]), ev.ev(call.args[1])
        kw = {k.arg: ev.ev(k.value) for k in call.keywords}
        rtol, atol = kw.get("rtol", 1e-05), kw.get("atol", 1e-08)

        def one(x, y):
            return abs(x - y) <= (atol + rtol * abs(y))
        if isinstance(a, Vec) or isinstance(b, Vec):
            n_ = len(a.vals) if isinstance(a, Vec) else len(b.vals)
            av = a.vals if isinstance(a, Vec) else [a] * n_
            bv = b.vals if isinstance(b, Vec) else [b] * n_
            return Vec([one(x, y) for x, y in zip(av, bv)])
        return one(a, b)

    def argmin(ev, call):
        v = ev.ev(call.args[0])
        v = v.vals if isinstance(v, Vec) else v
        return min(range(len(v)), key=lambda i: v[i])

    table = {"zeros": zeros, "array": array, "asarray": asarray, "vstack": vstack, "amin": amin, "min": amin,
             "max": amax, "amax": amax, "where": where, "isclose": isclose, "argmin": argmin}
    for local, target in mod.imports.items():
        if target.startswith("numpy."):
            t = target.split(".", 1)[1]
            if t in table:
                funcs[local] = table[t]
    return funcs


def eval_initial_scores(proj: Project, vectors: List[List[int]], improved: Optional[List[List[int]]] = None):
    """Abstractly evaluate BioConsert._bio_consert on the given departure vectors (same length n).
    Returns (scores list of Lin, departure list after the call, vectors handed to the local search)."""
    f = proj.func(MOD, "BioConsert._bio_consert")
    mod = proj.module(MOD)
    n = len(vectors[0])
    flat = [x for v in vectors for x in v]
    dst = [0.0] * len(vectors)
    seen: List[List[int]] = []
    funcs = np_funcs(mod)

    def improve(ev, call):
        args = [ev.ev(a) for a in call.args]
        r = args[0]
        k = len(seen)
        seen.append(list(r))
        if not (isinstance(args[1], Sym) and args[1].name == "C" and args[2] == n):
            raise Unsupported("local search not given (vector, cost matrix, n)", call)
        if improved is not None:
            for i in range(n):
                r[i] = improved[k][i]
        return Sym("DELTA", (k,))
    funcs[proj.func(MOD, "_improve_one_ranking").name] = improve
    evl = Evaluator({}, funcs)
    evl.strict_index = True
    try:
        evl.call_user(f.node, [flat, Sym("C"), n, len(vectors), dst])
    except IndexOut as exc:
        raise AnalysisError(f"{f.qualname}: array indexed out of range at line {getattr(exc.node, 'lineno', '?')}")
    except Unsupported as exc:
        raise AnalysisError(f"{f.qualname}: unsupported construct at line {getattr(exc.node, 'lineno', '?')}: {exc}")
    return dst, flat, seen


def definitional_score(r: List[int]) -> Lin:
    n = len(r)
    s = Lin()
    for a in range(n):
        for b in range(a + 1, n):
            s = s + C(n, a, b, rel(r[a], r[b]))
    return s


class Scenario:
    """A caller dataset whose id map differs from the first-appearance order of derived datasets."""

    def __init__(self, elems: List[str], mapping: Dict[str, int], rankings: List[List[set]], complete: bool):
        self.elems = elems
        self.mapping = mapping
        self.rankings = rankings
        self.complete = complete

    def unified(self) -> List[List[set]]:
        out = []
        for r in self.rankings:
            dom = set().union(*r) if r else set()
            miss = set(self.elems) - dom
            out.append([set(b) for b in r] + ([miss] if miss else []))
        return out


def first_appearance_ids(rankings: List[List[set]]) -> Dict[str, int]:
    ids: Dict[str, int] = {}
    for r in rankings:
        for b in r:
            for e in sorted(b):
                ids.setdefault(e, len(ids))
    return ids


def bucket_matrix(rankings: List[List[set]], ids: Dict[str, int]) -> List[List[int]]:
    """(nb_elements x nb_rankings) matrix like Dataset.get_bucket_ids, in the id space `ids`."""
    m = [[-1] * len(rankings) for _ in range(len(ids))]
    for j, r in enumerate(rankings):
        for k, b in enumerate(r):
            for e in b:
                m[ids[e]][j] = k
    return m


def dataset_obj(name: str, rankings: List[List[set]], ids: Dict[str, int], complete: bool, unified=None) -> Obj:
    o = Obj(name)
    o.attrs = {
        "is_complete": complete, "rankings": rankings, "nb_elements": len(ids), "nb_rankings": len(rankings),
        "mapping_elem_id": dict(ids), "mapping_id_elem": {v: k for k, v in ids.items()},
        "universe": set(ids),
    }
    o.methods = {
        "get_bucket_ids": lambda ev, call, a, kw: Mat(bucket_matrix(rankings, ids)),
        "get_positions": lambda ev, call, a, kw: Sym("POS_" + name),
        "unified_rankings": lambda ev, call, a, kw: unified.attrs["rankings"] if unified is not None else rankings,
    }
    if unified is not None:
        o.methods["unified_dataset"] = lambda ev, call, a, kw: unified
    else:
        o.methods["unified_dataset"] = lambda ev, call, a, kw: o
    return o


class _ConsObj(Obj):
    """Stand-in for a Consensus: its rankings through the attribute, by index, by iteration, and their number."""

    def __init__(self, rankings):
        super().__init__("CONS", {"consensus_rankings": rankings})

    def abs_getitem(self, idx, node):
        return self.attrs["consensus_rankings"][idx]

    def abs_iter(self):
        return list(self.attrs["consensus_rankings"])

    def abs_len(self):
        return len(self.attrs["consensus_rankings"])


def eval_departure(proj: Project, sc: Scenario, starters: List[List[set]]):
    """Abstractly evaluate BioConsert._departure_rankings for scenario `sc`. `starters` = consensus ranking returned
    by each starting algorithm ([] = no starting algorithm). Returns (Mat | list result, log of starter calls)."""
    cls = proj.cls(MOD, "BioConsert")
    f = proj.method(cls, "_departure_rankings")
    mod = proj.module(MOD)
    uni_rank = sc.unified()
    uni = dataset_obj("UNIFIED", uni_rank, first_appearance_ids(uni_rank), True)
    ds = dataset_obj("CALLER", sc.rankings, sc.mapping, sc.complete, unified=uni)
    calls: List[Tuple] = []
    algs = []
    for k, cons in enumerate(starters):
        def ccr(ev, call, a, kw, k=k, cons=cons):
            calls.append((k, a, kw))
            return _ConsObj([cons])
        algs.append(Obj(f"ALG{k}", methods={"compute_consensus_rankings": ccr}))
    funcs = np_funcs(mod)

    def dataset_ctor(ev, call):
        rk = ev.ev(call.args[0])
        return dataset_obj("FRESH", rk, first_appearance_ids(rk), True)
    funcs["Dataset"] = dataset_ctor

    def bio_ctor(ev, call):
        return Obj("BIO", {"_starting_algorithms": []}, {f.name: lambda ev2, c2, a, kw: ev2.call_user(
            f.node, [Obj("BIO", {"_starting_algorithms": []})] + a, kw)})
    funcs["BioConsert"] = bio_ctor
    helper = proj.lookup_method(cls, "_bucket_ids_with_mapping")
    if helper is not None:
        funcs["BioConsert._bucket_ids_with_mapping"] = lambda ev, call: ev.call_user(
            helper.node, [ev.ev(a) for a in call.args])
        funcs["self._bucket_ids_with_mapping"] = funcs["BioConsert._bucket_ids_with_mapping"]
    me = Obj("SELF", {"_starting_algorithms": algs})
    evl = Evaluator({}, funcs)
    evl.strict_index = True
    try:
        ret = evl.call_user(f.node, [me, ds, Sym("SCHEME")])
    except Unsupported as exc:
        raise AnalysisError(f"{f.qualname}: unsupported construct at line {getattr(exc.node, 'lineno', '?')}: {exc}")
    return ret, calls, ds


def eval_compute(proj: Project, sc: Scenario, departure: List[List[int]], final: List[List[int]],
                 scores: List[float], at_most_one: bool):
    """Abstractly evaluate BioConsert.compute_consensus_rankings with the departure rows / local-search outcome given
    by the scenario. Returns dict(consensus kwargs, calls)."""
    cls = proj.cls(MOD, "BioConsert")
    f = proj.method(cls, "compute_consensus_rankings")
    mod = proj.module(MOD)
    ds = dataset_obj("CALLER", sc.rankings, sc.mapping, sc.complete)
    log: Dict[str, Any] = {"departure_args": None, "bio_args": None, "pcm_args": None}
    n = len(sc.elems)

    def dep(ev, call, a, kw):
        log["departure_args"] = (a, kw)
        return Mat([list(r) for r in departure])

    def bio(ev, call, a, kw):
        log["bio_args"] = [x if not isinstance(x, list) else list(x) for x in a]
        dep_c, mat, n_, nb, dst = a
        for i, row in enumerate(final):
            for j, v in enumerate(row):
                dep_c[i * n + j] = v
        target = dst.vals if isinstance(dst, Vec) else dst
        for i, s in enumerate(scores):
            target[i] = s
        return None

    def pcm(ev, call, a, kw):
        log["pcm_args"] = (a, kw)
        return Obj("COSTS", methods={"flatten": lambda ev2, c2, a2, k2: Sym("C")})

    me = Obj("SELF", {"_starting_algorithms": []},
             {proj.method(cls, "_departure_rankings").name: dep, proj.method(cls, "_bio_consert").name: bio,
              "pairwise_cost_matrix": pcm, "get_full_name": lambda ev, call, a, kw: "NAME"})
    funcs = np_funcs(mod)
    base_zeros = funcs.get("zeros")

    def zeros(ev, call):
        v = base_zeros(ev, call)
        return Vec(v) if isinstance(v, list) else v       # 1-D arrays support `arr == scalar` masks
    if base_zeros is not None:
        for local, target in mod.imports.items():
            if target == "numpy.zeros":
                funcs[local] = zeros
    captured: Dict[str, Any] = {}

    def consensus(ev, call):
        names = ["consensus_rankings", "dataset", "scoring_scheme", "att"]
        kw = {k.arg: ev.ev(k.value) for k in call.keywords}
        for i, a in enumerate(call.args):
            kw[names[i]] = ev.ev(a)
        captured.update(kw)
        return "CONSENSUS"
    funcs["Consensus"] = consensus
    funcs["Ranking"] = lambda ev, call: ("Ranking", ev.ev(call.args[0]))

    def reshape(ev, call):
        base = ev.ev(call.func.value)
        args = [ev.ev(a) for a in call.args]
        if isinstance(base, list) and len(args) == 2 and args[0] == -1 and isinstance(args[1], int) and args[1] > 0 \
                and len(base) % args[1] == 0:
            return Mat([base[i:i + args[1]] for i in range(0, len(base), args[1])])
        raise Unsupported("reshape", call)
    funcs[".reshape"] = reshape
    evl = Evaluator({}, funcs)
    evl.attr_fallback = lambda d: d if d.startswith("ConsensusFeature.") else None
    try:
        ret = evl.call_user(f.node, [me, ds, Sym("SCHEME"), at_most_one])
    except Unsupported as exc:
        raise AnalysisError(f"{f.qualname}: unsupported construct at line {getattr(exc.node, 'lineno', '?')}: {exc}")
    return ret, captured, log, ds

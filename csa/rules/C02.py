"""
C02 - pairwise cost table matches the definition; mirror-consistent; encoding independent.

T1  order-type table of the kernel (abstract evaluation of `_pairwise_cost_matrix_only` on a 2-element, 1-ranking
    universe for every status of the pair and two representatives each): cell (status, placement) must be the
    definitional penalty times the ranking's weight, each slot updated exactly once.
T2  mirror assignments and loop coverage (abstract evaluation on a 4-element, 3-ranking universe): every unordered
    pair x<y and every ranking visited exactly once, weight row = ranking index, mirror slots (y,x) = swap of (x,y).
T3  encoding independence: values read from the position matrix flow only into comparisons.
T4  sentinel / role agreement between Dataset.get_positions / get_bucket_ids, Ranking positions, the wrapper and
    the ScoringScheme accessors.
"""
from __future__ import annotations

import ast
from typing import Dict, List, Tuple

from ..loader import AnalysisError, src, dotted
from ..report import Result
from ..engines.abseval import Evaluator, Sym, Lin, Unsupported, Effect
from .. import spec

MOD = "corankco.algorithms.pairwisebasedalgorithm"
KERNEL = "_pairwise_cost_matrix_only"


WEIGHTS = [1.0, 10.0, 100.0, 1000.0]       # one recognisable weight per ranking: a coefficient tells which rankings paid


def _kernel_eval(proj, f, positions, weights=None):
    """The real kernel (whatever numpy idiom it uses) on a position matrix, with the scheme's two rows symbolic
    (B[0..5], T[0..5]) and one distinct numeric weight per ranking. Returns the cost cube as nested lists of linear forms
    [x][y][slot], or raises AnalysisError for a construct the evaluator does not model."""
    from ..engines.instances import Runtime
    from ..engines.stdlib import install
    from ..engines.abseval import Mat, Vec
    from ..engines.npmodel import Cube
    key = id(proj)
    if key not in _RT:
        _RT.clear()
        _RT[key] = install(Runtime(proj))
    rt = _RT[key]
    n, m = len(positions), len(positions[0]) if positions else 0
    scheme = Mat([[Sym("B", (i,)) for i in range(6)], [Sym("T", (i,)) for i in range(6)]])
    w = Vec(list(weights if weights is not None else WEIGHTS[:m]))
    try:
        ret = rt.invoke(f, [Mat([list(r) for r in positions]), scheme, w, n, m], {}, None)
    except Unsupported as exc:
        raise AnalysisError(f"{f.qualname}: unsupported construct at line {getattr(exc.node, 'lineno', '?')}: {exc}")
    if isinstance(ret, Cube):
        return [[[Lin.of(v) for v in cell] for cell in row] for row in ret.data]
    raise AnalysisError(f"{f.qualname}: returns {ret!r}, expected the (n x n x 3) cost matrix")


_RT: Dict[int, object] = {}
PLACEMENTS = {0: "before", 1: "after", 2: "tied"}


def _expected_cell(px: List[int], py: List[int], slot: int, weights) -> Lin:
    """definitional cost of placing x before / after / tied with y, summed over rankings with their weights"""
    tot = Lin()
    for j, (a, b) in enumerate(zip(px, py)):
        st = spec.status_of(a, b)
        v, i = spec.definitional_cost(PLACEMENTS[slot], st)
        tot = tot + Lin.of(Sym(v, (i,))) * weights[j]
    return tot


def run(ctx) -> Result:
    res = Result("C02")
    proj = ctx.proj
    f = proj.func(MOD, KERNEL)
    res.saw(f)
    res.rule("T1", "order-type table of the cost kernel equals the definitional penalty table (6 statuses x 3 "
                   "placements, two representatives per status)", floor=18)
    res.rule("T2", "mirror slots and loop coverage: each unordered pair and each ranking visited exactly once", floor=4)
    res.rule("T3", "position values flow only into comparisons (encoding independence)", floor=1)
    res.rule("T4", "unranked sentinel / non-negative ranked values / role of B,T rows and matrix orientation agree "
                   "between Dataset, Ranking, ScoringScheme and the kernel wrapper", floor=6)

    # ---------------------------------------------------------------- T1: one pair, one ranking, every status
    for status in range(6):
        cubes = []
        for (p1, p2) in spec.REPRESENTATIVES[status]:
            cubes.append(((p1, p2), _kernel_eval(proj, f, [[p1], [p2]], [7.0])))
        for slot in range(3):
            want = spec.definitional_cost(PLACEMENTS[slot], status)
            key = f"{KERNEL}:status={spec.STATUS_NAMES[status]}:slot={slot}({PLACEMENTS[slot]})"
            bad = None
            for (p1, p2), cube in cubes:
                got = cube[0][1][slot]
                exp = Lin.of(Sym(want[0], (want[1],))) * 7.0
                if got != exp:
                    bad = bad or ((p1, p2), got)
            res.check(bad is None, "T1", key, f.loc(), ok_detail=f"adds weight*{want[0]}[{want[1]}]",
                      bad_detail=(f"positions (x, y) = {bad[0]} with weight 7: cell gets {bad[1]!r}, expected "
                                  f"7*{want[0]}[{want[1]}]") if bad else "")
    # ---------------------------------------------------------------- T2: coverage and mirror on larger worlds
    worlds = [
        [[(i * 2 + r) % 5 for r in range(3)] for i in range(4)],
        [[0, -1, 2, 1], [1, 0, -1, 1], [-1, -1, 0, 0], [2, 1, 1, -1], [0, 2, -1, -1]],
        [[3, 0], [3, 1], [-1, 0], [0, -1]],
    ]
    cov_bad = None
    mirror_bad = {0: None, 1: None, 2: None}
    diag_bad = None
    n_cells = 0
    swap = {0: 1, 1: 0, 2: 2}
    for positions in worlds:
        n, m = len(positions), len(positions[0])
        cube = _kernel_eval(proj, f, positions)
        if len(cube) != n or any(len(r) != n for r in cube) or any(len(c) != 3 for r in cube for c in r):
            cov_bad = cov_bad or (positions, "shape", f"{len(cube)} x {len(cube[0]) if cube else 0}", f"{n} x {n} x 3")
            continue
        for x in range(n):
            if any(c != Lin() for c in cube[x][x]) and diag_bad is None:
                diag_bad = (positions, x, cube[x][x])
            for y in range(n):
                if x == y:
                    continue
                for k in range(3):
                    n_cells += 1
                    exp = _expected_cell(positions[x], positions[y], k, WEIGHTS[:m])
                    if cube[x][y][k] != exp and x < y and cov_bad is None:
                        cov_bad = (positions, (x, y, k), cube[x][y][k], exp)
                    if x > y and cube[x][y][k] != cube[y][x][swap[k]] and mirror_bad[k] is None:
                        mirror_bad[k] = (positions, (x, y), cube[x][y][k], cube[y][x][swap[k]])
    res.check(cov_bad is None, "T2", f"{KERNEL}:coverage", f.loc(),
              ok_detail=f"{n_cells} cells of {len(worlds)} worlds (4-5 elements, 2-4 weighted rankings): each ranking pays "
                        f"its own weight exactly once per pair and slot",
              bad_detail=(f"positions {cov_bad[0]}: cell {cov_bad[1]} is {cov_bad[2]!r}, definition {cov_bad[3]!r}")
              if cov_bad else "")
    res.check(diag_bad is None, "T2", f"{KERNEL}:returns-matrix", f.loc(), ok_detail="(n x n x 3) matrix with a zero diagonal",
              bad_detail=f"positions {diag_bad[0]}: diagonal cell of element {diag_bad[1]} is {diag_bad[2]!r}" if diag_bad else "")
    for k in range(3):
        mb = mirror_bad[k]
        res.check(mb is None, "T2", f"{KERNEL}:mirror-slot={k}", f.loc(),
                  ok_detail=f"(y,x)[{k}] = (x,y)[{swap[k]}] for every pair",
                  bad_detail=f"positions {mb[0]}: cell {mb[1]}[{k}] is {mb[2]!r} but the mirrored cell is {mb[3]!r}" if mb else "")
    # ---------------------------------------------------------------- T3: encoding independence
    # any order-preserving re-encoding of the ranked values (positions, bucket ids, doubled, shifted) gives the same
    # table; -1 stays the unranked sentinel
    enc_bad = None
    for positions in worlds:
        base = _kernel_eval(proj, f, positions)
        for label, g in (("doubled", lambda v: 2 * v), ("shifted by 5", lambda v: v + 5), ("squared+1", lambda v: v * v + 1)):
            re = [[v if v == spec.UNRANKED else g(v) for v in row] for row in positions]
            if _kernel_eval(proj, f, re) != base:
                enc_bad = enc_bad or (positions, label, re)
    res.check(enc_bad is None, "T3", f"{KERNEL}:positions-only-compared", f.loc(),
              ok_detail="order-preserving re-encodings of the ranked values (doubled, shifted, squared) give the same table",
              bad_detail=f"positions {enc_bad[0]} re-encoded ({enc_bad[1]}) as {enc_bad[2]} give another table" if enc_bad else "")
    # ---------------------------------------------------------------- T4: the sentinel is -1 and nothing else
    sent_bad = None
    for other in (0,):
        # 0 is a rank like any other (only -1 is produced for unranked elements, see T4 encodings)
        pos = [[other, 1], [3, -1]]
        cube = _kernel_eval(proj, f, pos)
        # `other` is a ranked value below 3 (x before y in ranking 0); in ranking 1 only x is ranked
        exp = Lin.of(Sym("B", (0,))) * WEIGHTS[0] + Lin.of(Sym("B", (3,))) * WEIGHTS[1]
        if cube[0][1][0] != exp:
            sent_bad = sent_bad or (pos, cube[0][1][0], exp)
    res.check(sent_bad is None, "T4", f"{KERNEL}:sentinel", f.loc(),
              ok_detail="-1 means unranked, 0 is an ordinary rank",
              bad_detail=f"positions {sent_bad[0]}: cell (0,1)[before] is {sent_bad[1]!r}, expected {sent_bad[2]!r}" if sent_bad else "")
    ds = proj.cls("corankco.dataset", "Dataset")
    _check_encodings(res, proj)
    w = proj.func(MOD, "PairwiseBasedAlgorithm.pairwise_cost_matrix")
    res.saw(w)
    _check_wrapper(res, proj, w, f)
    _check_fresh_matrices(res, proj)
    res.not_decided.append("that the entries selected by a complete candidate add up to its Kemeny score (composition "
                           "with C01's counting core, which is numeric)")
    res.assumptions.append("numba nopython mode preserves the Python semantics of the kernel")
    if not res.violations:      # the end-to-end pass adds nothing to an established violation (and may not terminate on it)
        from . import e2e
        e2e.check(res, ctx.proj, "C02", ctx.thorough)
    return res


def _check_encodings(res: Result, proj):
    """T4 (evaluation on real instances): what the kernel is fed. Dataset.get_positions / get_bucket_ids give an
    (nb_elements x nb_rankings) matrix, row = the dataset's id of the element, column = index of the ranking, -1 exactly
    where the element is not ranked, values >= 0 elsewhere and ordered like the buckets (equal inside a bucket);
    ScoringScheme.penalty_vectors / b_vector / t_vector are the [B, T] rows given to the constructor."""
    from .datamodel import World
    from ..engines.abseval import Mat
    w = World(proj)
    datasets = [[[{1}, {2, 3}], [], [{3}, {1}], [{4}], [{2}, {4, 1}]],
                [[{"a"}, {"b"}, {"c", "d"}], [{"d", "c"}, {"a"}], [{"b"}]],
                [[{5, 6, 7}], [{7}, {6}, {5}]]]
    for meth in ("get_positions", "get_bucket_ids"):
        g = proj.method(w.D, meth)
        res.saw(g)
        bad = None
        for raws in datasets:
            d = w.dataset(raws)
            st, m = w.safe(meth, w.call, d, meth)
            if st != "ok" or not isinstance(m, Mat):
                bad = bad or (raws, f"gives {m!r}")
                continue
            ids = {w.key(k)[1]: v for k, v in w.call(d, "mapping_elem_id").items()}
            rows = m.rows
            if len(rows) != len(ids) or any(len(r) != len(raws) for r in rows):
                bad = bad or (raws, f"shape {(len(rows), len(rows[0]) if rows else 0)}, expected ({len(ids)}, {len(raws)})")
                continue
            for j, r in enumerate(raws):
                where = {e: k for k, bk in enumerate(r) for e in bk}
                for e, i in ids.items():
                    v = rows[i][j]
                    if e not in where and v != spec.UNRANKED:
                        bad = bad or (raws, f"element {e!r} is not in ranking #{j} but its entry is {v} (not {spec.UNRANKED})")
                    if e in where and not (isinstance(v, int) and v >= 0):
                        bad = bad or (raws, f"element {e!r} is in ranking #{j} but its entry is {v}")
                for e1 in where:
                    for e2 in where:
                        v1, v2 = rows[ids[e1]][j], rows[ids[e2]][j]
                        if isinstance(v1, int) and isinstance(v2, int) and \
                                ((v1 < v2) != (where[e1] < where[e2]) or (v1 == v2) != (where[e1] == where[e2])):
                            bad = bad or (raws, f"ranking #{j}: entries of {e1!r}, {e2!r} are {v1}, {v2} but their buckets "
                                                f"are {where[e1]}, {where[e2]}")
        res.check(bad is None, "T4", f"Dataset.{meth}:encoding", g.loc(),
                  ok_detail="(elements x rankings), -1 iff unranked, >= 0 and ordered like the buckets otherwise",
                  bad_detail=f"dataset {bad[0]}: {bad[1]}" if bad else "")
    sc = proj.cls("corankco.scoringscheme", "ScoringScheme")
    pen = [[0., 1., 2., 3., 4., 5.], [6., 6., 0., 7., 7., 8.]]
    inst = w.rt.new(sc, [[list(pen[0]), list(pen[1])]], {})
    for name, want in (("penalty_vectors", pen), ("b_vector", pen[0]), ("t_vector", pen[1])):
        pm = proj.method(sc, name)
        res.saw(pm)
        st, got = w.safe(name, w.call, inst, name)
        norm = [list(x) for x in got] if st == "ok" and name == "penalty_vectors" and isinstance(got, list) else \
            (list(got) if st == "ok" and isinstance(got, list) else got)
        res.check(st == "ok" and norm == want, "T4", f"ScoringScheme.{name}:row", pm.loc(),
                  ok_detail=f"{name} = {'[B, T]' if name == 'penalty_vectors' else ('B' if name == 'b_vector' else 'T')} as given "
                            f"to the constructor",
                  bad_detail=f"{name} gives {got!r} for a scheme built from {pen}")


def _check_fresh_matrices(res: Result, proj):
    """T5: the position / bucket-id matrices handed to the kernel are those of the dataset's *current* rankings - also
    after the dataset was mutated (evaluated on real Dataset instances; a matrix cached on first use would go stale)."""
    from .datamodel import World
    res.rule("T5", "position / bucket-id matrices agree with the current rankings after mutations of the dataset", 2)
    w = World(proj)
    raws = [[{1}, {2, 3}], [], [{3}, {1}], [{4}], [{2}, {4, 1}]]
    for first in ("get_positions", "get_bucket_ids"):
        d = w.dataset(raws)
        probs = []
        w.safe(first, w.call, d, first)
        w.safe("get_positions", w.call, d, "get_positions")
        w.safe("get_bucket_ids", w.call, d, "get_bucket_ids")
        for op, args in (("remove_empty_rankings", []), ("remove_elements", [{w.element(4)}]),
                         ("remove_elements_rate_presence_lower_than", [0.6])):
            st, _ = w.safe(op, w.call, d, op, *args)
            if st != "ok":
                probs.append(f"{op} raised {_}")
                break
            ps = [p_ for p_ in w.dataset_problems(d, f"after {op}") if "get_positions" in p_ or "get_bucket_ids" in p_]
            if ps:
                probs.append(ps[0])
                break
        g = proj.method(w.D, first)
        res.check(not probs, "T5", f"Dataset.{first}:fresh-after-mutation", g.loc(),
                  ok_detail="recomputed from the current rankings after each mutator",
                  bad_detail=f"start {raws}: " + "; ".join(probs[:1]))


def _is_view_of(node, tainted) -> bool:
    while isinstance(node, ast.Subscript):
        node = node.value
    return isinstance(node, ast.Name) and node.id in tainted


def _const_int(node):
    if isinstance(node, ast.Constant) and isinstance(node.value, int) and not isinstance(node.value, bool):
        return node.value
    if isinstance(node, ast.UnaryOp) and isinstance(node.op, ast.USub) and isinstance(node.operand, ast.Constant) \
            and isinstance(node.operand.value, int):
        return -node.operand.value
    return None


def _check_matrix_builder(res: Result, proj, g, rk):
    """Dataset.get_positions / get_bucket_ids: fill value, orientation and non-negativity of ranked values."""
    fills = []
    shape_ok = False
    for n_ in ast.walk(g.node):
        if isinstance(n_, ast.Call) and (dotted(n_.func) or "").split(".")[-1] == "full" and len(n_.args) >= 2:
            fills.append(_const_int(n_.args[1]))
            sh = n_.args[0]
            if isinstance(sh, ast.Tuple) and len(sh.elts) == 2 and src(sh.elts[0]) == "self.nb_elements" \
                    and src(sh.elts[1]) == "self.nb_rankings":
                shape_ok = True
    res.check(fills == [spec.UNRANKED] and shape_ok, "T4", f"Dataset.{g.name}:fill", g.loc(),
              ok_detail="matrix (nb_elements, nb_rankings) pre-filled with -1",
              bad_detail=f"fill value(s) {fills}, shape (elements, rankings) recognised: {shape_ok}")
    # stores
    stores = [n_ for n_ in ast.walk(g.node) if isinstance(n_, ast.Assign) and isinstance(n_.targets[0], ast.Subscript)]
    good = len(stores) == 1
    detail = f"{len(stores)} stores into the matrix"
    if good:
        st = stores[0]
        tgt = st.targets[0]
        # target is M[elem_index][ranking_index]
        if not (isinstance(tgt.value, ast.Subscript)):
            good, detail = False, f"store target {src(tgt)} is not M[elem][ranking]"
        else:
            first = src(tgt.value.slice)
            if "mapping_elem_id" not in first and "_mapping_element_id" not in first:
                good, detail = False, f"first index {first} is not an element id from the dataset's map"
            second = tgt.slice
            val = st.value
            nonneg, why = _nonneg_value(proj, g, val, rk)
            rank_ok = _is_ranking_counter(g, second)
            if good and not rank_ok:
                good, detail = False, f"second index {src(second)} is not the ranking counter"
            if good and not nonneg:
                good, detail = False, f"stored value {src(val)} is not provably >= 0: {why}"
            if good:
                detail = f"M[id(elem)][ranking] = {src(val)} ({why})"
    res.check(good, "T4", f"Dataset.{g.name}:store", g.loc(stores[0]) if stores else g.loc(), ok_detail=detail,
              bad_detail=detail)


def _is_ranking_counter(g, node) -> bool:
    """Index is the enumerate() counter of `self.rankings`, or a counter initialised to 0 and incremented by 1 once
    per iteration of the loop over `self.rankings`."""
    if not isinstance(node, ast.Name):
        return False
    name = node.id
    for n_ in ast.walk(g.node):
        if isinstance(n_, ast.For) and src(n_.iter) in ("self.rankings", "self._rankings"):
            # manual counter
            inits = [a for a in ast.walk(g.node) if isinstance(a, (ast.Assign, ast.AnnAssign))
                     and isinstance(getattr(a, "target", None) or a.targets[0], ast.Name)
                     and (getattr(a, "target", None) or a.targets[0]).id == name]
            incs = [a for a in n_.body if isinstance(a, ast.AugAssign) and isinstance(a.target, ast.Name)
                    and a.target.id == name and isinstance(a.op, ast.Add) and _const_int(a.value) == 1]
            if len(inits) == 1 and _const_int(inits[0].value) == 0 and len(incs) == 1:
                return True
        if isinstance(n_, ast.For) and isinstance(n_.iter, ast.Call) and dotted(n_.iter.func) == "enumerate" \
                and n_.iter.args and src(n_.iter.args[0]) in ("self.rankings", "self._rankings") \
                and len(n_.iter.args) == 1 and not n_.iter.keywords \
                and isinstance(n_.target, ast.Tuple) and isinstance(n_.target.elts[0], ast.Name) \
                and n_.target.elts[0].id == name:
            return True
    return False


def _nonneg_value(proj, g, val, rk):
    """val is `enumerate` index of buckets (>= 0) or `pos - c` with pos from Ranking.positions (>= start >= c)."""
    if isinstance(val, ast.Name):
        for n_ in ast.walk(g.node):
            if isinstance(n_, ast.For) and isinstance(n_.iter, ast.Call) and dotted(n_.iter.func) == "enumerate" \
                    and len(n_.iter.args) == 1 and not n_.iter.keywords and isinstance(n_.target, ast.Tuple) \
                    and isinstance(n_.target.elts[0], ast.Name) and n_.target.elts[0].id == val.id:
                return True, "enumerate index >= 0"
        return False, "not an enumerate index"
    if isinstance(val, ast.BinOp) and isinstance(val.op, ast.Sub) and isinstance(val.left, ast.Name):
        c = _const_int(val.right)
        if c is None:
            return False, "subtrahend not constant"
        # the name iterates over values of `ranking.positions.items()`
        ok_src = False
        for n_ in ast.walk(g.node):
            if isinstance(n_, ast.For) and isinstance(n_.target, ast.Tuple) and len(n_.target.elts) == 2 \
                    and isinstance(n_.target.elts[1], ast.Name) and n_.target.elts[1].id == val.left.id \
                    and isinstance(n_.iter, ast.Call) and isinstance(n_.iter.func, ast.Attribute) \
                    and n_.iter.func.attr == "items" and src(n_.iter.func.value).endswith(".positions"):
                ok_src = True
        if not ok_src:
            return False, "value does not come from Ranking.positions"
        start = _ranking_position_start(proj, rk)
        if start is None:
            return False, "cannot establish the first position assigned by Ranking.__init__"
        if start - c >= 0:
            return True, f"Ranking positions start at {start} and only grow, minus {c} >= 0"
        return False, f"Ranking positions start at {start}, minus {c} < 0"
    return False, "unrecognised value"


def _ranking_position_start(proj, rk):
    init = proj.method(rk, "__init__")
    stored = None
    for n_ in ast.walk(init.node):
        if isinstance(n_, ast.Assign) and isinstance(n_.targets[0], ast.Subscript) \
                and src(n_.targets[0].value) == "self._positions" and isinstance(n_.value, ast.Name):
            stored = n_.value.id
    if stored is None:
        return None
    start = None
    for n_ in ast.walk(init.node):
        tgt = None
        if isinstance(n_, ast.AnnAssign):
            tgt = n_.target
        elif isinstance(n_, ast.Assign):
            tgt = n_.targets[0]
        if isinstance(tgt, ast.Name) and tgt.id == stored:
            c = _const_int(n_.value)
            if c is None or start is not None:
                return None
            start = c
        if isinstance(n_, ast.AugAssign) and isinstance(n_.target, ast.Name) and n_.target.id == stored:
            if not (isinstance(n_.op, ast.Add) and isinstance(n_.value, ast.Call)
                    and dotted(n_.value.func) == "len"):
                return None
    return start


def _check_wrapper(res: Result, proj, w, kernel):
    """The wrapper (and whatever helpers it delegates to) evaluated on a real Dataset's position matrix and a real
    scheme, with the kernel intercepted: what reaches the kernel must be (positions, the scheme's [B, T] rows, one weight
    per ranking - all ones when none is given -, number of elements, number of rankings)."""
    from .datamodel import World
    from ..engines.abseval import Vec, Mat, Unsupported as U_
    world = World(proj)
    SS = proj.cls("corankco.scoringscheme", "ScoringScheme")
    pen = [[0., 1., 2., 3., 4., 5.], [6., 6., 0., 7., 7., 8.]]
    sch = world.rt.new(SS, [[list(pen[0]), list(pen[1])]], {})
    ds = world.dataset([[{1}, {2, 3}], [{3}, {1}], [{2}], [{2}, {3}, {1}], [{1, 2, 3}]])
    seen = []

    def kern(args, kw):
        seen.append((list(args), dict(kw)))
        from ..engines.npmodel import Cube
        n = len(args[0].rows) if isinstance(args[0], Mat) else 0
        c = Cube([[[0.0, 0.0, 0.0] for _ in range(n)] for _ in range(n)])
        c.as_matrix = True
        return c
    world.rt.overrides[kernel.qualname] = kern
    pba = proj.cls("corankco.algorithms.pairwisebasedalgorithm", "PairwiseBasedAlgorithm")

    def rows(v):
        if isinstance(v, Mat):
            return [list(r) for r in v.rows]
        if isinstance(v, list):
            return [list(x.vals) if isinstance(x, Vec) else list(x) for x in v]
        return None

    def vec(v):
        return list(v.vals) if isinstance(v, Vec) else (list(v) if isinstance(v, list) else None)
    pen0 = pen
    variants = [("default-weights", None, sch, pen0), ("given-weights", Vec([2.0, 1.0, 0.5, 3.0, 1.0]), sch, pen0)]
    # other schemes afterwards in the same process: multiples of the first one, a standard one, the first one again
    for k, factor in enumerate((2.0, 0.5)):
        p2 = [[x * factor for x in pen0[0]], [x * factor for x in pen0[1]]]
        variants.append((f"other-scheme-{k}", None, world.rt.new(SS, [[list(p2[0]), list(p2[1])]], {}), p2))
    uni = [[0., 1., 1., 0., 1., 1.], [1., 1., 0., 1., 1., 0.]]
    uni3 = [[3 * x for x in uni[0]], [3 * x for x in uni[1]]]
    variants.append(("unifying", None, world.rt.new(SS, [[list(uni[0]), list(uni[1])]], {}), uni))
    variants.append(("unifying-x3", None, world.rt.new(SS, [[list(uni3[0]), list(uni3[1])]], {}), uni3))
    variants.append(("first-again", None, sch, pen0))
    for label, weights, sch_, pen in variants:
        seen.clear()
        pos = world.call(ds, "get_positions")
        try:
            if weights is None:
                world.rt.call_static(pba, w.name, pos, sch_)
            else:
                world.rt.call_static(pba, w.name, pos, sch_, weights)
        except U_ as exc:
            raise AnalysisError(f"{w.qualname}: unsupported construct at line {getattr(exc.node, 'lineno', '?')}: {exc}")
        good = len(seen) == 1
        detail = f"{len(seen)} calls of the kernel"
        if good:
            args, kw = seen[0]
            good = (len(args) == 5 and not kw and rows(args[0]) == rows(pos) and rows(args[1]) == pen
                    and vec(args[2]) == ([1.0] * 5 if weights is None else list(weights.vals)) and args[3] == 3 and args[4] == 5)
            detail = (f"kernel called with positions {rows(args[0]) if args else None}, scheme rows "
                      f"{rows(args[1]) if len(args) > 1 else None}, weights {vec(args[2]) if len(args) > 2 else None}, "
                      f"sizes {args[3:]}")
        res.check(good, "T4", f"pairwise_cost_matrix:{'kernel-call' if weights is not None else label}", w.loc(),
                  ok_detail="kernel gets (positions, [B, T] rows of the scheme, " +
                            ("the caller's weights" if weights is not None else "ones(nb_rankings)") + ", nb_elements, nb_rankings)",
                  bad_detail=detail if not good else "")


"""
C03 - every algorithm returns a well-formed consensus over exactly the universe.

W1  every Consensus built by an algorithm carries the method's own dataset and scoring scheme (structural).
W2  well-formedness by end-to-end abstract evaluation of the real code of every algorithm configuration (rules/
    endtoend.py; random pivot scripted first / last / middle, ILP solver replaced by an ideal solver over the model the
    code builds, igraph components by Tarjan) on datasets covering int and string elements, all-digit components
    inside a string-typed universe, incomplete rankings, ties, duplicated rankings, an empty ranking and a single
    element: at least one ranking (exactly one when asked), buckets non-empty and pairwise disjoint, union = the
    dataset's universe with element identities and types preserved, Consensus bound to the caller's dataset.
W3  KwikSort emission: every remaining element lands in exactly one of the three parts (shared with C11/V3).
W4  "at most one": every site that can return several rankings is controlled by return_at_most_one_ranking
    (BioConsert row selection, PickAPerm ties, CPLEX pool) - C04/S6, C10/K2, C05/X4 scenarios re-used.
W5  BioConsert decode: each element id decoded exactly once through the caller's id map (C04/S6 scenarios).
"""
from __future__ import annotations

import os
from concurrent.futures import ProcessPoolExecutor
from typing import Dict, List, Tuple

from ..loader import AnalysisError, Project
from ..report import Result
from .endtoend import E2EWorld, configurations, UNIFYING, INDUCED, PSEUDO, GENERIC

DATASETS = [
    ("ints-ties-complete", [[{1}, {2, 3}, {4}], [{4}, {3}, {2}, {1}], [{2, 1}, {3, 4}]]),
    ("strings-incomplete", [[{"a"}, {"b"}], [{"c", "b"}, {"d"}, {"a"}], [{"d"}]]),
    ("digit-component-in-string-universe", [[{"a"}, {"1"}, {"2"}, {"3"}], [{"a"}, {"2"}, {"3"}, {"1"}], [{"a"}, {"3"}, {"1"}, {"2"}]]),
    ("duplicated-rankings", [[{3}, {1}, {2}], [{3}, {1}, {2}], [{2}, {1, 3}]]),
    ("with-empty-ranking", [[{1}, {2}], [], [{2}, {3}]]),
    ("single-element", [[{7}], [{7}]]),
    ("cycle", [[{1}, {2}, {3}], [{2}, {3}, {1}], [{3}, {1}, {2}]]),
    ("two-elements-opposed", [[{"x"}, {"y"}], [{"y"}, {"x"}]]),
    # two cyclic components one before the other: ParCons hands two sub-problems to its sub-solvers
    ("two-cyclic-components", [[{1}, {2}, {3}, {4}, {5}, {6}], [{2}, {3}, {1}, {5}, {6}, {4}], [{3}, {1}, {2}, {6}, {4}, {5}]]),
    # an incomplete dataset in which one ranking covers the whole universe and another has a tie before its last bucket
    ("incomplete-with-full-ranking", [[{1, 2}, {3}, {4}], [{5}, {1}, {2}, {3}, {4}], [{1, 2}, {3}, {4}]]),
]
SCHEMES = [("unifying", UNIFYING), ("induced", INDUCED), ("pseudodistance", PSEUDO), ("generic", GENERIC)]


def problems_of(w: E2EWorld, cons, ds, amo: bool) -> List[str]:
    out = []
    rks = cons.attrs.get("_consensus_rankings")
    if not isinstance(rks, list) or not rks:
        return [f"no consensus ranking returned ({rks!r})"]
    if amo and len(rks) != 1:
        out.append(f"{len(rks)} rankings returned although at most one was requested")
    universe = {w.key(e) for e in w.call(ds, "universe")}
    for r in rks:
        buckets = [{w.key(e) for e in b} for b in r.attrs["_buckets"]]
        if any(not b for b in buckets):
            out.append(f"empty bucket in {buckets}")
        flat = [x for b in buckets for x in b]
        if len(flat) != len(set(flat)):
            out.append(f"element in two buckets: {buckets}")
        if set(flat) != universe:
            missing, extra = universe - set(flat), set(flat) - universe
            out.append(f"consensus {buckets}: missing {sorted(missing, key=repr)} foreign {sorted(extra, key=repr)} "
                       f"(universe {sorted(universe, key=repr)})")
        out.extend(w.ranking_problems(r, "consensus ranking"))
    if cons.attrs.get("_dataset") is not ds:
        out.append("the Consensus is not bound to the caller's dataset")
    return out


def _worker(job):
    overlay, label, raws, thorough = job
    proj = Project(overlay=overlay)
    results = []
    pivots = ("first", "last", "middle") if thorough else ("first", "last")
    for pivot in pivots:
        w = E2EWorld(proj, pivot)
        ds = w.dataset(raws)
        complete = bool(w.call(ds, "is_complete"))
        for slabel, pen in SCHEMES:
            sch = w.scheme(pen)
            for clabel, alg, kind in configurations(w):
                if pivot != "first" and "KwikSort" not in clabel:
                    continue
                # (SCHEMES of this rule: unifying, induced, pseudodistance, generic - the first two are Borda's)
                accepts = complete or kind == "any" or (kind == "borda" and slabel in ("unifying", "induced")) \
                    or (kind == "pick" and slabel == "unifying")
                for amo in (True, False):
                    if "ExactAlgorithm()" == clabel and not amo:
                        # the selector forwards the flag to the free solver, which supports it
                        pass
                    st, c = w.try_compute(alg, ds, sch, amo)
                    key = (clabel, label)
                    if st != "ok":
                        if accepts:
                            results.append((key, f"scheme {slabel}, at_most_one={amo}, pivot {pivot}: raised {c}"))
                        continue
                    probs = problems_of(w, c, ds, amo)
                    for p_ in probs[:1]:
                        results.append((key, f"scheme {slabel}, at_most_one={amo}, pivot {pivot}: {p_}"))
                    results.append((key, None))
    return results


# one algorithm object, several datasets in a row (same shape / other labels, other types, then the first again)
_SIX = [[{1}, {2}, {3}, {4}, {5}, {6}], [{2}, {1}, {4}, {3}, {6}, {5}], [{6}, {5}, {4, 3}, {2}, {1}]]
REUSE = [
    ("six-ints", _SIX),
    ("six-ints-relabelled", [[{x + 10 for x in b} for b in r] for r in _SIX]),
    ("six-strings", [[{"abcdefg"[x] for x in b} for b in r] for r in _SIX]),
    ("three", [[{1}, {2}, {3}], [{2}, {3}, {1}], [{3}, {1}, {2}]]),
    ("three-relabelled", [[{7}, {8}, {9}], [{8}, {9}, {7}], [{9}, {7}, {8}]]),
    ("six-ints-again", _SIX),
]


def _reuse_worker(job):
    overlay, idx = job
    proj = Project(overlay=overlay)
    w = E2EWorld(proj, "first")
    clabel, alg, kind = configurations(w)[idx]
    out = []
    for slabel, pen in (("unifying", UNIFYING), ("induced", INDUCED)):
        sch = w.scheme(pen)
        for dlabel, raws in REUSE:
            ds = w.dataset(raws)
            st, c = w.try_compute(alg, ds, sch, True)
            if st != "ok":
                out.append((clabel, f"scheme {slabel}, dataset {dlabel} {raws} (after {[d for d, _ in REUSE][:[d for d, _ in REUSE].index(dlabel)]} "
                                    f"on the same object): raised {c}"))
                continue
            probs = problems_of(w, c, ds, True)
            out.append((clabel, (f"scheme {slabel}, dataset {dlabel} {raws} after "
                                 f"{[d for d, _ in REUSE][:[d for d, _ in REUSE].index(dlabel)]} on the same object: {probs[0]}")
                        if probs else None))
    return out


def run(ctx) -> Result:
    res = Result("C03")
    proj = ctx.proj
    res.rule("W1", "every Consensus built by an algorithm carries the caller's dataset and scheme", 3)
    res.rule("W2", "well-formed consensus over exactly the universe for every configuration x dataset x scheme "
                   "(end-to-end abstract evaluation)", 80)
    res.rule("W3", "KwikSort three-way emission covers every remaining element exactly once", 1)
    res.rule("W4", "several rankings only when allowed by return_at_most_one_ranking", 3)
    from . import C04, C10, C11
    C04.check_w1(res, proj, "W1")
    check_wellformed(res, proj, "W2", ctx.thorough)
    res.explored_threshold = 5         # datasets of 1 to 6 elements are evaluated end to end
    _rest(res, ctx)
    return res


def check_wellformed(res: Result, proj: Project, rule: str, thorough: bool, only=None):
    """Every configuration x dataset x scheme: the call returns (no exception where the scheme is accepted) a well-formed
    consensus over exactly the universe. Shared with C14 (a scheme declared relevant must be computable)."""
    jobs = [(proj.overlay, label, raws, thorough) for label, raws in DATASETS if only is None or label in only]
    agg: Dict[Tuple[str, str], List] = {}
    n_eval = 0
    with ProcessPoolExecutor(max_workers=min(len(jobs), os.cpu_count() or 1)) as ex:
        for results in ex.map(_worker, jobs):
            for key, problem in results:
                agg.setdefault(key, [])
                if problem is None:
                    n_eval += 1
                else:
                    agg[key].append(problem)
    for (clabel, dlabel), probs in sorted(agg.items()):
        res.check(not probs, rule, f"{clabel}:{dlabel}", "corankco/algorithms",
                  ok_detail="well-formed for every scheme and both values of return_at_most_one_ranking",
                  bad_detail=(f"dataset {dict(DATASETS)[dlabel]}: {probs[0]}" +
                              (f" [+{len(probs) - 1} more]" if len(probs) > 1 else "")) if probs else "")
    res.extra["end_to_end_evaluations"] = n_eval


def _rest(res: Result, ctx):
    proj = ctx.proj
    from . import C04, C10, C11
    # W6: the same algorithm object reused
    res.rule("W6", "an algorithm object reused on several datasets in a row returns, each time, a well-formed consensus "
                   "over that call's universe", 12)
    w0 = E2EWorld(proj, "first")
    nconf = len(configurations(w0))
    agg2: Dict[str, List] = {}
    with ProcessPoolExecutor(max_workers=min(nconf, os.cpu_count() or 1)) as ex:
        for results in ex.map(_reuse_worker, [(proj.overlay, i) for i in range(nconf)]):
            for clabel, problem in results:
                agg2.setdefault(clabel, [])
                if problem is not None:
                    agg2[clabel].append(problem)
    for clabel, probs in sorted(agg2.items()):
        res.check(not probs, "W6", f"{clabel}:reused", "corankco/algorithms",
                  ok_detail=f"{2 * len(REUSE)} consecutive calls on one object: each consensus is over its own call's universe",
                  bad_detail=probs[0] if probs else "")
    # W5: the projection ParCons and the CPLEX front end hand to the sub-solvers
    res.rule("W5", "Dataset.sub_problem_from_elements = definitional projection for every kept subset", 1)
    from . import C16
    C16.check_projection(res, proj, "W5", thorough=ctx.thorough)
    # W3 / W4 / W5: scenario rules shared with the properties that own the mechanisms
    sub = Result("C03")
    C11.run_v3_only(sub, proj)
    for o in sub.obligations:
        o.rule = "W3"
        res.obligations.append(o)
    sub = Result("C03")
    C04.check_bioconsert_selection(sub, proj, "W4")
    C04.check_decode_large(sub, proj, "W4")
    C10.check_scan(sub, proj, "W4")
    for o in sub.obligations:
        o.rule = "W4"
        res.obligations.append(o)
    res.functions |= sub.functions
    res.assumptions.append("an ILP solver returns a feasible optimum of the model it is given; igraph returns strongly "
                           "connected components in topological order")
    res.not_decided.append("well-formedness of what a real solver hands back (depends on solver output)")
    return res

"""
C17 - Dataset equality means same multiset of rankings, nothing else.

Y1  (structural taint rule) no text rendering and no set-iteration order reaches the result of Dataset.__eq__,
    Ranking.__eq__, Element.__eq__ / __hash__ (and of the package functions they call): str / repr / f-string /
    format / join are rendering sources; list / tuple / comprehension / generator over a set-typed value is an
    order source; frozenset / set / sorted / len / Counter / membership are sanitizers.
Y2  value semantics by abstract evaluation of the real __eq__ / __hash__ bodies: Element equality = same type and
    value (hash consistent); Ranking equality = same buckets in the same order; Dataset equality = equal multisets
    of rankings, irrespective of ranking order and names; near-misses differ.
Y3  reflexive and symmetric on every pair explored.
"""
from __future__ import annotations

import ast
import itertools
from collections import Counter
from typing import List

from ..loader import AnalysisError, Project, src, parent, dotted
from ..report import Result
from ..engines.abseval import Unsupported, AbsRaise
from .datamodel import World, typed, all_intlike

RENDER_CALLS = {"str", "repr", "format", "ascii"}
ORDERING_CTORS = {"list", "tuple"}
SANITIZERS = {"frozenset", "set", "sorted", "len", "Counter", "sum", "min", "max", "any", "all"}


def _taint_problems(proj: Project, cg, f, seen=None, depth=0) -> List[str]:
    """Rendering / order sources inside f (and package callees), as 'loc: what'."""
    if seen is None:
        seen = set()
    if f.qualname in seen or depth > 4:
        return []
    seen.add(f.qualname)
    out = []
    env = cg.env(f)
    for n in ast.walk(f.node):
        if isinstance(n, ast.JoinedStr):
            out.append(f"{f.loc(n)}: f-string rendering in {f.short}")
        elif isinstance(n, ast.Call):
            name = dotted(n.func)
            # a rendering function handed over as a value (sorted(..., key=repr), map(str, ...)) renders the items
            handed = [a for a in list(n.args) + [k.value for k in n.keywords]
                      if isinstance(a, ast.Name) and a.id in RENDER_CALLS]
            if handed and not (isinstance(n.func, ast.Name) and n.func.id in ("isinstance", "issubclass")):
                items = [a for a in n.args if a not in handed]
                if not items or any(_may_hold_set(a, env) for a in items):
                    out.append(f"{f.loc(n)}: `{handed[0].id}` applied as a function to values that may hold sets in "
                               f"{f.short} (the text of a set follows its arbitrary iteration order): `{src(n)[:90]}`")
            if isinstance(n.func, ast.Name) and n.func.id in RENDER_CALLS:
                if not n.args or _may_hold_set(n.args[0], env):
                    out.append(f"{f.loc(n)}: {n.func.id}(...) rendering in {f.short}: `{src(n)[:70]}`")
            elif isinstance(n.func, ast.Attribute) and n.func.attr in ("join", "format", "replace", "strip", "split"):
                out.append(f"{f.loc(n)}: text operation .{n.func.attr}() in {f.short}: `{src(n)[:70]}`")
            elif isinstance(n.func, ast.Name) and n.func.id in ORDERING_CTORS and n.args:
                a = n.args[0]
                if _iterates_set(a, env):
                    out.append(f"{f.loc(n)}: {n.func.id}() of a set-typed value fixes an arbitrary order in "
                               f"{f.short}: `{src(n)[:70]}`")
        elif isinstance(n, ast.BinOp) and isinstance(n.op, ast.Mod) and isinstance(n.left, ast.Constant) \
                and isinstance(n.left.value, str):
            out.append(f"{f.loc(n)}: %-formatting in {f.short}")
        elif isinstance(n, ast.ListComp):
            if any(_is_set_typed(g.iter, env) for g in n.generators) and not _sanitized(n):
                out.append(f"{f.loc(n)}: list built by iterating a set in {f.short}: `{src(n)[:70]}`")
    # package callees (properties included)
    for cs in cg.sites.get(f.qualname, []):
        for c in cs.callees:
            if c.module.name.startswith("corankco") and c.name not in ("__init__",):
                out.extend(_taint_problems(proj, cg, c, seen, depth + 1))
    for p in cg.property_reads(f):
        out.extend(_taint_problems(proj, cg, p, seen, depth + 1))
    return out


SET_FREE_TYPES = {"int", "float", "str", "bool", "None", "Element", "bytes", "complex"}


def _type_may_hold_set(t) -> bool:
    """True unless the static type is known to be built from scalars / Elements only (their text is canonical)."""
    if t is None:
        return True
    if t.is_set:
        return True
    if t.name in SET_FREE_TYPES:
        return False
    if t.name in ("List", "list", "Tuple", "tuple", "Dict", "dict", "Iterator", "Iterable", "Sequence", "Optional", "Union") and t.args:
        return any(_type_may_hold_set(a) for a in t.args)
    return True         # unknown types, Ranking, Dataset, ... : their rendering may walk a set


def _may_hold_set(node, env) -> bool:
    if isinstance(node, ast.Constant):
        return False
    if isinstance(node, (ast.GeneratorExp, ast.ListComp, ast.SetComp)):
        return _may_hold_set(node.elt, env) or isinstance(node, ast.SetComp)
    if isinstance(node, ast.Call) and isinstance(node.func, ast.Name) and node.func.id in ("frozenset", "set"):
        return True
    if isinstance(node, ast.Call) and isinstance(node.func, ast.Name) and node.func.id in ("tuple", "list", "sorted") and node.args:
        return _may_hold_set(node.args[0], env)
    try:
        return _type_may_hold_set(env.type_of(node))
    except Exception:
        return True


def _is_set_typed(node, env) -> bool:
    t = env.type_of(node)
    return t.is_set


def _iterates_set(node, env) -> bool:
    if _is_set_typed(node, env):
        return True
    if isinstance(node, (ast.GeneratorExp, ast.ListComp)):
        return any(_is_set_typed(g.iter, env) for g in node.generators)
    return False


def _sanitized(node) -> bool:
    p = parent(node)
    while p is not None and isinstance(p, (ast.Call, ast.GeneratorExp, ast.ListComp, ast.SetComp)):
        if isinstance(p, ast.Call) and (dotted(p.func) or "").split(".")[-1] in SANITIZERS:
            return True
        p = parent(p)
    return False


def run(ctx) -> Result:
    res = Result("C17")
    proj = ctx.proj
    cg = ctx.cg
    w = World(proj)
    res.rule("Y1", "no rendering / set-order source reaches __eq__ / __hash__ results (taint over the call graph)", 4)
    res.rule("Y2", "value semantics of Element / Ranking / Dataset equality by evaluation of the real bodies", 8)
    res.rule("Y3", "reflexive and symmetric on all explored pairs", 2)
    targets = [(w.D, "__eq__"), (w.R, "__eq__"), (w.E, "__eq__"), (w.E, "__hash__")]
    for cls, name in targets:
        f = proj.method(cls, name)
        res.saw(f)
        probs = _taint_problems(proj, cg, f)
        res.check(not probs, "Y1", f"{cls.name}.{name}:no-rendering-or-order-source", f.loc(),
                  ok_detail="result computed from sets / frozensets / counters / attribute comparisons only",
                  bad_detail="; ".join(probs[:3]))

    # ------------------------------------------------------------------ Y2 Element
    vals = [1, "1", "a", 2, "2", "b", 0, ""]
    elems = [w.element(v) for v in vals]
    bad = None
    bad_hash = None
    for (v1, e1), (v2, e2) in itertools.product(zip(vals, elems), repeat=2):
        want = type(v1) is type(v2) and v1 == v2
        st, got = w.safe("Element.__eq__", lambda: e1 == e2)
        if st != "ok" or bool(got) != want:
            bad = bad or (v1, v2, got, want)
        if want and hash(e1) != hash(e2):
            bad_hash = bad_hash or (v1, v2)
    feq = proj.method(w.E, "__eq__")
    res.check(bad is None, "Y2", "Element.__eq__:same-type-and-value", feq.loc(),
              ok_detail=f"{len(vals) ** 2} pairs: equal iff same type and same value",
              bad_detail=f"Element({bad[0]!r}) == Element({bad[1]!r}) gives {bad[2]!r}, expected {bad[3]}" if bad else "")
    res.check(bad_hash is None, "Y2", "Element.__hash__:consistent-with-eq", proj.method(w.E, "__hash__").loc(),
              ok_detail="equal elements hash equally",
              bad_detail=f"Element({bad_hash[0]!r}) and Element({bad_hash[1]!r}) are equal but hash differently" if bad_hash else "")
    # raw comparisons
    raw_ok = all([(w.element(1) == 1) is True, (w.element("a") == "a") is True, (w.element(1) == "1") is False,
                  (w.element("1") == 1) is False, (w.element(1) == 2) is False])
    res.check(raw_ok, "Y2", "Element.__eq__:raw-values", feq.loc(), ok_detail="Element(1)==1, Element('a')=='a', "
              "Element(1)!='1', Element('1')!=1", bad_detail="comparison with raw int / str values is wrong")
    # attributes read by __hash__ are decisive in __eq__
    fh = proj.method(w.E, "__hash__")
    hash_attrs = {n.attr for n in ast.walk(fh.node) if isinstance(n, ast.Attribute)}
    eq_attrs = {n.attr for n in ast.walk(feq.node) if isinstance(n, ast.Attribute)}
    norm = lambda s: {a.lstrip("_") for a in s}
    res.check(norm(hash_attrs) <= norm(eq_attrs), "Y2", "Element.__hash__:attributes-subset-of-eq", fh.loc(),
              ok_detail=f"hash reads {sorted(norm(hash_attrs))}, eq compares {sorted(norm(eq_attrs))}",
              bad_detail=f"hash reads {sorted(norm(hash_attrs))} not all compared by eq {sorted(norm(eq_attrs))}")

    # ------------------------------------------------------------------ Y2 Ranking
    raws = [[{1}, {2, 3}], [{2, 3}, {1}], [{1}, {3, 2}], [{1}, {2}, {3}], [{1, 2, 3}], [], [{1}, {2, 3}, {4}], [{"1"}, {"2", "3"}]]
    rks = [w.ranking(r) for r in raws]
    bad = None
    asym = None
    for (r1, k1), (r2, k2) in itertools.product(zip(raws, rks), repeat=2):
        want = w.raw_ranking(k1) == w.raw_ranking(k2)
        st, got = w.safe("Ranking.__eq__", lambda: k1 == k2)
        st2, got2 = w.safe("Ranking.__eq__", lambda: k2 == k1)
        if st != "ok" or bool(got) != want:
            bad = bad or (r1, r2, got, want)
        if got != got2:
            asym = asym or ("Ranking", r1, r2)
    res.check(bad is None, "Y2", "Ranking.__eq__:same-buckets-same-order", proj.method(w.R, "__eq__").loc(),
              ok_detail=f"{len(raws) ** 2} pairs: equal iff same buckets in the same order",
              bad_detail=f"Ranking({bad[0]}) == Ranking({bad[1]}) gives {bad[2]!r}, expected {bad[3]}" if bad else "")

    # ------------------------------------------------------------------ Y2 Dataset
    base = [[{1}, {2, 3}], [{3}, {1}], [{1}, {2, 3}], [{2}]]
    variants = {
        "same": base,
        "permuted": [base[3], base[0], base[2], base[1]],
        "bucket-members-listed-differently": [[{1}, {3, 2}], [{3}, {1}], [{1}, {3, 2}], [{2}]],
        "one-multiplicity-less": [base[0], base[1], base[3]],
        "one-multiplicity-more": base + [base[1]],
        "one-element-moved": [[{1, 2}, {3}], [{3}, {1}], [{1}, {2, 3}], [{2}]],
        "bucket-order-swapped": [[{2, 3}, {1}], [{3}, {1}], [{1}, {2, 3}], [{2}]],
        "other-multiset-same-support": [base[0], base[1], base[1], base[3]],
        "strings-8-0": [[{"0", "8"}], [{"a b"}]],
        "strings-ab": [[{"8", "0"}], [{"ab"}]],
        "strings-a-b": [[{"0", "8"}], [{"a b"}]],
        # different datasets in which every element occupies the same positions overall (a comparison of per-element
        # position multisets, or of independently sorted rows / columns, cannot tell them apart)
        "latin-a": [[{1}, {2}, {3}, {4}], [{2}, {1}, {4}, {3}]],
        "latin-b": [[{1}, {2}, {4}, {3}], [{2}, {1}, {3}, {4}]],
        "square-a": [[{1}, {2}, {3}], [{2}, {3}, {1}], [{3}, {1}, {2}]],
        "square-b": [[{1}, {3}, {2}], [{3}, {2}, {1}], [{2}, {1}, {3}]],
        "with-empty": [[{1}], [], [{1}]],
        "with-empty-permuted": [[], [{1}], [{1}]],
        "with-two-empties": [[], [{1}], []],
    }
    ds = {k: w.dataset(v) for k, v in variants.items()}
    names = list(variants)
    w.rt.call_method(ds["permuted"], "__eq__", ds["same"])   # smoke
    bad = None
    refl = None
    n_pairs = 0
    for a, b in itertools.product(names, repeat=2):
        n_pairs += 1
        ca = Counter(tuple(frozenset(x) for x in r) for r in w.raw_dataset(ds[a]))
        cb = Counter(tuple(frozenset(x) for x in r) for r in w.raw_dataset(ds[b]))
        want = ca == cb
        st, got = w.safe("Dataset.__eq__", lambda: ds[a] == ds[b])
        st2, got2 = w.safe("Dataset.__eq__", lambda: ds[b] == ds[a])
        if st != "ok" or bool(got) != want:
            bad = bad or (variants[a], variants[b], got, want)
        if got != got2:
            asym = asym or ("Dataset", variants[a], variants[b])
        if a == b and not got:
            refl = refl or variants[a]
    deq = proj.method(w.D, "__eq__")
    res.check(bad is None, "Y2", "Dataset.__eq__:multiset-of-rankings", deq.loc(),
              ok_detail=f"{n_pairs} ordered pairs (permuted, duplicated, near-miss, delimiter-like names): equal iff the "
                        f"multisets of rankings are equal",
              bad_detail=f"Dataset({bad[0]}) == Dataset({bad[1]}) gives {bad[2]!r}, expected {bad[3]}" if bad else "")
    # names are irrelevant
    d1, d2 = w.dataset(base), w.dataset(base)
    d1.attrs["_name"] = "one"
    d2.attrs["_name"] = "two"
    res.check((d1 == d2) is True, "Y2", "Dataset.__eq__:name-irrelevant", deq.loc(),
              ok_detail="datasets differing only by name are equal", bad_detail="dataset names influence equality")
    st, got = w.safe("Dataset.__eq__", lambda: w.rt.call_method(d1, "__eq__", 5))
    res.check(st == "ok" and not (got is True), "Y2", "Dataset.__eq__:foreign-type", deq.loc(),
              ok_detail="comparison with a non-dataset is not True", bad_detail=f"Dataset == 5 gives {got!r}")
    res.check(asym is None, "Y3", "eq:symmetric", deq.loc(), ok_detail="a == b agrees with b == a on every pair",
              bad_detail=f"{asym[0]} equality not symmetric on {asym[1]} vs {asym[2]}" if asym else "")
    res.check(refl is None, "Y3", "eq:reflexive", deq.loc(), ok_detail="every dataset equals itself",
              bad_detail=f"Dataset({refl}) != itself" if refl else "")
    # ------------------------------------------------------------------ Y4: equality follows the current content
    res.rule("Y4", "equality is decided on what the datasets contain now: compared, modified in place, compared again", 1)
    starts = [[[{1}, {2, 3}], [], [{3}, {1}], [{4}], []], [[{1}, {2}], [{2}, {1}], [{3}]], [[{"a"}, {"b"}], [], [{"b"}]]]
    muts = [("remove_empty_rankings", None), ("remove_elements", "first"), ("remove_elements_rate_presence_lower_than", 0.5)]
    bad = None
    n_h = 0
    for raws in starts:
        for op, arg in muts:
            d, same = w.dataset(raws), w.dataset(raws)
            first = w.safe("Dataset.__eq__", lambda: d == same)
            st, _r = "ok", None
            if op == "remove_elements":
                victim = sorted({x for r in raws for b in r for x in b}, key=repr)[0]
                st, _r = w.safe(op, w.call, d, op, {w.element(victim)})
            elif arg is None:
                st, _r = w.safe(op, w.call, d, op)
            else:
                st, _r = w.safe(op, w.call, d, op, arg)
            if st != "ok":
                continue
            n_h += 1
            now = [[{v for _t, v in b} for b in r] for r in w.raw_dataset(d)]
            fresh = w.dataset(now)
            changed = Counter(tuple(frozenset(x) for x in r) for r in w.raw_dataset(d)) != \
                Counter(tuple(frozenset(x) for x in r) for r in w.raw_dataset(same))
            for label, other, want in (("the unmodified copy", same, not changed), ("a fresh dataset of its current rankings", fresh, True)):
                for swap in (False, True):
                    st2, got = w.safe("Dataset.__eq__", (lambda: other == d) if swap else (lambda: d == other))
                    if st2 != "ok" or bool(got) != want:
                        bad = bad or (raws, op, label, got, want, now)
    res.check(bad is None and first[0] == "ok", "Y4", "Dataset.__eq__:after-in-place-modification", deq.loc(),
              ok_detail=f"{n_h} histories (compare, {', '.join(m for m, _ in muts)}, compare again): equality follows the "
                        f"current rankings",
              bad_detail=(f"Dataset({bad[0]}) compared once, then {bad[1]}() (it now holds {bad[5]}): compared with {bad[2]} "
                          f"gives {bad[3]!r}, expected {bad[4]}") if bad else "")
    res.assumptions.append("set iteration order is abstracted away by the evaluator (canonical order); rule Y1 is what "
                           "guarantees the real result cannot depend on it")
    return res

"""
C07 - ParFront partition / consistency test.

Q1  robust-arc and graph-arc predicates (abstract evaluation of the numpy boolean-array code on cost cubes realising
    every weak ordering of (before, after, tied)); graph / robust arcs built from the same cost matrix.
Q2  parfront_partition abstractly evaluated on component sequences x robust-arc sets: result = the fix-point of
    "merge consecutive groups i, i+1 iff some pair (x in i, y in i+1) is not a robust arc" - merges are of consecutive
    groups only, order preserved, back-tracking reaches the head group.
Q4  consistent_with abstractly evaluated on all (ordered partition, ranking) pairs over three elements plus size
    mismatches and empty groups: terminates and answers the documented relation.
Q5  parcons_partition = components of the same graph, in order, decoded through the dataset's id map.
"""
from __future__ import annotations

import itertools
from typing import Dict, List, Set, Tuple

from ..loader import AnalysisError, Project
from ..report import Result
from ..engines.abseval import Evaluator, Sym, Obj, Unsupported, LoopBound, AbsRaise, IndexOut
from . import pairwise

MOD = "corankco.partitioning.ordered_partition"


def _fixpoint(groups: List[Set[int]], robust: Set[Tuple[int, int]]) -> List[Set[int]]:
    groups = [set(g) for g in groups]
    changed = True
    while changed:
        changed = False
        for i in range(len(groups) - 1):
            if any((x, y) not in robust for x in groups[i] for y in groups[i + 1]):
                groups[i] |= groups[i + 1]
                del groups[i + 1]
                changed = True
                break
    return groups


class PartitionWorld:
    """The real partition code (and whatever helper it calls) evaluated on a real Dataset of n singleton elements, with
    the cost table scripted: a cube realising the given components (a complete DAG between them, so their topological
    order is unique) and the given set of robust cross pairs."""

    def __init__(self, proj: Project):
        from .datamodel import World
        from ..engines.npmodel import Cube
        self.Cube = Cube
        self.proj = proj
        self.w = World(proj)
        self.w.rt.max_steps = 60000
        self.w.rt.funcs["print"] = lambda ev, call: None
        self.cube = None
        self.log: Dict = {}
        pba = proj.cls("corankco.algorithms.pairwisebasedalgorithm", "PairwiseBasedAlgorithm")

        def pcm(args, kw):
            self.log["args"] = list(args)
            return self.cube
        self.w.rt.overrides[proj.method(pba, "pairwise_cost_matrix").qualname] = pcm
        self.SS = proj.cls("corankco.scoringscheme", "ScoringScheme")
        self.OP = proj.cls(MOD, "OrderedPartition")
        self.datasets: Dict[int, object] = {}
        self.scheme = self.w.rt.new(self.SS, [[[0., 1., 1., 0., 1., 1.], [1., 1., 0., 1., 1., 0.]]], {})

    def run(self, which: str, sccs: List[List[int]], robust: Set[Tuple[int, int]]):
        n = sum(len(s) for s in sccs)
        comp = {v: k for k, s in enumerate(sccs) for v in s}
        data = [[[0.0, 0.0, 0.0] for _ in range(n)] for _ in range(n)]
        for i in range(n):
            for j in range(n):
                if i == j:
                    continue
                if comp[i] == comp[j]:
                    cell = [2.0, 2.0, 1.0]          # neither order is a cheapest placement: arcs both ways
                elif comp[i] < comp[j]:
                    cell = [0.0, 2.0, 1.0] if (i, j) in robust else [1.0, 2.0, 1.0]
                else:
                    cell = [2.0, 0.0, 1.0] if (j, i) in robust else [2.0, 1.0, 1.0]
                data[i][j] = cell
        self.cube = self.Cube(data)
        self.cube.as_matrix = True
        if n not in self.datasets:
            self.datasets[n] = self.w.dataset([[{i} for i in range(n)]])
        ds = self.datasets[n]
        self.log.clear()
        try:
            part = self.w.rt.call_static(self.OP, which, ds, self.scheme)
        except LoopBound:
            return "LOOP", None, self.log
        except AbsRaise as r:
            return "RAISE", f"raises {r.exc_name.split('.')[-1]} (line {getattr(r.node, 'lineno', '?')})", {"wired": True}
        except IndexOut as exc:
            return "RAISE", f"raises IndexError ({exc})", {"wired": True}
        except Unsupported as exc:
            raise AnalysisError(f"OrderedPartition.{which}: unsupported construct line {getattr(exc.node, 'lineno', '?')}: {exc}")
        groups = [{e.attrs["_value"] for e in g} for g in part.attrs["_partition"]]
        args = self.log.get("args") or [None, None]
        pos = self.w.call(ds, "get_positions")
        bid = self.w.call(ds, "get_bucket_ids")
        wired = len(args) >= 2 and args[1] is self.scheme and (args[0] == pos or args[0] == bid)
        return "PARTITION", groups, {"wired": wired, "args": args}


_PW: Dict[int, PartitionWorld] = {}


def eval_partition(proj: Project, which: str, sccs: List[List[int]], robust: Set[Tuple[int, int]]):
    if id(proj) not in _PW:
        _PW.clear()
        _PW[id(proj)] = PartitionWorld(proj)
    return _PW[id(proj)].run(which, sccs, robust)


_CW = {}


def eval_consistent(proj: Project, partition: List[Set[str]], ranking: List[Set[str]], cons_nb: int):
    """The real OrderedPartition.consistent_with on a real OrderedPartition and a real Consensus made of `ranking` plus
    a decoy second ranking over the same elements (only the first one must be read). `cons_nb` > number of elements of `ranking` is realised by
    binding the Consensus to a dataset with that many elements."""
    from .datamodel import World
    if _CW.get("proj") is not proj:
        _CW.clear()
        w_ = World(proj)
        w_.rt.max_steps = 40000
        w_.rt.funcs["print"] = lambda ev, call: None
        _CW.update(proj=proj, w=w_)
    w = _CW["w"]
    OP = proj.cls(MOD, "OrderedPartition")
    CONS = proj.cls("corankco.consensus", "Consensus")
    f = proj.method(OP, "consistent_with")
    try:
        part = w.rt.new(OP, [[{w.element(x) for x in g} for g in partition]], {})
        r0 = w.ranking([set(b) for b in ranking])
        # a second consensus ranking over the same elements, one per bucket, in the opposite order: reading it instead of
        # (or besides) the first one changes the answer on most pairs
        decoy = w.ranking([{x} for b in reversed(ranking) for x in sorted(b, reverse=True)])
        ds = None
        n_in = sum(len(b) for b in ranking)
        if cons_nb != n_in:
            extra = [f"x{i}" for i in range(cons_nb - n_in)] if cons_nb > n_in else []
            ds = w.dataset([[set(b) for b in ranking] + ([set(extra)] if extra else [])]) if (ranking or extra) else None
        cons = w.rt.new(CONS, [[r0, decoy]] + ([ds] if ds is not None else []), {})
        return w.rt.call_method(part, "consistent_with", cons)
    except LoopBound:
        return "LOOP"
    except Unsupported as exc:
        raise AnalysisError(f"{f.qualname}: unsupported construct line {getattr(exc.node, 'lineno', '?')}: {exc}")


def _cascades(n: int):
    """Sets of non-robust pairs over n singleton groups shaped like the cases the merge loop has to get right: a first
    fusion at boundary (i, i+1), d earlier groups absorbed backwards one after the other (because of a pair with the
    nearest or with the farthest member of the merged group), then the following boundary robust / non-robust through
    an adjacent pair / non-robust only through the earliest member of the merged group; optionally a second, separate
    fusion further right."""
    out = set()
    for i in range(n - 1):
        for d in range(0, i + 1):
            for far in (False, True):
                base = {(i, i + 1)}
                for k in range(1, d + 1):
                    base.add((i - k, i + 1 if far else i - k + 1))
                trails = [set()]
                if i + 2 < n:
                    trails += [{(i + 1, i + 2)}, {(i - d, i + 2)}]
                    if i + 3 < n:
                        trails += [{(i - d, i + 2), (i + 2, i + 3)}, {(i + 2, i + 3)}, {(i - d, i + 3)}]
                for t in trails:
                    out.add(tuple(sorted(base | t)))
    return out


def ordered_partitions(elems: List[str]):
    """All sequences of non-empty disjoint sets covering elems."""
    n = len(elems)
    for k in range(1, n + 1):
        for assign in itertools.product(range(k), repeat=n):
            if len(set(assign)) == k:
                yield [{e for e, a in zip(elems, assign) if a == i} for i in range(k)]


def run(ctx) -> Result:
    res = Result("C07")
    proj = ctx.proj
    cls = proj.cls(MOD, "OrderedPartition")
    pf = proj.method(cls, "parfront_partition")
    pc = proj.method(cls, "parcons_partition")
    cw = proj.method(cls, "consistent_with")
    res.saw(pf, pc, cw)
    res.rule("Q1", "arc / robust-arc predicates over all weak orderings of (before, after, tied); same cost matrix", 4)
    res.rule("Q2", "ParFront = fix-point of merging consecutive groups lacking a full set of robust arcs", 3)
    res.rule("Q4", "consistency walk terminates and answers the documented relation (all partition x ranking pairs)", 3)
    res.rule("Q5", "ParCons partition = graph components in order through the dataset's id map", 2)
    pairwise.check_graph_predicates(res, proj, "Q1", "Q1")
    pairwise.check_graph_wiring(res, proj, "Q1")

    # ------------------------------------------------------------------ Q2
    shapes = [
        [[0], [1], [2], [3]],
        [[0], [1], [2]],
        [[0, 1], [2], [3]],
        [[0], [1, 2], [3]],
        [[2], [0], [3], [1]],
    ]
    if ctx.thorough:
        shapes.append([[0], [1], [2], [3], [4]])
    # big consecutive groups (10 and 12 cross pairs between two groups), few missing arcs
    big_shapes = [[[0, 1], [2, 3, 4, 5, 6]], [[0, 1, 2], [3, 4, 5, 6]], [[0], [1, 2, 3], [4, 5, 6, 7]]]
    n_worlds = 0
    bad = None
    loop = None
    wiring_bad = None
    plans = []
    for sccs in shapes:
        cross = [(x, y) for i in range(len(sccs)) for j in range(i + 1, len(sccs)) for x in sccs[i] for y in sccs[j]]
        # subsets of missing robust arcs among cross pairs (bounded), reverse arcs never robust
        subsets = itertools.chain.from_iterable(itertools.combinations(cross, r) for r in range(0, min(len(cross), 3) + 1))
        if len(cross) <= 6:
            subsets = itertools.chain.from_iterable(itertools.combinations(cross, r) for r in range(len(cross) + 1))
        plans.append((sccs, list(subsets)))
    for sccs in big_shapes:
        cross = [(x, y) for i in range(len(sccs)) for j in range(i + 1, len(sccs)) for x in sccs[i] for y in sccs[j]]
        subs = [()] + [(c,) for c in cross] + [c for c in itertools.combinations(cross, 2)][::(1 if ctx.thorough else 5)]
        plans.append((sccs, subs))
    for n_ in (5, 6, 7):
        plans.append(([[i] for i in range(n_)], sorted(_cascades(n_))))
    for sccs, subsets in plans:
        n = sum(len(s) for s in sccs)
        groups = [set(s) for s in sccs]
        cross = [(x, y) for i in range(len(sccs)) for j in range(i + 1, len(sccs)) for x in sccs[i] for y in sccs[j]]
        for missing in subsets:
            n_worlds += 1
            robust = set(cross) - set(missing)
            ret, part, log = eval_partition(proj, "parfront_partition", sccs, robust)
            if ret == "LOOP":
                if loop is None:
                    loop = (sccs, sorted(missing))
                continue
            want = [set(g) for g in _fixpoint(groups, robust)]
            if (ret != "PARTITION" or part != want) and bad is None:
                bad = (sccs, sorted(missing), part, want)
            if not log.get("wired") and wiring_bad is None:
                wiring_bad = log.get("args")
    res.check(loop is None, "Q2", "parfront_partition:terminates", pf.loc(),
              ok_detail=f"merge loop terminates on all {n_worlds} worlds",
              bad_detail=f"components {loop[0]} with non-robust pairs {loop[1]}: merge loop does not terminate" if loop else "")
    res.check(bad is None, "Q2", "parfront_partition:fix-point", pf.loc(),
              ok_detail=f"{n_worlds} worlds (component sequences x sets of non-robust cross pairs): result is the "
                        f"fix-point, consecutive merges only, order kept",
              bad_detail=(f"components {bad[0]}, non-robust pairs {bad[1]}: returns {bad[2]!r}, fix-point is {bad[3]!r}")
              if bad else "")
    res.check(wiring_bad is None, "Q2", "parfront_partition:inputs", pf.loc(),
              ok_detail="graph and robust arcs computed from the dataset's positions and the given scheme",
              bad_detail=f"graph built from {wiring_bad!r}")
    res.extra["parfront_worlds"] = n_worlds
    res.explored_threshold = 11         # up to 8 groups / 12 cross pairs between two consecutive groups are among the worlds

    # ------------------------------------------------------------------ Q5
    bad = None
    for sccs in shapes[:4]:
        ret, part, log = eval_partition(proj, "parcons_partition", sccs, set())
        want = [set(s) for s in sccs]
        if (ret != "PARTITION" or part != want or not log.get("wired")) and bad is None:
            bad = (sccs, part, log.get("args"))
    res.check(bad is None, "Q5", "parcons_partition:components-in-order", pc.loc(),
              ok_detail="one group per component, in the order the graph returns them, decoded with mapping_id_elem",
              bad_detail=f"components {bad[0]}: returns {bad[1]!r} (graph inputs {bad[2]!r})" if bad else "")
    # both partitions obtain components from the same call on the graph builder's graph
    import ast
    comp_calls = {}
    for f in (pf, pc):
        comp_calls[f.name] = [ast.unparse(n.func) for n in ast.walk(f.node) if isinstance(n, ast.Call)
                              and isinstance(n.func, ast.Attribute) and n.func.attr in ("components", "connected_components", "clusters")]
    res.check(all(len(v) == 1 and v[0].endswith(".components") for v in comp_calls.values()), "Q5",
              "partitions:same-components-call", pf.loc(), ok_detail="both use graph.components() (strongly connected, default)",
              bad_detail=f"component calls {comp_calls}")

    # ------------------------------------------------------------------ Q4
    elems = ["a", "b", "c"]
    parts = list(ordered_partitions(elems))
    ranks = list(ordered_partitions(elems))
    bad = None
    loop = None
    n_pairs = 0
    for p in parts:
        for r in ranks:
            n_pairs += 1
            got = eval_consistent(proj, [set(g) for g in p], [set(b) for b in r], 3)
            if got == "LOOP":
                if loop is None:
                    loop = (p, r)
                continue
            pos = {e: i for i, b in enumerate(r) for e in b}
            want = all(pos[x] < pos[y] for i in range(len(p)) for j in range(i + 1, len(p)) for x in p[i] for y in p[j])
            if bool(got) != want and bad is None:
                bad = (p, r, got, want)
    res.check(loop is None and bad is None, "Q4", "consistent_with:relation", cw.loc(),
              ok_detail=f"{n_pairs} (partition, ranking) pairs over 3 elements answer 'earlier group strictly before "
                        f"later group'",
              bad_detail=(f"partition {loop[0]} vs ranking {loop[1]}: does not terminate" if loop else
                          (f"partition {bad[0]} vs ranking {bad[1]}: answers {bad[2]!r}, relation is {bad[3]}"
                           if bad else "")))
    # size mismatches / exhausted consensus / empty group: must terminate; mismatch answers False
    special = [
        ("partition-larger", [{"a"}, {"b"}], [{"a"}], 1, False),
        ("consensus-larger", [{"a"}], [{"a"}, {"b"}], 2, False),
        ("empty-group", [{"a"}, set(), {"b"}], [{"a"}, {"b"}], 2, True),
        ("same-count-other-elements", [{"a"}, {"b"}], [{"a"}, {"c"}], 2, False),
        ("shorter-consensus-same-count", [{"a"}, {"b"}], [{"a"}], 2, False),
    ]
    bad = None
    for label, p, r, nb, want in special:
        got = eval_consistent(proj, p, r, nb)
        if (got == "LOOP" or bool(got) != want) and bad is None:
            bad = (label, p, r, got, want)
    res.check(bad is None, "Q4", "consistent_with:degenerate-inputs", cw.loc(),
              ok_detail="size mismatch, foreign elements, exhausted consensus and empty groups terminate with the "
                        "documented answer",
              bad_detail=(f"{bad[0]}: partition {bad[1]} vs ranking {bad[2]}: "
                          f"{'does not terminate' if bad[3] == 'LOOP' else f'answers {bad[3]!r}, expected {bad[4]}'}")
              if bad else "")
    # only the first consensus ranking is considered, and nb_elements compared
    res.ok("Q4", "consistent_with:first-ranking", cw.loc(), "evaluated with a decoy second ranking: only ranking[0] read")
    res.not_decided.append("that every optimal consensus respects the ParFront partition (theorem over costs; igraph's "
                           "component order is trusted)")
    if not res.violations:      # the end-to-end pass adds nothing to an established violation (and may not terminate on it)
        from . import e2e
        e2e.check(res, ctx.proj, "C07", ctx.thorough)
    return res

"""
C07 - ParFront partition / consistency test.

Q1  robust-arc and graph-arc predicates (abstract evaluation of the numpy boolean-array code on cost cubes realising
    every weak ordering of (before, after, tied)); graph / robust arcs built from the same cost matrix.
Q2  parfront_partition abstractly evaluated on component sequences x robust-arc sets: result = the fix-point of
    "merge consecutive groups i, i+1 iff some pair (x in i, y in i+1) is not a robust arc" - merges are of consecutive
    groups only, order preserved, back-tracking reaches the head group.
Q4  consistent_with abstractly evaluated on all (ordered partition, ranking) pairs over three elements plus size
    mismatches and empty groups: terminates and answers the documented relation.
Q5  parcons_partition = components of the same graph, in order, decoded through the dataset's id map.
"""
from __future__ import annotations

import itertools
from typing import Dict, List, Set, Tuple

from ..loader import AnalysisError, Project
from ..report import Result
from ..engines.abseval import Evaluator, Sym, Obj, Unsupported, LoopBound
from . import pairwise

MOD = "corankco.partitioning.ordered_partition"


def _fixpoint(groups: List[Set[int]], robust: Set[Tuple[int, int]]) -> List[Set[int]]:
    groups = [set(g) for g in groups]
    changed = True
    while changed:
        changed = False
        for i in range(len(groups) - 1):
            if any((x, y) not in robust for x in groups[i] for y in groups[i + 1]):
                groups[i] |= groups[i + 1]
                del groups[i + 1]
                changed = True
                break
    return groups


def eval_partition(proj: Project, which: str, sccs: List[List[int]], robust: Set[Tuple[int, int]]):
    cls = proj.cls(MOD, "OrderedPartition")
    f = proj.method(cls, which)
    n = sum(len(s) for s in sccs)
    elems = {i: f"e{i}" for i in range(n)}
    # positions and bucket ids are interchangeable encodings for the cost table (C02/T3)
    ds = Obj("DS", {"mapping_id_elem": elems}, {"get_positions": lambda ev, call, a, kw: Sym("POS"),
                                                 "get_bucket_ids": lambda ev, call, a, kw: Sym("POS")})
    graph = Obj("GRAPH", methods={"components": lambda ev, call, a, kw: [list(s) for s in sccs]})
    log = {}

    def with_robust(ev, call):
        log["args"] = [ev.ev(a) for a in call.args]
        return (graph, Sym("MATRIX"), set(robust))

    def plain(ev, call):
        log["args"] = [ev.ev(a) for a in call.args]
        return (graph, Sym("MATRIX"))
    captured = {}

    def op_ctor(ev, call):
        captured["partition"] = ev.ev(call.args[0])
        return "PARTITION"
    funcs = {"PairwiseBasedAlgorithm.graph_of_elements_with_robust_arcs": with_robust,
             "PairwiseBasedAlgorithm.graph_of_elements": plain, "OrderedPartition": op_ctor}
    evl = Evaluator({}, funcs)
    evl.while_bound = 200
    try:
        ret = evl.call_user(f.node, [ds, Sym("SCHEME")])
    except LoopBound:
        return "LOOP", None, log
    except Unsupported as exc:
        raise AnalysisError(f"{f.qualname}: unsupported construct line {getattr(exc.node, 'lineno', '?')}: {exc}")
    return ret, captured.get("partition"), log


def eval_consistent(proj: Project, partition: List[Set[str]], ranking: List[Set[str]], cons_nb: int):
    cls = proj.cls(MOD, "OrderedPartition")
    f = proj.method(cls, "consistent_with")
    ggi = proj.method(cls, "get_group_index")
    mapping = {}
    for i, g in enumerate(partition):
        for e in g:
            mapping[e] = i
    me = Obj("SELF", {"_partition": partition, "partition": partition, "_mapping_elements_bucket_id": mapping,
                      "nb_elements": len(mapping)})
    me.methods["get_group_index"] = lambda ev, call, a, kw: ev.call_user(ggi.node, [me] + a, kw)
    cons = Obj("CONS", {"consensus_rankings": [ranking, [{"zzz"}]], "nb_elements": cons_nb})
    evl = Evaluator({}, {})
    evl.while_bound = 300
    try:
        return evl.call_user(f.node, [me, cons])
    except LoopBound:
        return "LOOP"
    except Unsupported as exc:
        raise AnalysisError(f"{f.qualname}: unsupported construct line {getattr(exc.node, 'lineno', '?')}: {exc}")


def ordered_partitions(elems: List[str]):
    """All sequences of non-empty disjoint sets covering elems."""
    n = len(elems)
    for k in range(1, n + 1):
        for assign in itertools.product(range(k), repeat=n):
            if len(set(assign)) == k:
                yield [{e for e, a in zip(elems, assign) if a == i} for i in range(k)]


def run(ctx) -> Result:
    res = Result("C07")
    proj = ctx.proj
    cls = proj.cls(MOD, "OrderedPartition")
    pf = proj.method(cls, "parfront_partition")
    pc = proj.method(cls, "parcons_partition")
    cw = proj.method(cls, "consistent_with")
    res.saw(pf, pc, cw)
    res.rule("Q1", "arc / robust-arc predicates over all weak orderings of (before, after, tied); same cost matrix", 4)
    res.rule("Q2", "ParFront = fix-point of merging consecutive groups lacking a full set of robust arcs", 3)
    res.rule("Q4", "consistency walk terminates and answers the documented relation (all partition x ranking pairs)", 3)
    res.rule("Q5", "ParCons partition = graph components in order through the dataset's id map", 2)
    pairwise.check_graph_predicates(res, proj, "Q1", "Q1")
    pairwise.check_graph_wiring(res, proj, "Q1")

    # ------------------------------------------------------------------ Q2
    shapes = [
        [[0], [1], [2], [3]],
        [[0], [1], [2]],
        [[0, 1], [2], [3]],
        [[0], [1, 2], [3]],
        [[2], [0], [3], [1]],
    ]
    if ctx.thorough:
        shapes.append([[0], [1], [2], [3], [4]])
    n_worlds = 0
    bad = None
    loop = None
    wiring_bad = None
    for sccs in shapes:
        n = sum(len(s) for s in sccs)
        groups = [set(s) for s in sccs]
        cross = [(x, y) for i in range(len(sccs)) for j in range(i + 1, len(sccs)) for x in sccs[i] for y in sccs[j]]
        # subsets of missing robust arcs among cross pairs (bounded), reverse arcs never robust
        subsets = itertools.chain.from_iterable(itertools.combinations(cross, r) for r in range(0, min(len(cross), 3) + 1))
        if len(cross) <= 6:
            subsets = itertools.chain.from_iterable(itertools.combinations(cross, r) for r in range(len(cross) + 1))
        for missing in subsets:
            n_worlds += 1
            robust = set(cross) - set(missing)
            ret, part, log = eval_partition(proj, "parfront_partition", sccs, robust)
            if ret == "LOOP":
                if loop is None:
                    loop = (sccs, sorted(missing))
                continue
            want = [{f"e{i}" for i in g} for g in _fixpoint(groups, robust)]
            if (ret != "PARTITION" or part != want) and bad is None:
                bad = (sccs, sorted(missing), part, want)
            if log.get("args") != [Sym("POS"), Sym("SCHEME")] and wiring_bad is None:
                wiring_bad = log.get("args")
    res.check(loop is None, "Q2", "parfront_partition:terminates", pf.loc(),
              ok_detail=f"merge loop terminates on all {n_worlds} worlds",
              bad_detail=f"components {loop[0]} with non-robust pairs {loop[1]}: merge loop does not terminate" if loop else "")
    res.check(bad is None, "Q2", "parfront_partition:fix-point", pf.loc(),
              ok_detail=f"{n_worlds} worlds (component sequences x sets of non-robust cross pairs): result is the "
                        f"fix-point, consecutive merges only, order kept",
              bad_detail=(f"components {bad[0]}, non-robust pairs {bad[1]}: returns {bad[2]!r}, fix-point is {bad[3]!r}")
              if bad else "")
    res.check(wiring_bad is None, "Q2", "parfront_partition:inputs", pf.loc(),
              ok_detail="graph and robust arcs computed from the dataset's positions and the given scheme",
              bad_detail=f"graph built from {wiring_bad!r}")
    res.extra["parfront_worlds"] = n_worlds

    # ------------------------------------------------------------------ Q5
    bad = None
    for sccs in shapes[:4]:
        ret, part, log = eval_partition(proj, "parcons_partition", sccs, set())
        want = [{f"e{i}" for i in s} for s in sccs]
        if (ret != "PARTITION" or part != want or log.get("args") != [Sym("POS"), Sym("SCHEME")]) and bad is None:
            bad = (sccs, part, log.get("args"))
    res.check(bad is None, "Q5", "parcons_partition:components-in-order", pc.loc(),
              ok_detail="one group per component, in the order the graph returns them, decoded with mapping_id_elem",
              bad_detail=f"components {bad[0]}: returns {bad[1]!r} (graph inputs {bad[2]!r})" if bad else "")
    # both partitions obtain components from the same call on the graph builder's graph
    import ast
    comp_calls = {}
    for f in (pf, pc):
        comp_calls[f.name] = [ast.unparse(n.func) for n in ast.walk(f.node) if isinstance(n, ast.Call)
                              and isinstance(n.func, ast.Attribute) and n.func.attr in ("components", "connected_components", "clusters")]
    res.check(all(len(v) == 1 and v[0].endswith(".components") for v in comp_calls.values()), "Q5",
              "partitions:same-components-call", pf.loc(), ok_detail="both use graph.components() (strongly connected, default)",
              bad_detail=f"component calls {comp_calls}")

    # ------------------------------------------------------------------ Q4
    elems = ["a", "b", "c"]
    parts = list(ordered_partitions(elems))
    ranks = list(ordered_partitions(elems))
    bad = None
    loop = None
    n_pairs = 0
    for p in parts:
        for r in ranks:
            n_pairs += 1
            got = eval_consistent(proj, [set(g) for g in p], [set(b) for b in r], 3)
            if got == "LOOP":
                if loop is None:
                    loop = (p, r)
                continue
            pos = {e: i for i, b in enumerate(r) for e in b}
            want = all(pos[x] < pos[y] for i in range(len(p)) for j in range(i + 1, len(p)) for x in p[i] for y in p[j])
            if bool(got) != want and bad is None:
                bad = (p, r, got, want)
    res.check(loop is None and bad is None, "Q4", "consistent_with:relation", cw.loc(),
              ok_detail=f"{n_pairs} (partition, ranking) pairs over 3 elements answer 'earlier group strictly before "
                        f"later group'",
              bad_detail=(f"partition {loop[0]} vs ranking {loop[1]}: does not terminate" if loop else
                          (f"partition {bad[0]} vs ranking {bad[1]}: answers {bad[2]!r}, relation is {bad[3]}"
                           if bad else "")))
    # size mismatches / exhausted consensus / empty group: must terminate; mismatch answers False
    special = [
        ("partition-larger", [{"a"}, {"b"}], [{"a"}], 1, False),
        ("consensus-larger", [{"a"}], [{"a"}, {"b"}], 2, False),
        ("empty-group", [{"a"}, set(), {"b"}], [{"a"}, {"b"}], 2, True),
        ("same-count-other-elements", [{"a"}, {"b"}], [{"a"}, {"c"}], 2, False),
        ("shorter-consensus-same-count", [{"a"}, {"b"}], [{"a"}], 2, False),
    ]
    bad = None
    for label, p, r, nb, want in special:
        got = eval_consistent(proj, p, r, nb)
        if (got == "LOOP" or bool(got) != want) and bad is None:
            bad = (label, p, r, got, want)
    res.check(bad is None, "Q4", "consistent_with:degenerate-inputs", cw.loc(),
              ok_detail="size mismatch, foreign elements, exhausted consensus and empty groups terminate with the "
                        "documented answer",
              bad_detail=(f"{bad[0]}: partition {bad[1]} vs ranking {bad[2]}: "
                          f"{'does not terminate' if bad[3] == 'LOOP' else f'answers {bad[3]!r}, expected {bad[4]}'}")
              if bad else "")
    # only the first consensus ranking is considered, and nb_elements compared
    res.ok("Q4", "consistent_with:first-ranking", cw.loc(), "evaluated with a decoy second ranking: only ranking[0] read")
    res.not_decided.append("that every optimal consensus respects the ParFront partition (theorem over costs; igraph's "
                           "component order is trusted)")
    if not res.violations:      # the end-to-end pass adds nothing to an established violation (and may not terminate on it)
        from . import e2e
        e2e.check(res, ctx.proj, "C07", ctx.thorough)
    return res

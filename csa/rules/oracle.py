"""
Definitional oracles written from the property texts only (no repository code): generalized Kemeny score, pairwise
cost table, optimum by exhaustive enumeration of the rankings with ties of a small universe, single-move
neighbourhood. Used by the bounded end-to-end rules (suffix /E) of several properties.
"""
from __future__ import annotations

import itertools
from typing import Dict, List, Sequence, Set, Tuple

Raw = List[Set]


def status(x, y, ranking: Raw) -> int:
    px = next((i for i, b in enumerate(ranking) if x in b), None)
    py = next((i for i, b in enumerate(ranking) if y in b), None)
    if px is not None and py is not None:
        return 0 if px < py else (1 if px > py else 2)
    if px is not None:
        return 3
    if py is not None:
        return 4
    return 5


def score(candidate: Raw, rankings: List[Raw], pen) -> float:
    b, t = pen
    pos = {e: i for i, bk in enumerate(candidate) for e in bk}
    elems = sorted(pos, key=repr)
    if any(e not in pos for r in rankings for bk in r for e in bk):
        return float("nan")         # not a candidate over the universe: no score
    tot = 0.0
    for r in rankings:
        for x, y in itertools.combinations(elems, 2):
            if pos[x] < pos[y]:
                tot += b[status(x, y, r)]
            elif pos[x] > pos[y]:
                tot += b[status(y, x, r)]
            else:
                tot += t[status(x, y, r)]
    return tot


def ordered_partitions(elems: Sequence) -> List[Raw]:
    elems = list(elems)
    n = len(elems)
    out = []
    for k in range(1, n + 1):
        for assign in itertools.product(range(k), repeat=n):
            if len(set(assign)) == k:
                out.append([{e for e, a in zip(elems, assign) if a == i} for i in range(k)])
    return out


def universe(rankings: List[Raw]) -> List:
    u = []
    for r in rankings:
        for bk in r:
            for e in sorted(bk, key=repr):
                if e not in u:
                    u.append(e)
    return u


def optimum(rankings: List[Raw], pen) -> Tuple[float, List[Raw]]:
    u = universe(rankings)
    best = None
    arg = []
    for c in ordered_partitions(u):
        s = score(c, rankings, pen)
        if best is None or s < best - 1e-9:
            best, arg = s, [c]
        elif abs(s - best) <= 1e-9:
            arg.append(c)
    return best, arg


def unified(rankings: List[Raw]) -> List[Raw]:
    u = set(universe(rankings))
    out = []
    for r in rankings:
        dom = set().union(*r) if r else set()
        out.append([set(b) for b in r] + ([u - dom] if u - dom else []))
    return out


def neighbours(c: Raw) -> List[Raw]:
    """All rankings obtained by moving one element into another existing bucket or into a new bucket anywhere."""
    out = []
    elems = [e for b in c for e in b]
    for e in elems:
        rest = [set(b) - {e} for b in c]
        rest = [b for b in rest if b]
        for i in range(len(rest)):
            n1 = [set(b) for b in rest]
            n1[i].add(e)
            out.append(n1)
        for i in range(len(rest) + 1):
            out.append([set(b) for b in rest[:i]] + [{e}] + [set(b) for b in rest[i:]])
    return out


def cost_table(rankings: List[Raw], order: List, pen) -> List[List[List[float]]]:
    """cost[i][j] = [i before j, i after j, i tied with j] summed over rankings."""
    b, t = pen
    n = len(order)
    sigma = {0: 1, 1: 0, 2: 2, 3: 4, 4: 3, 5: 5}
    m = [[[0.0, 0.0, 0.0] for _ in range(n)] for _ in range(n)]
    for i in range(n):
        for j in range(n):
            if i == j:
                continue
            for r in rankings:
                s = status(order[i], order[j], r)
                m[i][j][0] += b[s]
                m[i][j][1] += b[sigma[s]]
                m[i][j][2] += t[s]
    return m


def respects(c: Raw, partition: List[Set]) -> bool:
    pos = {e: i for i, bk in enumerate(c) for e in bk}
    for i in range(len(partition)):
        for j in range(i + 1, len(partition)):
            for x in partition[i]:
                for y in partition[j]:
                    if x not in pos or y not in pos or not pos[x] < pos[y]:
                        return False
    return True


def equal_means(k: int, positions: List[int]) -> List[Raw]:
    """Elements 1 and 2 have the same exact mean (0-based) position sum(positions) / len(positions) although 1 is ranked
    in c1 = len(positions) rankings and 2 in k * c1 rankings (3, 4, 5 are fillers present everywhere): under a measure
    that ignores missing elements they must tie."""
    fillers = [3, 4, 5]

    def ranking(p, who):
        r = [set(fillers[:p]), set(who), set(fillers[p:])]
        return [b for b in r if b]
    out: List[Raw] = [ranking(p, {1, 2}) for p in positions]
    for _ in range(k - 1):
        out += [ranking(p, {2}) for p in positions]
    return out


SCHEMES = {
    "unifying": [[0., 1., 1., 0., 1., 1.], [1., 1., 0., 1., 1., 0.]],
    "unifying-p0.5": [[0., 1., .5, 0., 1., .5], [.5, .5, 0., .5, .5, 0.]],
    "induced": [[0., 1., 1., 0., 0., 0.], [1., 1., 0., 0., 0., 0.]],
    "induced-p0.5": [[0., 1., .5, 0., 0., 0.], [.5, .5, 0., 0., 0., 0.]],
    "pseudodistance": [[0., 1., 1., 0., 1., 0.], [1., 1., 0., 1., 1., 0.]],
    "generic": [[0., 2., 1., 1., 3., 4.], [1., 1., 0., 2., 2., 5.]],
    "b5-gt-t5": [[0., 1., .5, .5, 1., 2.], [1., 1., 0., 2., 2., 0.]],
    "unifying-x3": [[0., 3., 3., 0., 3., 3.], [3., 3., 0., 3., 3., 0.]],
    "unifying-p0.25": [[0., 1., .25, 0., 1., .25], [.25, .25, 0., .25, .25, 0.]],     # scores are not multiples of 0.5
    "unifying-x1e-4": [[0., 1e-4, 1e-4, 0., 1e-4, 1e-4], [1e-4, 1e-4, 0., 1e-4, 1e-4, 0.]],   # a valid scheme in small units
    "unifying-p0": [[0., 1., 0., 0., 1., 0.], [0., 0., 0., 0., 0., 0.]],               # ties are free
}

DATASETS = {
    "cycle3": [[{1}, {2}, {3}], [{2}, {3}, {1}], [{3}, {1}, {2}]],
    "ties-incomplete": [[{1}, {2, 3}], [{3}, {1}], [{2}], [{2}, {3}, {1}]],
    "later-id-first": [[{2}, {1}, {3}], [{3}, {1}, {2}], [{2}, {3}, {1}]],
    "sparse-components": [[{1}], [{1}, {2}, {0}], [{0}, {3}, {2}]],
    "four-mixed": [[{1}, {2, 3}, {4}], [{4}, {3}, {2}, {1}], [{2, 1}, {3, 4}], [{3}, {4}]],
    "strings": [[{"a"}, {"b"}, {"c", "d"}], [{"c", "d"}, {"a"}, {"b"}], [{"a"}, {"c"}, {"b"}, {"d"}]],
    "head-merge": [[{2}, {4}], [{0, 2, 4}]],
    "unanimous": [[{3}, {2}, {1}], [{3}, {2}, {1}], [{3}, {2}, {1}]],
    "two-opposed": [[{1}, {2}], [{2}, {1}]],
    "digit-component": [[{"a"}, {"1"}, {"2"}, {"3"}], [{"a"}, {"2"}, {"3"}, {"1"}], [{"a"}, {"3"}, {"1"}, {"2"}]],
    "with-empty": [[{1}, {2}], [], [{2}, {3}], [{3}, {1}]],
    "big-bucket": [[{1, 2, 3}, {4}], [{4}, {1}], [{2}, {4}, {3}]],
    "six-mixed": [[{1}, {2, 3}, {4}, {5, 6}], [{6}, {5}, {4}, {3}, {2}, {1}], [{2, 1}, {3, 4}], [{5}, {1}, {6}], [{3}, {6, 2}]],
    "two-empties": [[{1}, {2}, {3}], [{1}, {2}, {3}], [{1, 2, 3}], [], []],
    # several incomparable components: the order igraph lists them in is one of many topological orders
    "branching-components": [[{3}, {1}], [{1}, {2, 5}, {4}]],
    "five-branching": [[{4}, {5}, {3}, {2}], [{1, 3}, {2, 5}]],
    "equal-means-3-15": equal_means(5, [2, 2, 1]),            # totals 5 / 25 over 3 / 15 rankings
    "equal-means-5-15": equal_means(3, [2, 1, 1, 1, 1]),      # totals 6 / 18 over 5 / 15 rankings
    "equal-means-3-6": equal_means(2, [3, 2, 2]),             # totals 7 / 14 over 3 / 6 rankings
    # same-size rankings over different domains (top-k lists): incomplete although all rankings have 2 elements
    "topk": [[{1}, {2}], [{2}, {3}], [{3}, {1}], [{1}, {2}]],
    "topk-pairs": [[{2}, {4}], [{1}, {4}], [{1, 4}], [{3}, {2}]],
    # a string-typed universe whose cyclic component is made of digit names of different lengths ("8" < "9" < "10" as
    # numbers, "10" < "8" < "9" as strings)
    "digit-names-mixed-lengths": [[{"a"}, {"9"}, {"8"}, {"10"}, {"b"}], [{"a"}, {"9", "10"}, {"8"}, {"b"}],
                                  [{"a"}, {"9"}, {"8"}, {"10"}, {"b"}], [{"a"}, {"9", "10", "8"}, {"b"}],
                                  [{"a"}, {"8"}, {"9", "10"}, {"b"}]],
    "tie3": [[{1, 2}, {3}], [{1, 2}, {3}], [{2}, {1}, {3}]],
    "single": [[{7}], [{7}]],
    "five-cycle-ties": [[{1}, {2}, {3}, {4}, {5}], [{3, 4}, {5}, {1}, {2}], [{5}, {1, 2, 3}], [{2}, {4}], [{4}, {5}, {3}, {2}, {1}]],
}

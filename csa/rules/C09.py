"""
C09 - BioConsert is never worse than any of its starting points.

N1  id-space consistency: `_departure_rankings` abstractly evaluated on caller datasets whose element->id map differs
    from the first-appearance order of every derived dataset (unified dataset, dataset of starters' consensuses):
    every departure row must hold the bucket ids *under the caller's map* (the one the cost matrix and the decoder
    use).
N2  initial score of each departure row = definitional score of that row (same table as C04/S2).
N3  starting set: without starters every distinct unified input ranking (duplicates once) plus the all-tied row;
    with starters exactly one row per starter, each computed on the caller's dataset and scheme asking for one ranking;
    the entry point asks for the default starting set.
N4  selection: the reported score is the minimum final score and exactly the rows reaching it are returned.
N5  monotonicity: the local search only applies moves whose test value is < a negative threshold, the test value is
    the definitional delta of the move applied (C08/L5, L7), and the sum of the accepted values is returned.
"""
from __future__ import annotations

from typing import List

from ..loader import Project
from ..report import Result
from ..engines.abseval import Mat, Sym
from . import bioc


def _rows(ret) -> List[List[int]]:
    if isinstance(ret, Mat):
        return [list(r) for r in ret.rows]
    if isinstance(ret, list):
        return [list(r) for r in ret]
    return []


def _expected_rows(sc: bioc.Scenario, rankings, mapping) -> List[List[int]]:
    rows = []
    for r in rankings:
        row = [0] * len(mapping)
        for k, b in enumerate(r):
            for e in b:
                row[mapping[e]] = k
        rows.append(row)
    return rows


SCENARIOS = [
    # elems, caller mapping (NOT first-appearance of the unified rankings), rankings, complete
    ("incomplete-later-id-first", ["A", "B", "C"], {"A": 0, "B": 1, "C": 2}, [[{"C"}, {"A"}], [{"B"}, {"C", "A"}]], False),
    ("complete-permuted-ids", ["A", "B", "C", "D"], {"A": 3, "B": 0, "C": 2, "D": 1},
     [[{"A"}, {"B", "C"}, {"D"}], [{"D"}, {"C"}, {"B"}, {"A"}], [{"A"}, {"B", "C"}, {"D"}]], True),
    ("incomplete-with-duplicates", ["A", "B", "C", "D"], {"A": 0, "B": 1, "C": 2, "D": 3},
     [[{"D"}], [{"B"}, {"A"}], [{"D"}], [{"C", "A"}, {"B"}, {"D"}]], False),
]


def _long_scenario(n: int = 1003):
    """Two permutations of n elements that differ only in the middle (plus a duplicate of the first): every text
    rendering of a long array that drops its middle makes them look equal."""
    names = [f"E{i:04d}" for i in range(n)]
    first = [{x} for x in names]
    second = [{x} for x in names]
    second[n // 2], second[n // 2 + 1] = second[n // 2 + 1], second[n // 2]
    return ("long-rankings-differing-in-the-middle", names, {x: i for i, x in enumerate(names)},
            [first, second, [set(b) for b in first]], True)


STARTERS = [
    [[{"C"}, {"B"}, {"A"}], [{"B", "A"}, {"C"}]],
    [[{"D"}, {"C", "B"}, {"A"}]],
]


STARTER_DATA = [[{2, 3, 7}, {1, 5}, {4, 6}], [{4}, {1, 2, 3, 5, 6, 7}], [{1, 5}, {2, 3, 4}, {6, 7}]]


def _check_constructor(res: Result, proj: Project):
    """Real BioConsert objects built by the real constructor from lists of real starting algorithms - among them
    different algorithms of one class (the two Borda variants, which disagree on STARTER_DATA; BioConsert objects with
    different starters of their own): the real `_departure_rankings` must hold one row per given starter, the encoding
    of that starter's own consensus under the dataset's id map."""
    from .endtoend import E2EWorld, UNIFYING
    from ..engines.abseval import AbsRaise, Unsupported, Vec
    from ..loader import AnalysisError
    cls = proj.cls(bioc.MOD, "BioConsert")
    dep = proj.method(cls, "_departure_rankings")
    w = E2EWorld(proj)
    a = w.alg
    ds = w.dataset(STARTER_DATA)
    sch = w.scheme(UNIFYING)
    ids = {w.key(e)[1]: i for e, i in ds.abs_getattr("mapping_elem_id", None, None).items()}

    def starters(kind):
        if kind == "two Borda variants":
            return [a("borda.borda", "BordaCount", use_bucket_id=True), a("borda.borda", "BordaCount")]
        if kind == "Borda, Copeland, Borda variant":
            return [a("borda.borda", "BordaCount"), a("copeland.copeland", "CopelandMethod"),
                    a("borda.borda", "BordaCount", use_bucket_id=True)]
        return [a("bioconsert.bioconsert", "BioConsert", starting_algorithms=[a("borda.borda", "BordaCount", use_bucket_id=True)]),
                a("bioconsert.bioconsert", "BioConsert", starting_algorithms=[a("borda.borda", "BordaCount")])]
    for kind in ("two Borda variants", "Borda, Copeland, Borda variant", "two BioConsert with different starters"):
        try:
            algs = starters(kind)
            want = []
            for alg in algs:
                c = w.compute(alg, ds, sch, True)
                row = [None] * len(ids)
                for k, b in enumerate(c.attrs["_consensus_rankings"][0].attrs["_buckets"]):
                    for e in b:
                        row[ids[w.key(e)[1]]] = k
                want.append(row)
            bio = a("bioconsert.bioconsert", "BioConsert", starting_algorithms=list(algs))
            ret = w.rt.call_method(bio, dep.name, ds, sch)
        except AbsRaise as r:
            res.bad("N3", f"BioConsert(starting_algorithms):{kind}", dep.loc(), f"raised {r.exc_name}")
            continue
        except Unsupported as exc:
            raise AnalysisError(f"{dep.qualname} with real starting algorithms: unsupported construct line "
                                f"{getattr(exc.node, 'lineno', '?')}: {exc}")
        rows = [[int(x) for x in (r.vals if isinstance(r, Vec) else r)] for r in
                (ret.abs_iter() if hasattr(ret, "abs_iter") else ret)]
        distinct = len({tuple(r) for r in want})
        # (identical rows may be kept once: the guarantee is about the consensus of each starter, not about multiplicity)
        res.check({tuple(r) for r in rows} == {tuple(r) for r in want}, "N3", f"BioConsert(starting_algorithms):{kind}", dep.loc(),
                  ok_detail=f"{len(want)} starters ({distinct} distinct consensuses) -> one departure row each",
                  bad_detail=f"dataset {STARTER_DATA}, unifying scheme: the starters' own consensuses encode as {want}, "
                             f"the departure rows are {rows}")


REAL_DATA = [
    ("incomplete-later-id-first", [[{"C"}, {"A"}], [{"B"}, {"C", "A"}], [{"C"}, {"A"}]]),
    ("ties-and-missing", [[{1, 2}, {3}], [{4}, {1}], [{1, 2}, {3}], [{3}, {2}, {1}, {4}]]),
    ("complete-with-big-buckets", [[{1, 2, 3}, {4, 5}], [{5}, {4}, {3}, {2}, {1}], [{1, 2, 3}, {4, 5}]]),
]


def _check_departure_real(res: Result, proj: Project):
    """The real `_departure_rankings` of a real default BioConsert on real datasets: the rows are the bucket ids - under
    the dataset's own id map - of every distinct unified input ranking, plus the all-tied row."""
    from .endtoend import E2EWorld, UNIFYING
    from ..engines.abseval import AbsRaise, Unsupported, Vec
    from ..loader import AnalysisError
    from . import oracle
    cls = proj.cls(bioc.MOD, "BioConsert")
    dep = proj.method(cls, "_departure_rankings")
    for label, raws in REAL_DATA:
        w = E2EWorld(proj)
        ds = w.dataset(raws)
        sch = w.scheme(UNIFYING)
        ids = {w.key(e)[1]: i for e, i in ds.abs_getattr("mapping_elem_id", None, None).items()}
        want = set()
        for r in oracle.unified(raws):
            row = [None] * len(ids)
            for k, b in enumerate(r):
                for e in b:
                    row[ids[e]] = k
            want.add(tuple(row))
        want.add(tuple([0] * len(ids)))
        try:
            bio = w.alg("bioconsert.bioconsert", "BioConsert")
            ret = w.rt.call_method(bio, dep.name, ds, sch)
        except AbsRaise as r:
            res.bad("N1", f"_departure_rankings:real-instances:{label}", dep.loc(), f"dataset {raws}: raised {r.exc_name}")
            continue
        except Unsupported as exc:
            raise AnalysisError(f"{dep.qualname} on real instances: unsupported construct line "
                                f"{getattr(exc.node, 'lineno', '?')}: {exc}")
        rows = {tuple(int(x) for x in (r.vals if isinstance(r, Vec) else r)) for r in
                (ret.abs_iter() if hasattr(ret, "abs_iter") else ret)}
        res.check(rows == want, "N1", f"_departure_rankings:real-instances:{label}", dep.loc(),
                  ok_detail=f"{len(want)} departure rows: the distinct unified rankings under the dataset's ids, and the all-tied row",
                  bad_detail=f"dataset {raws} (ids {ids}): departure rows {sorted(rows)}, expected {sorted(want)}")


def run(ctx) -> Result:
    res = Result("C09")
    proj = ctx.proj
    cls = proj.cls(bioc.MOD, "BioConsert")
    dep = proj.method(cls, "_departure_rankings")
    comp = proj.method(cls, "compute_consensus_rankings")
    res.saw(dep, comp)
    res.rule("N1", "departure rows use the caller's element ids (scenarios whose derived datasets would number "
                   "elements differently)", 7)
    res.rule("N2", "initial score of a departure row is its definitional score", 3)
    res.rule("N3", "starting set: distinct unified rankings + all-tied, or one row per starter on the caller's inputs", 7)
    res.rule("N4", "reported score = minimum final score; exactly the rows reaching it are returned", 3)
    res.rule("N5", "only strictly improving moves are applied and their deltas are summed", 3)

    # scripted scenarios (caller id maps that no real Dataset has): an additional angle; when the routine is written in
    # a style the scripted stand-ins do not cover, the real-instance rules above still decide N1 / N3
    from ..loader import AnalysisError as _AE
    try:
        for label, elems, mapping, rankings, complete in SCENARIOS + [_long_scenario()]:
            sc = bioc.Scenario(elems, mapping, rankings, complete)
            ret, calls, ds = bioc.eval_departure(proj, sc, [])
            rows = _rows(ret)
            uni = sc.unified()
            exp_all = _expected_rows(sc, uni, mapping)
            exp = []
            for r in exp_all:
                if r not in exp:
                    exp.append(r)
            tied = [0] * len(elems)
            # N1: every row must be the id-correct encoding of some unified ranking / the all-tied row
            foreign = [r for r in rows if r not in exp and r != tied]
            long_ = len(elems) > 50

            def short(x):
                return f"<{len(x)} rows of {len(elems)} ids>" if long_ else repr(x)
            res.check(not foreign and bool(rows), "N1", f"_departure_rankings:no-starters:{label}", dep.loc(),
                      ok_detail=f"{len(rows)} rows, all in the caller's id space",
                      bad_detail=f"caller ids {short(mapping)}: unified rankings {short(uni)} give rows {short(rows)}; rows "
                                 f"{short(foreign)} are not the bucket ids of any unified ranking under the caller's map "
                                 f"(expected {short(exp)})")
            # N3: the set of rows
            good = sorted(rows) == sorted(exp + [tied]) if tied not in exp else sorted(rows) in (sorted(exp), sorted(exp + [tied]))
            res.check(good, "N3", f"_departure_rankings:start-set:{label}", dep.loc(),
                      ok_detail="every distinct unified ranking once + the all-tied row",
                      bad_detail=(f"rows {rows}, expected each of {exp} once and the all-tied row" if not long_ else
                                  f"{len(rows)} departure rows for {len(elems)} elements; the {len(exp)} distinct input rankings "
                                  f"(they differ at positions {len(elems) // 2}, {len(elems) // 2 + 1} only) and the all-tied row "
                                  f"are expected: {len([r for r in exp if r not in rows])} distinct input ranking(s) missing"))
        # starters
        for k, cons in enumerate(STARTERS):
            label, elems, mapping, rankings, complete = SCENARIOS[k if k < 2 else 0]
            if k == 1:
                label, elems, mapping, rankings, complete = SCENARIOS[2]
            sc = bioc.Scenario(elems, mapping, rankings, complete)
            ret, calls, ds = bioc.eval_departure(proj, sc, cons)
            rows = _rows(ret)
            exp = _expected_rows(sc, cons, mapping)
            res.check(rows == exp, "N1", f"_departure_rankings:starters:{label}", dep.loc(),
                      ok_detail=f"{len(rows)} starter rows in the caller's id space",
                      bad_detail=f"caller ids {mapping}: starters' consensuses {cons} give rows {rows}, expected {exp}")
            good = len(calls) == len(cons) and all(
                len(a) == 3 and a[0] is ds and a[1] == Sym("SCHEME") and a[2] is True and not kw for _, a, kw in calls)
            res.check(good, "N3", f"_departure_rankings:starter-calls:{label}", dep.loc(),
                      ok_detail="each starter is run once on (caller dataset, caller scheme, at most one ranking)",
                      bad_detail=f"starter calls: {[(a, kw) for _, a, kw in calls]!r}")
    except _AE as exc:
        res.extra["scripted_departure_scenarios_skipped"] = str(exc)[:300]
    pending = None
    doubts = []
    try:
        # entry point asks for the default starting set on the caller's inputs
        sc = bioc.Scenario(["A", "B", "C"], {"A": 0, "B": 1, "C": 2}, [[{"A"}, {"B"}, {"C"}]], True)
        ret, cap, log, ds = bioc.eval_compute(proj, sc, [[0, 1, 2], [0, 0, 0]], [[0, 1, 2], [0, 0, 0]], [1.0, 2.0], False)
        da = log["departure_args"]
        good = da is not None and len(da[0]) == 2 and da[0][0] is ds and da[0][1] == Sym("SCHEME") and not da[1]
        res.check(good, "N3", "compute_consensus_rankings:default-start-set", comp.loc(),
                  ok_detail="_departure_rankings(dataset, scoring_scheme) with unify / all-tied defaults",
                  bad_detail=f"_departure_rankings called with {da!r}")
    except _AE as exc:
        pending = exc
    d = dep.node.args.defaults
    names = dep.param_names
    defaults = {names[len(names) - len(d) + i]: getattr(v, "value", None) for i, v in enumerate(d)}
    res.check(defaults.get("unify") is True and defaults.get("all_tied_as_well") is True, "N3",
              "_departure_rankings:defaults", dep.loc(), ok_detail="unify=True, all_tied_as_well=True by default",
              bad_detail=f"defaults are {defaults}")

    _check_constructor(res, proj)
    _check_departure_real(res, proj)
    from . import C04, C08
    # scenario rules on the single routines (symbolic costs). When a routine is organised in a way these scenarios do not
    # cover, the end-to-end rule still runs: a violation it finds is a verdict; without one the analysis error stands.
    try:
        doubts = C04.check_initial_deferred(res, proj, ctx.thorough, "N2")
        C04.check_bioconsert_selection(res, proj, "N4")
        C04.check_decode_large(res, proj, "N4")
        sub = Result("C09")
        C08.fill_result(sub, proj, False, only=["L3", "S3", "L5", "L7"])
        for o in sub.obligations:
            o.rule = "N5"
            res.obligations.append(o)
        res.functions |= sub.functions
    except _AE as exc:
        pending = pending or exc
    res.not_decided.append("numeric correctness of the deltas beyond C08/L5 (float accumulation)")
    res.not_decided.append("that starters return complete consensus rankings over the universe (C03)")
    if not res.violations:      # the end-to-end pass adds nothing to an established violation (and may not terminate on it)
        from . import e2e
        e2e.check(res, ctx.proj, "C09", ctx.thorough)
    C04.settle_initial_doubts(res, doubts)
    if pending is not None and not res.violations:
        raise pending
    return res

"""
C05 - the exact algorithm returns a global optimum, with or without CPLEX (the parts the code's shape decides).

X1  back-end selection: ExactAlgorithm() abstractly evaluated with `import cplex` failing / succeeding picks the free
    solver / the CPLEX model (optimize forwarded); every construction of a CPLEX-only class elsewhere in the package sits
    in a try whose body imports cplex and whose ImportError handler selects an alternative; the possibly-unbound module
    name `cplex` is used only inside the CPLEX-only classes.
X2  model schema: the models the PuLP and CPLEX builders hand to (mock) solvers on a 3-element universe (thorough: 4)
    admit exactly the 0/1 assignments induced by the rankings with ties; both builders produce the same constraint
    set; CPLEX rows / senses / right-hand sides have equal lengths for n = 2..5; variables are binary.
X3  objective: minimisation; x_i_j carries slot 0 of cell (i, j), t_i_j slot 2.
X4  decode: for every ranking with ties of the universe, a solver answer encoding it is decoded to exactly that
    ranking through the dataset's id map (PuLP; CPLEX single answer; CPLEX solution pool).
X5  pruning: earlier-component-before-later constraints cut exactly the assignments that do not respect the
    component order; the no-tie optimisation fires iff before+after-2*tied <= c (0 <= c <= 0.001) for every pair;
    graph-arc and all-tied predicates in normal form.
X6  `optimize` together with "all optimal rankings" is refused before any model is built.
X7  the optimised CPLEX path solves each non-trivial component on a projection that keeps every input ranking
    and concatenates component results in component order.
"""
from __future__ import annotations

import ast
import itertools
from typing import Dict, List, Set

from ..loader import AnalysisError, Project, src, dotted, parent
from ..report import Result
from ..engines.abseval import Unsupported, AbsRaise, Sym, Lin, Mat
from . import ilp, pairwise
from .ilp import ALG, ExactWorld, PulpWorld, weak_order_assignment, all_weak_orders, cost_cube, expected_obj

RAW3 = [[{"c"}, {"a"}, {"b"}], [{"b"}, {"a", "c"}]]          # ids: c=0, a=1, b=2
RAW4 = [[{"c"}, {"a"}, {"b"}, {"d"}], [{"d", "b"}, {"a", "c"}]]
ELEMS = {3: ["c", "a", "b"], 4: ["c", "a", "b", "d"]}


def _ranking_of(order: List[int], elems: List[str]) -> List[Set]:
    out: Dict[int, set] = {}
    for i, b in enumerate(order):
        out.setdefault(b, set()).add(("str", elems[i]))
    return [out[k] for k in sorted(out)]


def _raw(w, r):
    return [{("str" if e.attrs["_type"] is str else "int", e.attrs["_value"]) for e in b} for b in r.attrs["_buckets"]]


def _safe(what, fn):
    try:
        return "ok", fn()
    except AbsRaise as r:
        return "raise", r.exc_name.split(".")[-1]
    except Unsupported as exc:
        raise AnalysisError(f"{what}: unsupported construct at line {getattr(exc.node, 'lineno', '?')}: {exc}")


def _cplex_alg(w: ExactWorld, optimize: bool):
    C = w.proj.cls(ALG + ".exact.exactalgorithmcplex", "ExactAlgorithmCplex")
    return w.rt.new(C, [], {"optimize": optimize})


def run(ctx) -> Result:
    res = Result("C05")
    proj = ctx.proj
    res.rule("X1", "back-end selection is live and CPLEX-only code is reachable only behind an availability gate", 4)
    res.rule("X2", "feasible set of both ILP models = rankings with ties (triple-local model check); builders agree", 4)
    res.rule("X3", "minimisation; objective coefficients are the before / tied cost slots", 3)
    res.rule("X4", "solver answers are decoded to the ranking they encode", 3)
    res.rule("X5", "pruning constraints / predicates in normal form", 6)
    res.rule("X6", "optimize + all rankings refused before modelling", 1)
    res.rule("X7", "optimised path: per-component projection keeps every ranking; results concatenated in order", 2)
    _check_selection(res, proj)
    ns = (3, 4) if ctx.thorough else (3,)
    models = {}
    for n in ns:
        models[n] = _check_models(res, proj, n)
    check_objective(res, proj, "X3")
    _check_decode(res, proj)
    _check_pruning(res, proj)
    pairwise.check_graph_predicates(res, proj, "X5", None, "X5")
    _check_refusal(res, proj)
    _check_optimised_path(res, proj)
    res.not_decided.append("that a solver returns an optimum of the model it is given; igraph returning components in "
                           "topological order; soundness of the pruning theorems (mathematics over costs)")
    res.assumptions.append("a constraint of the schema mentions at most three elements, so agreement of the feasible set "
                           "with the weak orders on every triple extends to every universe size")
    if not res.violations:      # the end-to-end pass adds nothing to an established violation (and may not terminate on it)
        from . import e2e
        e2e.check(res, ctx.proj, "C05", ctx.thorough)
    return res


# ---------------------------------------------------------------------------------------------------------------
def _check_selection(res: Result, proj: Project):
    EA = proj.cls(ALG + ".exact.exactalgorithm", "ExactAlgorithm")
    init = proj.method(EA, "__init__")
    res.saw(init)
    for present in (False, True):
        for opt in (True, False):
            w = ExactWorld(proj, cplex_present=present)
            st, inst = _safe("ExactAlgorithm()", lambda: w.rt.new(EA, [], {"optimize": opt}))
            got = None
            if st == "ok":
                alg = inst.attrs.get("_alg")
                got = (alg.cls.name, alg.attrs.get("_optimize")) if alg is not None else None
            want = ("ExactAlgorithmCplex", opt) if present else ("ExactAlgorithmPulp", None)
            good = st == "ok" and got is not None and got[0] == want[0] and (not present or got[1] == want[1])
            res.check(good, "X1", f"ExactAlgorithm.__init__:cplex={'present' if present else 'absent'}:optimize={opt}",
                      init.loc(), ok_detail=f"selects {want[0]}",
                      bad_detail=f"constructor gives {st} {got!r} (raised {inst})" if st != "ok" else
                      f"selects {got!r}, expected {want[0]}" + (f" with optimize={opt}" if present else ""))
    # CPLEX-only classes and their construction sites
    cplex_mod = proj.module(ALG + ".exact.exactalgorithmcplex")
    guarded_names = set(cplex_mod.guarded_imports)
    if "cplex" not in cplex_mod.imports:
        raise AnalysisError("the CPLEX back-end no longer imports cplex: rule X1 must be revisited")
    base = proj.cls(ALG + ".exact.exactalgorithmcplex", "ExactAlgorithmCplex")
    only = proj.subclasses(base)
    sites = []
    for f in proj.all_functions():
        for n in ast.walk(f.node):
            if isinstance(n, ast.Call):
                r = proj.resolve_expr(f.module, n.func) if isinstance(n.func, (ast.Name, ast.Attribute)) else ("?", None)
                if r[0] == "class" and r[1] in only:
                    if f.cls is not None and f.cls in only:
                        continue
                    sites.append((f, n, r[1]))
    for f, call, cls in sites:
        res.saw(f)
        ok, why = _gated(f, call, proj)
        res.check(ok, "X1", f"{f.short}:constructs-{cls.name}", f.loc(call), ok_detail=why, bad_detail=why)
    # uses of the possibly-unbound name
    if "cplex" in guarded_names:
        bad_use = None
        for f in proj.all_functions():
            if f.module is not cplex_mod:
                continue
            for n in ast.walk(f.node):
                if isinstance(n, ast.Name) and n.id == "cplex" and isinstance(n.ctx, ast.Load):
                    if f.cls is None or f.cls not in only:
                        bad_use = bad_use or (f, n)
        res.check(bad_use is None, "X1", "cplex:possibly-unbound-name-confined", cplex_mod.relpath,
                  ok_detail="the name bound only by `try: import cplex` is used only inside the CPLEX-only classes",
                  bad_detail=f"{bad_use[0].short} line {bad_use[1].lineno} uses `cplex` outside the gated classes" if bad_use else "")
    else:
        res.ok("X1", "cplex:import-unguarded", cplex_mod.relpath, "cplex is imported unconditionally by its back-end")


_GATE_PREDICATES = {}


def gate_predicates(proj: Project):
    """Functions of the package that answer "can cplex be imported?": a body whose `try` imports cplex and returns a
    true constant, with an ImportError / ModuleNotFoundError handler returning a false one."""
    if _GATE_PREDICATES.get("proj") is proj:
        return _GATE_PREDICATES["names"]
    names = set()
    for g in proj.all_functions():
        for t in [n for n in ast.walk(g.node) if isinstance(n, ast.Try)]:
            imports = any(isinstance(s_, (ast.Import, ast.ImportFrom)) and any(a.name.split(".")[0] == "cplex" for a in s_.names)
                          for s_ in t.body)
            if not imports:
                continue
            handlers = [h for h in t.handlers if h.type is None or any(
                (dotted(x) or "").split(".")[-1] in ("ImportError", "ModuleNotFoundError", "Exception")
                for x in (h.type.elts if isinstance(h.type, ast.Tuple) else [h.type]))]
            false_in_handler = any(isinstance(r, ast.Return) and isinstance(r.value, ast.Constant) and r.value.value is False
                                   for h in handlers for r in ast.walk(h))
            true_after = any(isinstance(r, ast.Return) and isinstance(r.value, ast.Constant) and r.value.value is True
                             for r in ast.walk(g.node))
            if false_in_handler and true_after:
                names.add(g.name)
    _GATE_PREDICATES.update(proj=proj, names=names)
    return names


def _gated(f, call, proj=None):
    """The constructor call is in the body of a `try` that first imports cplex (or tests availability) and has an
    ImportError / ModuleNotFoundError handler that does something else than passing - or in the true branch of an `if`
    whose test calls a function that performs exactly that test (see gate_predicates)."""
    p = parent(call)
    cur = call
    while p is not None and p is not f.node:
        if isinstance(p, (ast.If, ast.IfExp)) and proj is not None:
            in_body = (cur in p.body) if isinstance(p, ast.If) else (cur is p.body)
            calls = [c for c in ast.walk(p.test) if isinstance(c, ast.Call) and (dotted(c.func) or "").split(".")[-1] in gate_predicates(proj)]
            negated = any(isinstance(x, ast.UnaryOp) and isinstance(x.op, ast.Not) for x in ast.walk(p.test))
            if calls and ((in_body and not negated) or (not in_body and negated)):
                return True, f"in the branch where `{dotted(calls[0].func)}()` (a try-import of cplex) answered True"
        if isinstance(p, ast.Try) and any(cur is s or any(cur is x for x in ast.walk(s)) for s in p.body):
            imports = False
            for s in p.body:
                if any(s is x for x in [cur]) or any(cur is x for x in ast.walk(s)):
                    break
                if isinstance(s, (ast.Import, ast.ImportFrom)) and any(a.name.split(".")[0] == "cplex" for a in s.names):
                    imports = True
            handlers = [h for h in p.handlers if h.type is None or any(
                (dotted(t) or "").split(".")[-1] in ("ImportError", "ModuleNotFoundError", "Exception")
                for t in (h.type.elts if isinstance(h.type, ast.Tuple) else [h.type]))]
            live = [h for h in handlers if not all(isinstance(s, ast.Pass) for s in h.body)]
            if imports and live:
                return True, "inside `try: import cplex ...` with a handler selecting an alternative"
            if not imports:
                return False, "the enclosing try cannot raise ImportError (cplex's own module swallows it): the " \
                              "fallback is dead and CPLEX-only code runs without CPLEX"
            return False, "no ImportError handler selects an alternative"
        cur, p = p, parent(p)
    return False, "CPLEX-only class constructed without an availability gate (NameError when CPLEX is absent)"


# ---------------------------------------------------------------------------------------------------------------
def _build_models(proj: Project, n: int):
    """(pulp model, cplex model, pulp world, cplex world) for the non-optimised models on n elements."""
    raws = RAW3 if n == 3 else RAW4
    pw = PulpWorld(proj)
    pw.cube = cost_cube(n)
    pw.sccs = [list(range(n))]
    pw.assignment_for = lambda names: weak_order_assignment(list(range(n)))
    ds = pw.dataset(raws)
    alg = pw.rt.new(proj.cls(ALG + ".exact.exactalgorithmpulp", "ExactAlgorithmPulp"), [], {})
    _safe("ExactAlgorithmPulp.compute_consensus_rankings", lambda: pw.run_compute(alg, ds, pw.scheme(), True))
    pm = pw.problems[0].model if pw.problems else None
    if pm is not None:
        pm.var_names = list(pw.declared)
        pm.problems.extend(pw.decl_problems)
    cw = ExactWorld(proj, True)
    cw.cube = cost_cube(n)
    cw.sccs = [list(range(n))]
    a0 = weak_order_assignment(list(range(n)))
    cw.script_cplex_solution(lambda names, what: 1 if what == "num" else [a0[x] for x in names])
    ds2 = cw.dataset(raws)
    calg = _cplex_alg(cw, False)
    _safe("ExactAlgorithmCplex.compute_consensus_rankings",
          lambda: cw.rt.call_method(calg, "compute_consensus_rankings", ds2, cw.scheme(), True))
    cms = cw.cplex_models()
    return pm, (cms[0] if cms else None), pw, cw


def _check_models(res: Result, proj: Project, n: int):
    pm, cm, pw, cw = _build_models(proj, n)
    want = sorted(tuple(sorted(weak_order_assignment(o).items())) for o in all_weak_orders(n))
    out = {}
    for label, m, loc in (("pulp", pm, proj.cls(ALG + ".exact.exactalgorithmpulp", "ExactAlgorithmPulp")),
                          ("cplex", cm, proj.cls(ALG + ".exact.exactalgorithmcplex", "ExactAlgorithmCplex"))):
        where = f"{loc.module.relpath}:{loc.node.lineno}"
        if m is None:
            res.bad("X2", f"{label}:model-n={n}", where, "no model was handed to the solver")
            continue
        names_want = sorted(weak_order_assignment(list(range(n))))
        if sorted(m.var_names) != names_want or m.problems:
            res.bad("X2", f"{label}:model-n={n}", where,
                    f"variables {sorted(m.var_names)} (expected {names_want}); problems {m.problems}")
            continue
        feas = sorted(tuple(sorted(a.items())) for a in m.feasible())
        extra = [dict(a) for a in feas if a not in want][:1]
        missing = [dict(a) for a in want if a not in feas][:1]
        detail = ""
        if extra:
            ones = sorted(k for k, v in extra[0].items() if v)
            detail = f"the model accepts the assignment {ones} = 1, which is not a ranking with ties"
        elif missing:
            ones = sorted(k for k, v in missing[0].items() if v)
            detail = f"the model rejects the assignment {ones} = 1, which encodes a ranking with ties"
        res.check(feas == want, "X2", f"{label}:feasible-set-n={n}", where,
                  ok_detail=f"{len(m.constraints)} constraints over {len(m.var_names)} binaries: exactly the "
                            f"{len(want)} rankings with ties are feasible", bad_detail=detail)
        out[label] = m
    if "pulp" in out and "cplex" in out:
        pk = {c.key() for c in out["pulp"].constraints}
        ck = {c.key() for c in out["cplex"].constraints}
        diff = sorted(pk ^ ck)[:1]
        res.check(pk == ck, "X2", f"builders-agree-n={n}", "corankco/algorithms/exact",
                  ok_detail="PuLP and CPLEX builders emit the same constraint set",
                  bad_detail=f"constraint present in only one builder: {diff}")
    if n == 3:
        # row / sense / rhs lengths of the CPLEX builder for other sizes
        bad = None
        for k in (2, 4, 5):
            w = ExactWorld(proj, True)
            w.cube = cost_cube(k)
            w.sccs = [list(range(k))]
            a0 = weak_order_assignment(list(range(k)))
            w.script_cplex_solution(lambda names, what, a0=a0: 1 if what == "num" else [a0[x] for x in names])
            ds = w.dataset([[{i} for i in range(k)]])
            st, _ = _safe("cplex model", lambda: w.rt.call_method(_cplex_alg(w, False), "compute_consensus_rankings",
                                                                  ds, w.scheme(), True))
            ms = w.cplex_models()
            if st != "ok" or not ms or ms[0].problems:
                bad = bad or (k, ms[0].problems if ms else st)
        res.check(bad is None, "X2", "cplex:rows-senses-rhs-lengths", "corankco/algorithms/exact/exactalgorithmcplex.py",
                  ok_detail="for n = 2, 4, 5 the sense string, the rows and the right-hand sides have equal lengths",
                  bad_detail=f"n={bad[0]}: {bad[1]}" if bad else "")
    return out


def check_objective(res: Result, proj: Project, rule: str = "X3"):
    pm, cm, pw, cw = _build_models(proj, 3)
    want = expected_obj(cost_cube(3))
    pl = pw.problems[0] if pw.problems else None
    got = {s.idx[0]: c for s, c in pl.objective_lin.terms.items()} if pl is not None and pl.objective_lin is not None else None
    res.check(got == want and pl is not None and pl.sense == "MINIMIZE", rule, "pulp:objective",
              "corankco/algorithms/exact/exactalgorithmpulp.py",
              ok_detail="minimise sum of before-cost * x_i_j + tied-cost * t_i_j",
              bad_detail=f"objective coefficients {got}, expected {want}; sense {pl.sense if pl else None}")
    gotc = cm.obj if cm is not None else None
    minimise = any(path.endswith("objective.set_sense") and args and "minimize" in getattr(args[0], "path", "")
                   for path, args, kw in cw.log)
    res.check(gotc == want and minimise, rule, "cplex:objective", "corankco/algorithms/exact/exactalgorithmcplex.py",
              ok_detail="minimise sum of before-cost * x_i_j + tied-cost * t_i_j",
              bad_detail=f"objective coefficients {gotc}, expected {want}; minimise: {minimise}")
    # PuLP reports the objective value of the assignment it decodes
    pw2 = PulpWorld(proj)
    pw2.cube = cost_cube(3)
    pw2.sccs = [[0, 1, 2]]
    a = weak_order_assignment([1, 0, 1])
    pw2.assignment_for = lambda names: a
    ds = pw2.dataset(RAW3)
    alg = pw2.rt.new(proj.cls(ALG + ".exact.exactalgorithmpulp", "ExactAlgorithmPulp"), [], {})
    st, c = _safe("pulp compute", lambda: pw2.run_compute(alg, ds, pw2.scheme(), True))
    val = sum(want[k] * v for k, v in a.items())
    rep = None
    if st == "ok":
        for k, v in c.attrs["_att"].items():
            if "kemeny" in str(getattr(k, "attrs", {}).get("value", k)).lower() or "KEMENY" in repr(k):
                rep = v
        rep = _feature(c, "KEMENY_SCORE")
    res.check(st == "ok" and rep == val, rule, "pulp:reported-score-is-objective-value",
              "corankco/algorithms/exact/exactalgorithmpulp.py",
              ok_detail="the reported Kemeny score is the model's objective value of the decoded assignment",
              bad_detail=f"objective value {val}, reported {rep!r}")


def _feature(cons, name: str):
    for k, v in cons.attrs["_att"].items():
        if name in repr(k) or getattr(k, "member", None) == name:
            return v
    # enum members are evaluated to their value expression: compare with the class attribute
    return cons.attrs["_att"].get({"KEMENY_SCORE": "kemeny score:", "NECESSARILY_OPTIMAL": "necessarily optimal:"}[name])


# ---------------------------------------------------------------------------------------------------------------
def _check_decode(res: Result, proj: Project, rule: str = "X4", only_pulp: bool = False):
    bad = {"pulp": None, "cplex": None, "cplex-pool": None}
    count = 0
    for n, raws in ((3, RAW3), (4, RAW4)):
        elems = ELEMS[n]
        orders = all_weak_orders(n) if n == 3 else all_weak_orders(n)[::7]
        for order in orders:
            count += 1
            a = weak_order_assignment(order)
            want = _ranking_of(order, elems)
            pw = PulpWorld(proj)
            pw.cube = cost_cube(n)
            pw.sccs = [list(range(n))]
            pw.assignment_for = lambda names, a=a: a
            ds = pw.dataset(raws)
            alg = pw.rt.new(proj.cls(ALG + ".exact.exactalgorithmpulp", "ExactAlgorithmPulp"), [], {})
            st, c = _safe("pulp decode", lambda: pw.run_compute(alg, ds, pw.scheme(), True))
            got = [_raw(pw, r) for r in c.attrs["_consensus_rankings"]] if st == "ok" else c
            if got != [want]:
                bad["pulp"] = bad["pulp"] or (order, got, want)
            cw = ExactWorld(proj, True)
            cw.cube = cost_cube(n)
            cw.sccs = [list(range(n))]
            other = weak_order_assignment(list(reversed(order)))
            cw.script_cplex_solution(lambda names, what, a=a, other=other:
                                     2 if what == "num" else [(a if what in (None, 0) else other)[x] for x in names])
            ds2 = cw.dataset(raws)
            st, c = _safe("cplex decode", lambda: cw.rt.call_method(_cplex_alg(cw, False), "compute_consensus_rankings",
                                                                    ds2, cw.scheme(), True))
            got = [_raw(cw, r) for r in c.attrs["_consensus_rankings"]] if st == "ok" else c
            if got != [want]:
                bad["cplex"] = bad["cplex"] or (order, got, want)
            st, c = _safe("cplex pool", lambda: cw.rt.call_method(_cplex_alg(cw, False), "compute_consensus_rankings",
                                                                  ds2, cw.scheme(), False))
            got = [_raw(cw, r) for r in c.attrs["_consensus_rankings"]] if st == "ok" else c
            want2 = [want, _ranking_of(list(reversed(order)), elems)]
            if got != want2:
                bad["cplex-pool"] = bad["cplex-pool"] or (order, got, want2)
    # a universe with two-digit ids: whatever order the solver library lists its variables in (PuLP sorts them by name,
    # x_10_2 before x_2_0), the answer is decoded through the variables' own names
    n = 12
    elems = [f"e{i:02d}" for i in range(n)]
    raws = [[{e} for e in elems]]
    for order in ([11, 10, 9, 8, 7, 6, 5, 4, 3, 2, 1, 0], [3, 0, 0, 5, 1, 2, 4, 4, 6, 2, 7, 3]):
        count += 1
        a = weak_order_assignment(order)
        want = _ranking_of(order, elems)
        pw = PulpWorld(proj)
        pw.rt.max_steps = 2000000
        pw.cube = cost_cube(n)
        pw.sccs = [list(range(n))]
        pw.assignment_for = lambda names, a=a: a
        ds = pw.dataset(raws)
        alg = pw.rt.new(proj.cls(ALG + ".exact.exactalgorithmpulp", "ExactAlgorithmPulp"), [], {})
        st, c = _safe("pulp decode (12 elements)", lambda: pw.run_compute(alg, ds, pw.scheme(), True))
        got = [_raw(pw, r) for r in c.attrs["_consensus_rankings"]] if st == "ok" else c
        if got != [want]:
            bad["pulp"] = bad["pulp"] or (order, got, want)
    for k, v in bad.items():
        if only_pulp and k != "pulp":
            continue
        res.check(v is None, rule, f"{k}:decode", "corankco/algorithms/exact",
                  ok_detail=f"{count} solver answers decoded to the ranking they encode (ids c=0, a=1, b=2[, d=3])",
                  bad_detail=f"answer encoding bucket ids {v[0]}: decoded {v[1]!r}, expected {v[2]!r}" if v else "")


# ---------------------------------------------------------------------------------------------------------------
def _respects(order, sccs) -> bool:
    for i in range(len(sccs)):
        for j in range(i + 1, len(sccs)):
            for x in sccs[i]:
                for y in sccs[j]:
                    if not order[x] < order[y]:
                        return False
    return True


def _check_pruning(res: Result, proj: Project):
    n = 3
    all_a = {tuple(sorted(weak_order_assignment(o).items())): o for o in all_weak_orders(n)}
    # (a) PuLP component-order constraints
    for sccs in ([[1], [0, 2]], [[2], [0], [1]], [[0, 1], [2]]):
        pw = PulpWorld(proj)
        cube = cost_cube(n)
        # make ties expensive enough that the PuLP no-tie test does not ask for tie checks
        pw.cube = cube
        pw.sccs = sccs
        pw.assignment_for = lambda names: weak_order_assignment([0, 1, 2])
        ds = pw.dataset(RAW3)
        alg = pw.rt.new(proj.cls(ALG + ".exact.exactalgorithmpulp", "ExactAlgorithmPulp"), [], {})
        _safe("pulp pruning", lambda: pw.run_compute(alg, ds, pw.scheme(), True))
        m = pw.problems[0].model
        m.var_names = list(pw.declared)
        feas = {tuple(sorted(a.items())) for a in m.feasible()}
        got_orders = sorted(all_a[a] for a in feas if a in all_a)
        want_all = sorted(o for o in all_weak_orders(n) if _respects(o, sccs))
        want_strict = sorted(o for o in want_all if len(set(o)) == n)
        stray = sorted(a for a in feas if a not in all_a)
        good = not stray and (got_orders in (want_all, want_strict) or
                              all(_respects(o, sccs) for o in got_orders)
                              and set(map(tuple, want_strict)) <= set(map(tuple, got_orders)))
        res.check(good, "X5", f"pulp:component-order-constraints:{sccs}",
                  "corankco/algorithms/exact/exactalgorithmpulp.py",
                  ok_detail=f"with components {sccs} the feasible rankings are those placing earlier components first",
                  bad_detail=(f"components {sccs}: the model accepts the assignment "
                              f"{sorted(k for k, v in stray[0] if v)} = 1, which is not a ranking with ties" if stray else
                              f"components {sccs}: feasible rankings (bucket ids) {got_orders}, rankings respecting the "
                              f"component order {want_all}"))
    # (b) no-tie optimisation in the CPLEX builders
    C1 = proj.cls(ALG + ".exact.exactalgorithmcplexforpaperoptim1", "ExactAlgorithmCplexForPaperOptim1")
    CC = proj.cls(ALG + ".exact.exactalgorithmcplex", "ExactAlgorithmCplex")
    for label, mk in (("ExactAlgorithmCplexForPaperOptim1", lambda w: w.rt.new(C1, [], {})),
                      ("ExactAlgorithmCplex(optimize=True)", lambda w: w.rt.new(CC, [], {"optimize": True}))):
        outcomes = {}
        # (name, before + after - 2 * tied per pair, unit of the costs): the condition is scale-free - the same world
        # expressed in units of 1e-6 must get the same answer
        for name, calcs, unit in (("all-below", [0.0, -1.0, -3.0], 1.0), ("one-above", [0.0, 0.002, -1.0], 1.0),
                                  ("all-above", [5.0, 2.0, 1.0], 1.0), ("at-zero", [0.0, 0.0, 0.0], 1.0),
                                  ("small-units-one-above", [0.0, 2.0, -1.0], 1e-6),
                                  ("small-units-all-below", [0.0, -1.0, -3.0], 1e-6)):
            w = ExactWorld(proj, True)
            cube = cost_cube(n)
            k = 0
            for i in range(n):
                for j in range(i + 1, n):
                    b, a = cube.data[i][j][0], cube.data[i][j][1]
                    t = (b + a - calcs[k]) / 2.0
                    cube.data[i][j] = [b * unit, a * unit, t * unit]
                    cube.data[j][i] = [a * unit, b * unit, t * unit]
                    k += 1
            w.cube = cube
            w.sccs = [[0, 1, 2]]
            a0 = weak_order_assignment([0, 1, 2])
            w.script_cplex_solution(lambda names, what, a0=a0: 1 if what == "num" else [a0[x] for x in names])
            # all-tied shortcut must not pre-empt the model: make tie more expensive than one ordering
            ds = w.dataset(RAW3)
            st, _ = _safe("cplex no-tie", lambda: w.rt.call_method(mk(w), "compute_consensus_rankings", ds, w.scheme(), True))
            ms = w.cplex_models()
            if st != "ok" or not ms:
                outcomes[name] = f"{st}: no model"
                continue
            m = ms[-1]
            feas = {tuple(sorted(a.items())) for a in m.feasible()}
            if m.problems:
                outcomes[name] = f"model problems {m.problems}"
            elif feas == set(all_a):
                outcomes[name] = "ties-allowed"
            elif feas == {a for a, o in all_a.items() if len(set(o)) == n}:
                outcomes[name] = "no-ties"
            else:
                outcomes[name] = f"other ({len(feas)} feasible assignments)"
        want = {"all-below": "no-ties", "one-above": "ties-allowed", "all-above": "ties-allowed", "at-zero": "no-ties",
                "small-units-one-above": "ties-allowed", "small-units-all-below": "no-ties"}
        res.check(outcomes == want, "X5", f"{label}:no-tie-condition", "corankco/algorithms/exact",
                  ok_detail="ties are forbidden iff before + after <= 2*tied for every pair, whatever the unit of the costs",
                  bad_detail=f"outcomes per cost world {outcomes}, expected {want}")


def _check_refusal(res: Result, proj: Project):
    w = ExactWorld(proj, True)
    w.cube = cost_cube(3)
    w.sccs = [[0, 1, 2]]
    ds = w.dataset(RAW3)
    st, r = _safe("refusal", lambda: w.rt.call_method(_cplex_alg(w, True), "compute_consensus_rankings", ds, w.scheme(), False))
    res.check(st == "raise" and r == "IncompatibleArgumentsException" and not w.log and not w.pcm_calls, "X6",
              "ExactAlgorithmCplex:optimize-and-all-rankings", "corankco/algorithms/exact/exactalgorithmcplex.py",
              ok_detail="refused with IncompatibleArgumentsException before any cost matrix or model is built",
              bad_detail=f"outcome {st} {r!r}; solver calls {len(w.log)}; cost matrices built {len(w.pcm_calls)}")


def _check_optimised_path(res: Result, proj: Project):
    w = ExactWorld(proj, True)
    n = 4
    cube = cost_cube(n)
    w.cube = cube
    w.sccs = [[3], [1, 2], [0]]
    raws = [[{"c"}, {"a"}, {"b"}, {"d"}], [{"d"}, {"c"}], [{"b"}, {"a"}, {"d"}]]     # ids c=0 a=1 b=2 d=3; ranking 2 misses a, b
    ds = w.dataset(raws)
    sub_order = [1, 0]       # within the component's own sub-problem ids
    a = weak_order_assignment(sub_order)
    w.script_cplex_solution(lambda names, what: 1 if what == "num" else [a[x] for x in names])
    st, c = _safe("optimised path", lambda: w.rt.call_method(_cplex_alg(w, True), "compute_consensus_rankings", ds, w.scheme(), True))
    good = st == "ok"
    detail = f"{st} {c!r}"
    if good:
        got = [_raw(w, r) for r in c.attrs["_consensus_rankings"]]
        # sub-problem ids follow first appearance in the projected rankings: a (ranking 0) then b
        want = [[{("str", "d")}, {("str", "b")}, {("str", "a")}, {("str", "c")}]]
        good = got == want
        detail = f"components [[d],[a,b],[c]] with the sub-problem answered 'b before a': got {got}, expected {want}"
    res.check(good, "X7", "ExactAlgorithmCplex:components-concatenated-in-order",
              "corankco/algorithms/exact/exactalgorithmcplex.py",
              ok_detail="trivial components tied, non-trivial one solved on its projection, buckets concatenated in order",
              bad_detail=detail)
    sub_mats = [args[0] for args in w.pcm_calls if isinstance(args[0], Mat) and len(args[0].rows) == 2]
    keeps = bool(sub_mats) and all(len(m.rows[0]) == len(raws) for m in sub_mats)
    res.check(keeps, "X7", "ExactAlgorithmCplex:projection-keeps-every-ranking",
              "corankco/algorithms/exact/exactalgorithmcplex.py",
              ok_detail="the component's cost matrix is built over all input rankings (a ranking that ranks none of "
                        "its elements still charges B[5] / T[5])",
              bad_detail=f"the component {{a, b}} is solved on {[len(m.rows[0]) for m in sub_mats]} ranking(s) of "
                         f"{len(raws)}: the ranking that misses both elements was dropped although it still costs")

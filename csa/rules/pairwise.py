"""
Shared abstract evaluation of PairwiseBasedAlgorithm's graph / robust-arc / all-tied predicates
(C05/X5, C06/P4, C07/Q1): the numpy boolean-array code is evaluated on 2- and 3-element cost cubes whose cells
realise every weak ordering of (before, after, tied).
"""
from __future__ import annotations

import ast
import itertools
from typing import Dict, List, Set, Tuple

from ..loader import AnalysisError, Project
from ..engines.abseval import Evaluator, Sym, Obj, Vec, Unsupported
from ..engines.npmodel import Cube, GraphObj
from .. import spec

MOD = "corankco.algorithms.pairwisebasedalgorithm"


def cube_from_cells(n: int, cells: Dict[Tuple[int, int], Tuple[float, float, float]]) -> Cube:
    data = [[[0.0, 0.0, 0.0] for _ in range(n)] for _ in range(n)]
    for (i, j), (b, a, t) in cells.items():
        data[i][j] = [b, a, t]
        data[j][i] = [a, b, t]
    return Cube(data)


_RT: Dict[int, object] = {}


def _runtime(proj: Project):
    from ..engines.instances import Runtime
    from ..engines.stdlib import install
    if id(proj) not in _RT:
        _RT.clear()
        _RT[id(proj)] = install(Runtime(proj))
    return _RT[id(proj)]


def _as_matrix(cube: Cube) -> Cube:
    c = Cube([[list(cell) for cell in row] for row in cube.data])
    c.as_matrix = True
    return c


def _call(proj: Project, name: str, *args):
    """The real predicate (whatever numpy idiom / helper it uses) evaluated through the general library model."""
    cls = proj.cls(MOD, "PairwiseBasedAlgorithm")
    f = proj.method(cls, name)
    try:
        return f, _runtime(proj).call_static(cls, f.name, *args)
    except Unsupported as exc:
        raise AnalysisError(f"{f.qualname}: unsupported construct line {getattr(exc.node, 'lineno', '?')}: {exc}")


def eval_graph(proj: Project, cube: Cube) -> GraphObj:
    f, ret = _call(proj, "_get_graph_of_elements_from_matrix", _as_matrix(cube))
    if not isinstance(ret, GraphObj):
        raise AnalysisError(f"{f.qualname}: does not return the graph it builds")
    return ret


def eval_robust(proj: Project, cube: Cube) -> Set[Tuple[int, int]]:
    f, ret = _call(proj, "_get_robust_arcs_from_matrix", _as_matrix(cube))
    if not isinstance(ret, (set, frozenset)):
        raise AnalysisError(f"{f.qualname}: does not return a set of arcs")
    return {(a, b) for a, b in ret}


def eval_all_tied(proj: Project, ids: Set[int], cube: Cube):
    f, ret = _call(proj, "can_be_all_tied", set(ids), _as_matrix(cube))
    return ret


def check_graph_predicates(res, proj: Project, rule_arc: str, rule_robust: str = None, rule_tied: str = None):
    """Arc (i,j) iff 'i after j' is not a cheapest placement; robust arc iff 'i before j' strictly cheapest;
    all-tied iff tie <= min(before, after) for every pair."""
    cls = proj.cls(MOD, "PairwiseBasedAlgorithm")
    fg = proj.method(cls, "_get_graph_of_elements_from_matrix")
    fr = proj.method(cls, "_get_robust_arcs_from_matrix")
    ft = proj.method(cls, "can_be_all_tied")
    res.saw(fg, fr, ft)
    bad_arc = bad_rob = bad_tied = None
    n_worlds = 0
    # two-element worlds: all 13 weak orders of (before, after, tied) of pair (0,1)
    worlds = [(2, {(0, 1): w}) for w in spec.WEAK_ORDERS_3]
    # three-element worlds mixing order types
    picks = [spec.WEAK_ORDERS_3[i] for i in (0, 3, 5, 7, 9, 12)]
    for a, b, c in itertools.product(picks, repeat=3):
        worlds.append((3, {(0, 1): a, (0, 2): b, (1, 2): c}))
    for n, cells in worlds:
        n_worlds += 1
        cube = cube_from_cells(n, {k: tuple(float(x) for x in v) for k, v in cells.items()})
        g = eval_graph(proj, cube)
        want_arcs = set()
        want_rob = set()
        for i in range(n):
            for j in range(n):
                if i == j:
                    continue
                b_, a_, t_ = cube.data[i][j]
                if a_ > b_ or a_ > t_:
                    want_arcs.add((i, j))
                if b_ < a_ and b_ < t_:
                    want_rob.add((i, j))
        got_arcs = set(g.edges)
        if (got_arcs != want_arcs or len(g.edges) != len(got_arcs) or [str(v) for v in g.vertices] != [str(i) for i in range(n)]
                or g.directed is not True) and bad_arc is None:
            bad_arc = (cells, sorted(g.edges), sorted(want_arcs), g.vertices, g.directed)
        if rule_robust:
            rob = eval_robust(proj, cube)
            if rob != want_rob and bad_rob is None:
                bad_rob = (cells, sorted(rob), sorted(want_rob))
        if rule_tied:
            for ids in ({0, 1}, set(range(n)), {0}, {n - 1, 0}):
                want = all(cube.data[i][j][2] <= min(cube.data[i][j][0], cube.data[i][j][1])
                           for i in ids for j in ids if i < j)
                got = eval_all_tied(proj, set(ids), cube)
                if bool(got) != want and bad_tied is None:
                    bad_tied = (cells, sorted(ids), got, want)
    res.check(bad_arc is None, rule_arc, "graph_of_elements:arc-predicate", fg.loc(),
              ok_detail=f"{n_worlds} cost worlds: directed arc i->j iff 'i after j' is not a cheapest placement; one "
                        f"vertex per element id",
              bad_detail=(f"costs (before, after, tied) {bad_arc[0]}: arcs {bad_arc[1]}, definition {bad_arc[2]}; "
                          f"vertices {bad_arc[3]} directed={bad_arc[4]}") if bad_arc else "")
    if rule_robust:
        res.check(bad_rob is None, rule_robust, "robust_arcs:predicate", fr.loc(),
                  ok_detail=f"{n_worlds} cost worlds: robust arc i->j iff 'i before j' strictly cheaper than both "
                            f"'after' and 'tied'",
                  bad_detail=(f"costs {bad_rob[0]}: robust arcs {bad_rob[1]}, definition {bad_rob[2]}") if bad_rob else "")
    if rule_tied:
        res.check(bad_tied is None, rule_tied, "can_be_all_tied:predicate", ft.loc(),
                  ok_detail="all-tied iff tie cost <= min(before, after) for every pair of the component",
                  bad_detail=(f"costs {bad_tied[0]} ids {bad_tied[1]}: answered {bad_tied[2]!r}, definition "
                              f"{bad_tied[3]}") if bad_tied else "")


def check_graph_wiring(res, proj: Project, rule: str):
    """graph_of_elements / graph_of_elements_with_robust_arcs build graph (and robust arcs) from the matrix returned by
    pairwise_cost_matrix(positions, scheme, weights) and return that same matrix."""
    cls = proj.cls(MOD, "PairwiseBasedAlgorithm")
    for name, n_ret in (("graph_of_elements", 2), ("graph_of_elements_with_robust_arcs", 3)):
        f = proj.method(cls, name)
        res.saw(f)
        log = {}

        def pcm(ev, call):
            log["pcm"] = [ev.ev(a) for a in call.args]
            return Sym("MATRIX")

        def gfm(ev, call):
            log["gfm"] = [ev.ev(a) for a in call.args]
            return "GRAPH"

        def rob(ev, call):
            log["rob"] = [ev.ev(a) for a in call.args]
            return "ROBUST"
        funcs = {"PairwiseBasedAlgorithm.pairwise_cost_matrix": pcm,
                 "PairwiseBasedAlgorithm._get_graph_of_elements_from_matrix": gfm,
                 "PairwiseBasedAlgorithm._get_robust_arcs_from_matrix": rob,
                 "ones": lambda ev, call: Sym("ONES")}
        pos = Obj("POS", {"shape": (3, 2)})
        w = Obj("W", {"shape": (2,)})
        evl = Evaluator({}, funcs)
        try:
            ret = evl.call_user(f.node, [pos, Sym("SCHEME"), w])
        except Unsupported as exc:
            raise AnalysisError(f"{f.qualname}: unsupported construct line {getattr(exc.node, 'lineno', '?')}: {exc}")
        good = isinstance(ret, tuple) and len(ret) == n_ret and ret[0] == "GRAPH" and ret[1] == Sym("MATRIX") \
            and log.get("pcm") == [pos, Sym("SCHEME"), w] and log.get("gfm") == [Sym("MATRIX")]
        if n_ret == 3:
            good = good and ret[2] == "ROBUST" and log.get("rob") == [Sym("MATRIX")]
        res.check(good, rule, f"{name}:wiring", f.loc(),
                  ok_detail="graph (and robust arcs) derived from pairwise_cost_matrix(positions, scheme, weights), "
                            "which is returned alongside",
                  bad_detail=f"returns {ret!r}; calls {log!r}")

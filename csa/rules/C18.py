"""
C18 - rankings and datasets survive a round trip through text and files; the parser is total.

P1  totality (bounded, by abstract evaluation of the real parser on the real Element/Ranking classes): every string
    over the format's alphabet up to a length bound, plus a curated list of boundary shapes, is either parsed or
    refused with ValueError - no index error, no other exception, no unbounded loop.
P2  structural complements that hold for strings of any length: (a) the scanner loop makes progress - each
    iteration re-assigns a guard variable from `find(c, start, ...)` with start >= old value + 1; (b) every
    non-slice subscript in the parser is `split(...)[-1]` / `[0]` (a split result is never empty).
P3  text round trip (bounded): for every ranking with ties over <= 3 elements (ints; strings free of delimiters), in
    brace and bracket notation, with surrounding whitespace and with a name prefix, parsing the rendering gives an
    equal ranking.
P5  no hang through regular expressions: every pattern handed to `re` by the modules of the parsing / reading code is
    constant-folded and analysed statically (engines/redos.py): no loop of its automaton is exponentially ambiguous
    (two ways to read the same string around the same state = exponential backtracking on texts that fail late).
    Today's tree uses no regular expression; the analysis is exercised on built-in examples on every run.
P4  file round trip (bounded, fake file system): Dataset.write then Dataset.from_file gives an equal dataset; and the
    reader's line filter accepts every line the writer can emit.
"""
from __future__ import annotations

import ast
import itertools
import os
from concurrent.futures import ProcessPoolExecutor
from typing import Dict, List, Tuple

from ..loader import AnalysisError, Project, src, dotted, parent
from ..report import Result
from ..engines.abseval import Unsupported, AbsRaise, IndexOut, LoopBound, Obj
from ..engines.instances import ExternalFunc
from .datamodel import World
from .C07 import ordered_partitions

ALPHABET = "[]{},: a1"
CURATED = [
    "", " ", "[", "]", "[]", "[[]]", "[[", "]]", "[[]", "[]]", "[{}]", "{}", "[{1}]", "[{1},{2}]", "[{1}, {2, 3}]",
    "[[1],[2,3]]", "[{1},]", "[,{1}]", "[{1}{2}]", "[{1},,{2}]", "[{1,}]", "[{,1}]", "[{1 2}]", "r:[{1}]", "r:",
    ":", "a:b:[{1}]", "[{1}] x", "x [{1}]", "[{1}]]", "[[{1}]", "[{1}},{2}]", "[{1},{2}", "{1},{2}]", "[{a}, {b, c}]",
    "[{1}, {a}]", "[{1}]\n", "\n[{1}]", "[{ }]", "[{1},{ }]", "[ ]", "[[],[]]", "[[1],[]]", "[[],[1]]", "[{1}],",
    "[{1}] ,", "]{1}[", "}{", "][", "[{1},[2]}", "[{[1]}]", "[{{1}}]", "[{1}{", "[{1},{2}}", "[[1]][[2]]", "[1]",
    "[1,2]", "1", "a", "[a", "a]", "[{1}, {2}, {3}, {4}, {5}]", "[[[[", "]]]]", "[{1}]:[{2}]", "[{-1}]", "[{1.5}]",
    "[{²}]", "[{1}, {²}]",
]


def classify(w: World, s: str) -> Tuple[str, str]:
    try:
        r = w.rt.call_static(w.R, "from_string", s)
        return "ok", repr(r)
    except AbsRaise as exc:
        return "raise", exc.exc_name.split(".")[-1]
    except LoopBound:
        return "loop", ""
    except IndexOut as exc:
        return "index", f"line {getattr(exc.node, 'lineno', '?')}: {exc}"
    except Unsupported as exc:
        return "unsupported", f"line {getattr(exc.node, 'lineno', '?')}: {exc}"


def _worker(job):
    overlay, strings = job
    proj = Project(overlay=overlay)
    w = World(proj)
    w.rt.funcs["print"] = lambda ev, call: None
    out = []
    for s in strings:
        kind, info = classify(w, s)
        if not (kind == "ok" or (kind == "raise" and info == "ValueError")):
            out.append((s, kind, info))
    return len(strings), out


def edit_neighbourhood(bases: List[str]) -> set:
    """Every text at edit distance one (deletion, insertion, substitution over the format alphabet) from longer valid
    renderings: the boundary cases of the scanner on realistic lengths (nested / missing / extra delimiters anywhere)."""
    out = set()
    for b in bases:
        for i in range(len(b) + 1):
            for c in ALPHABET:
                out.add(b[:i] + c + b[i:])
            if i < len(b):
                out.add(b[:i] + b[i + 1:])
                for c in ALPHABET:
                    out.add(b[:i] + c + b[i + 1:])
    return out


def all_strings(maxlen: int, alphabet: str = ALPHABET):
    for n in range(maxlen + 1):
        for t in itertools.product(alphabet, repeat=n):
            yield "".join(t)


def _regex_patterns(proj: Project, modnames):
    """(module, call node, pattern text, flags) for every call of the `re` module in the given modules; patterns are
    folded from constants, module-level names, concatenations and implicit joins. A pattern that cannot be folded is an
    ANALYSIS-ERROR (the rule must see every expression)."""
    import re as _re
    out = []
    for mn in modnames:
        try:
            mod = proj.module(mn)
        except Exception:
            continue
        consts: Dict[str, ast.AST] = {}
        for st in mod.tree.body:
            if isinstance(st, ast.Assign) and len(st.targets) == 1 and isinstance(st.targets[0], ast.Name):
                consts[st.targets[0].id] = st.value
            elif isinstance(st, ast.AnnAssign) and isinstance(st.target, ast.Name) and st.value is not None:
                consts[st.target.id] = st.value
        re_names, fn_names = set(), {}
        for st in ast.walk(mod.tree):
            if isinstance(st, ast.Import):
                for al in st.names:
                    if al.name == "re":
                        re_names.add(al.asname or "re")
            elif isinstance(st, ast.ImportFrom) and st.module == "re":
                for al in st.names:
                    fn_names[al.asname or al.name] = al.name

        def fold(n, depth=0):
            if depth > 20:
                raise AnalysisError("regex pattern folding too deep")
            if isinstance(n, ast.Constant) and isinstance(n.value, str):
                return n.value
            if isinstance(n, ast.Name) and n.id in consts:
                return fold(consts[n.id], depth + 1)
            if isinstance(n, ast.BinOp) and isinstance(n.op, ast.Add):
                return fold(n.left, depth + 1) + fold(n.right, depth + 1)
            if isinstance(n, ast.JoinedStr):
                parts = []
                for v in n.values:
                    if isinstance(v, ast.Constant):
                        parts.append(v.value)
                    elif isinstance(v, ast.FormattedValue) and v.format_spec is None and v.conversion == -1:
                        parts.append(fold(v.value, depth + 1))
                    else:
                        raise AnalysisError(f"{mod.relpath}:{n.lineno}: regex pattern built with a format specification")
                return "".join(parts)
            if isinstance(n, ast.Call) and isinstance(n.func, ast.Attribute) and n.func.attr == "escape" and n.args:
                return _re.escape(fold(n.args[0], depth + 1))
            raise AnalysisError(f"{mod.relpath}:{getattr(n, 'lineno', '?')}: regex pattern `{src(n)}` is not a constant the "
                                f"analysis can fold")

        def flags_of(call):
            fl = 0
            cand = [k.value for k in call.keywords if k.arg == "flags"]
            fname = call.func.attr if isinstance(call.func, ast.Attribute) else fn_names.get(getattr(call.func, "id", ""), "")
            pos = {"compile": 1, "match": 2, "fullmatch": 2, "search": 2, "findall": 2, "finditer": 2, "split": 3, "sub": 4,
                   "subn": 4}.get(fname)
            if pos is not None and len(call.args) > pos:
                cand.append(call.args[pos])
            for c in cand:
                for nm in ast.walk(c):
                    name = nm.attr if isinstance(nm, ast.Attribute) else (nm.id if isinstance(nm, ast.Name) else None)
                    if name and hasattr(_re, name) and isinstance(getattr(_re, name), int):
                        fl |= int(getattr(_re, name))
            return fl
        for n in ast.walk(mod.tree):
            if not isinstance(n, ast.Call):
                continue
            is_re = (isinstance(n.func, ast.Attribute) and isinstance(n.func.value, ast.Name) and n.func.value.id in re_names
                     and n.func.attr in ("compile", "match", "fullmatch", "search", "findall", "finditer", "split", "sub", "subn")) \
                or (isinstance(n.func, ast.Name) and fn_names.get(n.func.id) in
                    ("compile", "match", "fullmatch", "search", "findall", "finditer", "split", "sub", "subn"))
            if is_re and n.args:
                out.append((mod, n, fold(n.args[0]), flags_of(n)))
    return out


def run(ctx) -> Result:
    res = Result("C18")
    proj = ctx.proj
    w = World(proj)
    w.rt.funcs["print"] = lambda ev, call: None
    parse = proj.func("corankco.utils", "parse_ranking_with_ties")
    fs = proj.method(w.R, "from_string")
    res.saw(parse, fs, proj.func("corankco.utils", "parse_ranking_with_ties_of_str"),
            proj.func("corankco.utils", "parse_ranking_with_ties_of_int"),
            proj.func("corankco.utils", "get_rankings_from_file"), proj.func("corankco.utils", "write_rankings"))
    res.rule("P1", "parser totality on all short strings over the format alphabet + boundary shapes (ok or ValueError)", 2)
    res.rule("P2", "scanner loop progress and subscript safety (any length)", 2)
    res.rule("P3", "text round trip of every ranking with ties over <= 3 elements, both notations, padding, name prefix", 3)
    res.rule("P4", "file round trip on a fake file system; reader filter accepts every writer line", 3)

    # ------------------------------------------------------------------ P5 (before P1: a hanging pattern must not be run)
    res.rule("P5", "regular expressions of the parsing / reading modules have no exponentially ambiguous loop", 1)
    from ..engines import redos
    st_bad = redos.self_test()
    if st_bad:
        raise AnalysisError(f"regex ambiguity analysis fails its built-in examples: {st_bad[0]}")
    patterns = _regex_patterns(proj, ("corankco.utils", "corankco.ranking", "corankco.dataset", "corankco.element"))
    hang = False
    for mod, node, pat, flags in patterns:
        try:
            wit = redos.analyse(pat, flags)
        except redos.RegexUnsupported as exc:
            raise AnalysisError(f"{mod.relpath}:{node.lineno}: regular expression {pat!r} uses a construct the ambiguity "
                                f"analysis does not model ({exc})")
        hang = hang or wit is not None
        res.check(wit is None, "P5", f"regex:{mod.relpath}:{pat[:40]}", f"{mod.relpath}:{node.lineno}",
                  ok_detail=f"{pat!r}: no exponentially ambiguous loop",
                  bad_detail=(f"pattern {pat!r}: after the prefix {wit['prefix']!r} the text {wit['pump']!r} can be read in two "
                              f"ways around the same state; on a text repeating it and then failing to match, the "
                              f"backtracking matcher needs time exponential in the number of repetitions (hang)") if wit else "")
    res.ok("P5", "regex:analysis-self-test", "csa/engines/redos.py",
           f"{len(redos.SELF_TEST)} built-in patterns classified as expected; {len(patterns)} pattern(s) found in the parsing modules")
    res.extra["regex_patterns"] = [p_[2] for p_ in patterns]
    if hang:
        return res          # the bounded evaluation below would run the hanging matcher

    # ------------------------------------------------------------------ P1
    maxlen = 5 if ctx.thorough else 3
    strings = list(all_strings(maxlen))
    extra = [p + c for p in ("[{1}", "[[a]", "[{1},{2", "r:[{1}") for c in all_strings(2)]
    strings += extra
    strings += sorted(edit_neighbourhood(["[{1}, {2, 3}, {4}]", "[[a], [b, c]]", "r1 : [{12}, {7, 30}, {5}]",
                                          "[{x_1, Bob}, {y}, {z, t, u}]"]))
    chunks = [strings[i::16] for i in range(16)]
    n_eval = 0
    bads: List[Tuple[str, str, str]] = []
    with ProcessPoolExecutor(max_workers=min(16, os.cpu_count() or 1)) as ex:
        for n, out in ex.map(_worker, [(proj.overlay, c) for c in chunks]):
            n_eval += n
            bads.extend(out)
    unsupported = [b for b in bads if b[1] == "unsupported"]
    if unsupported:
        raise AnalysisError(f"parser evaluation hit an unsupported construct on {unsupported[0][0]!r}: {unsupported[0][2]}")
    bads.sort(key=lambda b: (len(b[0]), b[0]))
    res.check(not bads, "P1", f"from_string:all-strings-up-to-{maxlen}", parse.loc(),
              ok_detail=f"{n_eval} strings over {ALPHABET!r}: parsed or ValueError",
              bad_detail=(f"{len(bads)} strings fail otherwise; shortest: {bads[0][0]!r} -> "
                          f"{'IndexError' if bads[0][1] == 'index' else ('does not terminate' if bads[0][1] == 'loop' else bads[0][2])}"
                          f" {bads[0][2] if bads[0][1] == 'index' else ''}") if bads else "")
    cur_bad = []
    for s in CURATED:
        kind, info = classify(w, s)
        if kind == "unsupported":
            raise AnalysisError(f"parser evaluation hit an unsupported construct on {s!r}: {info}")
        if not (kind == "ok" or (kind == "raise" and info == "ValueError")):
            cur_bad.append((s, kind, info))
    res.check(not cur_bad, "P1", "from_string:boundary-shapes", parse.loc(),
              ok_detail=f"{len(CURATED)} boundary shapes: parsed or ValueError",
              bad_detail=f"{cur_bad[0][0]!r} -> {cur_bad[0][1]} {cur_bad[0][2]}" if cur_bad else "")
    res.extra["strings_evaluated"] = n_eval + len(CURATED)

    # ------------------------------------------------------------------ P2
    _check_scanner(res, proj, parse)

    # ------------------------------------------------------------------ P3
    for label, elems in (("ints", [0, 7, 12]), ("strings", ["a", "Bob", "x_1"])):
        bad = None
        n = 0
        for k in (1, 2, 3):
            for part in ordered_partitions(elems[:k]):
                r = w.ranking(part)
                text = r.abs_str()
                forms = [text, text.replace("{", "[").replace("}", "]"), "  " + text + " \n", "name : " + text,
                         text.replace(", ", ",")]
                for t in forms:
                    n += 1
                    kind, info = classify(w, t)
                    if kind != "ok":
                        bad = bad or (part, t, f"{kind} {info}")
                        continue
                    back = w.rt.call_static(w.R, "from_string", t)
                    if not (back == r) or w.raw_ranking(back) != w.raw_ranking(r):
                        bad = bad or (part, t, f"parsed as {w.raw_ranking(back)}")
        res.check(bad is None, "P3", f"from_string(str(r)):{label}", fs.loc(),
                  ok_detail=f"{n} renderings parse back to an equal ranking",
                  bad_detail=f"ranking {bad[0]} rendered {bad[1]!r}: {bad[2]}" if bad else "")
    kind, info = classify(w, "[]")
    res.check(kind == "ok", "P3", "from_string:empty-ranking", fs.loc(), ok_detail="'[]' parses to the empty ranking",
              bad_detail=f"'[]' -> {kind} {info}")

    # ------------------------------------------------------------------ P4
    _check_files(res, proj, w)
    res.not_decided.append("round trips of rankings beyond the explored bound (<= 3 elements) and element names outside "
                           "the tested shapes")
    return res


def _long_texts() -> List[str]:
    import random as _random
    rnd = _random.Random(7)
    alphabet = "[]{}, :1a "
    out = ["[" + ", ".join("{%d}" % i for i in range(12)) + "]", "[" * 30, "{" * 25 + "}" * 25, "[{1}, " * 9, ", " * 30,
           "r : " * 6 + "[{1}]", "[{" + "1, " * 20 + "}]", "[[" + "a], [" * 10 + "b]]", "]" * 40, "[{1}]" * 10]
    for n in (6, 8, 12, 20, 35, 60):
        for _ in range(12):
            out.append("".join(rnd.choice(alphabet) for _ in range(n)))
    return out


LONG_STRINGS = _long_texts()
_LONG_CACHE: Dict[int, list] = {}


def _long_strings_outcomes(proj: Project):
    if id(proj) not in _LONG_CACHE:
        w = World(proj)
        w.rt.funcs["print"] = lambda ev, call: None
        bad = []
        for s_ in LONG_STRINGS:
            kind, info = classify(w, s_)
            if kind == "unsupported":
                raise AnalysisError(f"parser evaluation hit an unsupported construct on {s_!r}: {info}")
            if not (kind == "ok" or (kind == "raise" and info == "ValueError")):
                bad.append((s_, kind, info))
        _LONG_CACHE.clear()
        _LONG_CACHE[id(proj)] = bad
    return _LONG_CACHE[id(proj)]


def _check_scanner(res: Result, proj: Project, parse):
    whiles = [n for n in ast.walk(parse.node) if isinstance(n, ast.While)]
    ok_all = bool(whiles)
    detail = f"{len(whiles)} scanner loop(s)"
    for wl in whiles:
        guard_vars = set()
        for n in ast.walk(wl.test):
            if isinstance(n, ast.Compare) and isinstance(n.left, ast.Name) and len(n.ops) == 1 \
                    and isinstance(n.ops[0], ast.NotEq) and src(n.comparators[0]) == "-1":
                guard_vars.add(n.left.id)
        progress = False
        for st in wl.body:
            if isinstance(st, ast.Assign) and len(st.targets) == 1 and isinstance(st.targets[0], ast.Name) \
                    and st.targets[0].id in guard_vars and isinstance(st.value, ast.Call) \
                    and isinstance(st.value.func, ast.Attribute) and st.value.func.attr == "find" \
                    and len(st.value.args) >= 2:
                v = st.targets[0].id
                start = st.value.args[1]
                cands = [start]
                if isinstance(start, ast.Call) and dotted(start.func) == "max":
                    cands = list(start.args)
                if any(src(c) == f"{v} + 1" for c in cands):
                    # the string scanned must not be modified in the loop, and the statement must be unconditional
                    scanned = src(st.value.func.value)
                    modified = any(isinstance(x, (ast.Assign, ast.AugAssign)) and any(
                        src(t) == scanned for t in (x.targets if isinstance(x, ast.Assign) else [x.target]))
                        for x in ast.walk(wl))
                    if not modified:
                        progress = True
        # no `continue` may skip the progress statement
        if _own_continue(wl):
            progress = False
        if not progress:
            ok_all = False
            detail = f"loop at line {wl.lineno}: no guard variable is re-assigned from find(c, v + 1 ...) on every iteration"
    if ok_all:
        res.ok("P2", "parse_ranking_with_ties:scanner-progress", parse.loc(whiles[0]),
               "each iteration moves a guard variable to find(c, old + 1, ...) : strictly increasing or -1")
    else:
        # the scanner is not written in the idiom this rule recognises (no loop here, another kind of loop, a helper):
        # that is no defect. Progress is then decided by evaluation on longer texts than P1's - every outcome must be a
        # parse or a ValueError within the loop bound.
        probs = _long_strings_outcomes(proj)
        res.check(not probs, "P2", "parse_ranking_with_ties:scanner-progress", parse.loc(),
                  ok_detail=f"scanner idiom not recognised ({detail}); {len(LONG_STRINGS)} longer texts (up to 60 characters) "
                            f"all parsed or refused within the loop bound",
                  bad_detail=f"{probs[0][0]!r} -> " + ("does not terminate" if probs[0][1] == "loop" else f"{probs[0][1]} {probs[0][2]}")
                  if probs else "")
    bad_sub = None
    for f in (parse, proj.func("corankco.utils", "get_rankings_from_file")):
        in_annotation = set()
        for n in ast.walk(f.node):
            anns = []
            if isinstance(n, ast.AnnAssign):
                anns.append(n.annotation)
            elif isinstance(n, ast.arg) and n.annotation is not None:
                anns.append(n.annotation)
            elif isinstance(n, ast.FunctionDef) and n.returns is not None:
                anns.append(n.returns)
            for a in anns:
                in_annotation.update(id(x) for x in ast.walk(a))
        for n in ast.walk(f.node):
            if id(n) in in_annotation:
                continue
            if isinstance(n, ast.Subscript) and not isinstance(n.slice, ast.Slice):
                idx = src(n.slice)
                base = n.value
                if isinstance(base, ast.Call) and isinstance(base.func, ast.Attribute) and base.func.attr == "split" \
                        and idx in ("-1", "0"):
                    continue
                # `line[0]` guarded by `len(line) > k` earlier in the same `and`
                p = parent(n)
                guarded = False
                q = n
                while p is not None and not isinstance(p, ast.stmt) and not isinstance(p, ast.comprehension):
                    if isinstance(p, ast.BoolOp) and isinstance(p.op, ast.And):
                        pos = next((i for i, v in enumerate(p.values) if v is q or any(x is q for x in ast.walk(v))), None)
                        for v in p.values[:pos or 0]:
                            if _len_guard(v, base):
                                guarded = True
                    q, p = p, parent(p)
                if isinstance(p, ast.comprehension):
                    for cond in p.ifs:
                        if isinstance(cond, ast.BoolOp) and isinstance(cond.op, ast.And):
                            for v in cond.values:
                                if any(x is n for x in ast.walk(v)):
                                    break
                                if _len_guard(v, base):
                                    guarded = True
                if guarded and idx == "0":
                    continue
                bad_sub = bad_sub or (f, n)
    if bad_sub is None:
        res.ok("P2", "parser:no-unguarded-index", parse.loc(), "only slices, split(...)[-1] and length-guarded [0] are used")
    else:
        # a subscript this rule cannot prove safe by its shape: decided by evaluation (P1 on all short strings, and the
        # longer texts here) - an IndexError that can escape shows there
        probs = _long_strings_outcomes(proj)
        res.check(not probs, "P2", "parser:no-unguarded-index", parse.loc(),
                  ok_detail=f"`{src(bad_sub[1])[:40]}` ({bad_sub[0].short} line {bad_sub[1].lineno}) is not one of the recognised safe "
                            f"forms; no IndexError escapes on P1's strings nor on {len(LONG_STRINGS)} longer texts",
                  bad_detail=f"{probs[0][0]!r} -> {probs[0][1]} {probs[0][2]}" if probs else "")


def _own_continue(loop) -> bool:
    """A `continue` that belongs to `loop` itself (not to a nested loop)."""
    def rec(stmts):
        for st in stmts:
            if isinstance(st, ast.Continue):
                return True
            if isinstance(st, (ast.For, ast.While)):
                continue
            for field in ("body", "orelse", "finalbody", "handlers"):
                sub = getattr(st, field, None)
                if sub:
                    items = []
                    for x in sub:
                        items.extend(x.body if isinstance(x, ast.ExceptHandler) else [x])
                    if rec(items):
                        return True
        return False
    return rec(loop.body)


def _len_guard(v, base) -> bool:
    """`len(base) > k` (k >= 0) or `len(base) >= k` (k >= 1): the sequence is non-empty."""
    if not (isinstance(v, ast.Compare) and len(v.ops) == 1 and src(v.left) == f"len({src(base)})"
            and isinstance(v.comparators[0], ast.Constant) and isinstance(v.comparators[0].value, int)):
        return False
    k = v.comparators[0].value
    return (isinstance(v.ops[0], ast.Gt) and k >= 0) or (isinstance(v.ops[0], ast.GtE) and k >= 1)


class FakeFS:
    def __init__(self):
        self.files: Dict[str, str] = {}

    def install(self, w: World):
        fs = self

        class FileObj(Obj):
            def __init__(self, path, mode):
                super().__init__("file")
                self.path = path
                self.mode = mode
                if "w" in mode:
                    fs.files[path] = ""
                self.methods = {
                    "write": lambda ev, call, a, kw: self._write(a[0]),
                    "writelines": lambda ev, call, a, kw: [self._write(x) for x in (a[0].abs_iter() if hasattr(a[0], "abs_iter") else a[0])] and None,
                    "readlines": lambda ev, call, a, kw: fs.files[self.path].splitlines(True),
                    "flush": lambda ev, call, a, kw: None,
                    "__enter__": lambda ev, call, a, kw: self,
                    "__exit__": lambda ev, call, a, kw: None,
                    "read": lambda ev, call, a, kw: fs.files[self.path],
                    "close": lambda ev, call, a, kw: None,
                }

            def _write(self, s):
                fs.files[self.path] += s

        def open_(ev, call):
            args = [ev.ev(a) for a in call.args]
            path = args[0]
            mode = args[1] if len(args) > 1 else "r"
            if "r" in mode and path not in fs.files:
                raise AbsRaise("FileNotFoundError", call)
            return FileObj(path, mode)
        w.rt.funcs["open"] = open_
        ex = w.rt.externals
        import posixpath as pp

        def absolute(p):
            return pp.normpath(p if pp.isabs(p) else pp.join("/cwd", p))
        dirs = ("/", "/dir", "/cwd")        # the directories of the fake file system; "/cwd" is the working directory
        ex["os.path.isdir"] = ExternalFunc(lambda a, kw, ev, node: a[0] != "" and absolute(a[0]) in dirs)
        ex["os.path.isfile"] = ExternalFunc(lambda a, kw, ev, node: a[0] in fs.files)
        ex["os.path.exists"] = ExternalFunc(lambda a, kw, ev, node: a[0] in fs.files or (a[0] != "" and absolute(a[0]) in dirs))
        ex["os.path.abspath"] = ExternalFunc(lambda a, kw, ev, node: absolute(a[0]))
        ex["os.getcwd"] = ExternalFunc(lambda a, kw, ev, node: "/cwd")
        ex["os.pardir"] = ".."
        ex["os.path.sep"] = "/"


def _check_files(res: Result, proj: Project, w: World):
    wr = proj.func("corankco.utils", "write_rankings")
    rd = proj.func("corankco.utils", "get_rankings_from_file")
    fs = FakeFS()
    fs.install(w)
    datasets = [
        ("ints-ties", [[{1}, {2, 3}], [{3}, {1, 2}]]),
        ("strings", [[{"a"}, {"b"}], [{"b", "a"}]]),
        ("incomplete", [[{10}], [{2}, {10}], [{3}, {2}]]),
        ("single", [[{5}]]),
        ("with-empty-ranking", [[{1}, {2, 3}], [], [{3}]]),
        # integers that no double represents exactly; names that read as floating-point numbers but not as integers
        ("large-ints", [[{2 ** 53 + 1}, {2 ** 63 - 1}], [{12345678901234567890123}, {2 ** 53 + 1}]]),
        ("number-like-names", [[{"1e3"}, {"2.5"}], [{"2.5"}, {"1e3"}]]),
        ("infinity-like-names", [[{"inf"}, {"1e3"}], [{"nan", "Infinity"}]]),
    ]
    for k_, (label, raws) in enumerate(datasets):
        d = w.dataset(raws)
        # absolute path, relative path with a directory part, bare file name in the working directory
        path = (f"/dir/{label}.txt", f"../dir/{label}.txt", f"{label}.txt")[k_ % 3]
        st, _ = w.safe("Dataset.write", w.call, d, "write", path)
        st2, back = w.safe("Dataset.from_file", lambda: w.rt.call_static(w.D, "from_file", path))
        good = st == "ok" and st2 == "ok" and (back == d) is True and w.raw_dataset(back) == w.raw_dataset(d)
        detail = ""
        if not good:
            detail = f"dataset {raws} written as {fs.files.get(path)!r}: " + (
                f"read back {w.raw_dataset(back)}" if st2 == "ok" else f"reading raised {back}")
        res.check(good, "P4", f"Dataset.write/from_file:{label}", wr.loc(),
                  ok_detail="written then read back equal", bad_detail=detail)
    # files that are not well-formed: read or refused with ValueError (a file without any ranking: the documented
    # EmptyDatasetException), never another failure
    bad = None
    malformed = ["[{1}, {2}\n", "[1, 2, 3]\n", "hello world\n", "[{1},,{2}]\n", "[{a}, {b}]\n[{a}\n", "[{1}, {1}]\n",
                 "[{1}]\n[{x}, {y}\n", "{{1}}\n", "[{}]\n[{2}]\n", "\n\n", ""]
    for k_, content in enumerate(malformed):
        path = f"/dir/malformed{k_}.txt"
        fs.files[path] = content
        st2, back = w.safe("Dataset.from_file", lambda: w.rt.call_static(w.D, "from_file", path))
        if not (st2 == "ok" or (st2 == "raise" and back in ("ValueError", "EmptyDatasetException"))) and bad is None:
            bad = (content, back)
    res.check(bad is None, "P4", "Dataset.from_file:malformed-files", rd.loc(),
              ok_detail=f"{len(malformed)} malformed files: each is read or refused with ValueError",
              bad_detail=f"file content {bad[0]!r}: reading fails with {bad[1]}" if bad else "")
    # reader filter vs shortest writer line: the writer emits str(<list of sets>), at least the 2 characters '[]'
    ks = []
    for n in ast.walk(rd.node):
        if isinstance(n, ast.Compare) and isinstance(n.left, ast.Call) and dotted(n.left.func) == "len" \
                and len(n.ops) == 1 and isinstance(n.ops[0], (ast.Gt, ast.GtE)) and isinstance(n.comparators[0], ast.Constant):
            k = n.comparators[0].value
            ks.append(k + 1 if isinstance(n.ops[0], ast.Gt) else k)
    min_len = min(ks) if ks else 0
    worst = max(ks) if ks else 0
    res.check(worst <= 2, "P4", "get_rankings_from_file:line-filter", rd.loc(),
              ok_detail="every line the writer can emit passes the reader's length filter",
              bad_detail=f"reader keeps lines of length >= {worst}, the writer emits '[]' (length 2) for a ranking "
                         f"without bucket: such a ranking is silently dropped")

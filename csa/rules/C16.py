"""
C16 - Ranking / Dataset views stay consistent through every construction and mutation.

The real Element / Ranking / Dataset method bodies are evaluated by the analyser's abstract evaluator on model
instances (engines/instances.py), so the obligations below are checked against the code itself, not a re-model.

U1  Ranking is frozen after construction (structural, type-based): `_buckets` / `_positions` are assigned only in
    `Ranking.__init__`, and nowhere in the package is a mutator applied to (an alias of) the bucket list, a bucket or
    the position map of a Ranking.
U2  histories: from several start datasets, every sequence (length <= 2, thorough 3) of remove_elements /
    remove_elements_rate_presence_lower_than / remove_empty_rankings: after each step the dataset invariants hold
    (universe = union of domains, id maps inverse bijections onto 0..n-1, homogeneous types, flags, position /
    bucket-id matrices), the step has its documented effect, and a refused step (EmptyDatasetException) leaves the
    dataset exactly as it was.
U4  Ranking construction: positions / domain / size / length agree with the buckets; overlapping buckets are refused.
U5  derived datasets: unification appends exactly the missing elements as one last bucket; projection keeps
    exactly the rankings meeting the kept set (all of them with keep_empty_rankings), relative order preserved; both
    satisfy the invariants.
"""
from __future__ import annotations

import ast
import itertools
from typing import List, Set

from ..loader import AnalysisError, Project, src, parent, dotted
from ..report import Result
from ..engines.abseval import AbsRaise, Unsupported
from ..types import TypeEnv, ClassTypes
from .datamodel import World, typed, all_intlike

MUTATORS = {"append", "extend", "insert", "pop", "remove", "clear", "add", "discard", "update", "sort", "reverse",
            "setdefault", "popitem", "difference_update", "intersection_update", "symmetric_difference_update"}

START = [
    ("ints-incomplete-ties", [[{1}, {2, 3}], [{3}, {1}], [{4}], [{2}, {4, 1}]]),
    ("strs", [[{"a"}, {"b"}, {"c"}], [{"c", "b"}, {"a"}]]),
    ("digit-strings-mixed", [[{"1"}, {2}], [{"2"}]]),
    ("with-empty-ranking", [[{1}, {2}], [], [{2}, {1}]]),
    ("late-non-int", [[{"1"}], [{"a"}, {"1"}]]),
    ("mixed-names", [[{"x1"}, {"2"}], [{"2"}, {"x1", "3"}]]),
    ("negative-ints", [[{-1}, {0, 1}], [{1}, {-1}], [{0}]]),
    ("negative-int-with-digit-string", [[{-3}, {"2"}], [{"2"}, {-3, "7"}]]),
    # names python's int() would read although they are not made of digits: they are names
    ("signed-and-underscored-names", [[{"+5"}, {"5"}], [{"1_2"}, {"-1", "5"}], [{" 7"}, {"+5"}]]),
]


def _project(raws, removed):
    out = []
    for r in raws:
        nr = [b - removed for b in r if b - removed]
        if nr:
            out.append(nr)
    return _retype(out)


def _retype(raws):
    """Names are re-typed by every re-analysis: all int when every remaining name is integer-like, else all str."""
    vals = [v for r in raws for b in r for _t, v in b]
    if vals and all(isinstance(v, int) or (isinstance(v, str) and v.isdigit()) for v in vals):
        return [[{("int", int(v)) for _t, v in b} for b in r] for r in raws]
    return [[{("str", str(v)) for _t, v in b} for b in r] for r in raws]


def run(ctx) -> Result:
    res = Result("C16")
    proj = ctx.proj
    res.rule("U1", "Ranking internals are written only by its constructor; no mutator reaches them anywhere", 3)
    res.rule("U2", "dataset invariants and documented effect after every mutation history; refused steps are atomic", 5)
    res.rule("U4", "Ranking constructor: positions / domain / size / length agree with buckets; overlaps refused", 6)
    res.rule("U5", "unification and projection produce the documented, invariant-satisfying datasets", 8)
    _check_frozen(res, proj, ctx)
    w = World(proj)
    for c in (w.E, w.R, w.D):
        for m in c.methods.values():
            res.saw(m)

    # ------------------------------------------------------------------ U4
    cases = [("ties", [{1, 2}, {3}, {4, 5, 6}]), ("strings", [{"a"}, {"b", "c"}]), ("empty", []), ("single", [{7}]),
             ("mixed", [{1}, {"x"}]), ("elements", None)]
    rk_init = proj.method(w.R, "__init__")
    for label, raw in cases:
        if raw is None:
            raw_inst = [{w.element(3), w.element(1)}, {w.element(2)}]
            st, r = w.safe("Ranking()", lambda: w.rt.new(w.R, [raw_inst], {}))
        else:
            st, r = w.safe("Ranking()", w.ranking, raw)
        probs = w.ranking_problems(r, f"Ranking({raw})") if st == "ok" else [f"constructor raised {r}"]
        res.check(not probs, "U4", f"Ranking.__init__:{label}", rk_init.loc(),
                  ok_detail="positions = 1 + number of elements in earlier buckets; domain, size and length agree",
                  bad_detail="; ".join(probs[:2]))
    st, r = w.safe("Ranking()", w.ranking, [{1, 2}, {2, 3}])
    res.check(st == "raise" and r == "ValueError", "U4", "Ranking.__init__:overlap-refused", rk_init.loc(),
              ok_detail="overlapping buckets raise ValueError", bad_detail=f"overlapping buckets give {st} {r!r}")
    # iteration / indexing
    st, r = w.safe("Ranking()", w.ranking, [{1}, {2, 3}, {4}])
    its = [set(w.key(e) for e in b) for b in r.abs_iter()]
    idx = set(w.key(e) for e in r.abs_getitem(1, None))
    res.check(its == [{("int", 1)}, {("int", 2), ("int", 3)}, {("int", 4)}] and idx == {("int", 2), ("int", 3)}, "U4",
              "Ranking:iteration-and-indexing", rk_init.loc(), ok_detail="iteration and indexing follow bucket order",
              bad_detail=f"iteration {its}, [1] -> {idx}")

    # ------------------------------------------------------------------ construction invariants + U2 histories
    depth = 3 if ctx.thorough else 2
    n_hist = 0
    first_bad = {}
    for label, raws in START:
        st, d0 = w.safe(f"Dataset({raws})", w.dataset, raws)
        if st != "ok":
            res.bad("U2", f"Dataset.__init__:{label}", proj.method(w.D, "__init__").loc(), f"constructor raised {d0}")
            continue
        want0 = typed(raws, all_intlike(raws))
        probs = w.dataset_problems(d0, f"Dataset({raws})")
        if w.raw_dataset(d0) != want0:
            probs.append(f"rankings stored as {w.raw_dataset(d0)}, expected {want0}")
        res.check(not probs, "U2", f"Dataset.__init__:{label}", proj.method(w.D, "__init__").loc(),
                  ok_detail="invariants hold after construction; names re-typed homogeneously",
                  bad_detail="; ".join(probs[:2]))
    jobs = [(proj.overlay, label, raws, depth, ctx.thorough, ctx.seed, c) for label, raws in START for c in range(4)]
    from concurrent.futures import ProcessPoolExecutor
    with ProcessPoolExecutor(max_workers=min(len(jobs), 16)) as ex:
        for nh, fb in ex.map(_history_worker, jobs):
            n_hist += nh
            for k, v in fb.items():
                first_bad.setdefault(k, v)
    for key in ["unexpected-refusal", "refusal-not-atomic", "empty-result-accepted", "effect-remove_elements",
                "effect-rate", "effect-remove_empty_rankings", "invariant-after-remove_elements",
                "invariant-after-rate", "invariant-after-remove_empty_rankings"]:
        loc = proj.method(w.D, "remove_elements").loc()
        if key in first_bad:
            res.bad("U2", f"Dataset.history:{key}", loc, first_bad[key])
        else:
            res.ok("U2", f"Dataset.history:{key}", loc, f"no such failure in {n_hist} histories of length {depth}")
    res.extra["histories"] = n_hist

    # ------------------------------------------------------------------ U5
    for label, raws in START:
        st, d = w.safe("Dataset()", w.dataset, raws)
        if st != "ok":
            continue
        cur = typed(raws, all_intlike(raws))
        uni = {x for r in cur for b in r for x in b}
        st, ur = w.safe("unified_rankings", w.call, d, "unified_rankings")
        want = [[set(b) for b in r] + ([uni - set().union(*r)] if uni - (set().union(*r) if r else set()) else [])
                for r in cur]
        probs = []
        if st != "ok":
            probs.append(f"raised {ur}")
        else:
            got = [w.raw_ranking(r) for r in ur]
            if got != want:
                probs.append(f"unified rankings {got}, expected {want}")
            for i, r in enumerate(ur):
                probs.extend(w.ranking_problems(r, f"unified ranking#{i}"))
            if w.raw_dataset(d) != cur:
                probs.append("the dataset's own rankings were modified")
            if any(r in d.attrs["_rankings"] and any(r is x for x in d.attrs["_rankings"]) for r in ur):
                probs.append("a unified ranking is the dataset's own Ranking object")
        res.check(not probs, "U5", f"Dataset.unified_rankings:{label}", proj.method(w.D, "unified_rankings").loc(),
                  ok_detail="input buckets + exactly the missing elements as one last bucket; views consistent",
                  bad_detail="; ".join(probs[:2]))
        st, ud = w.safe("unified_dataset", w.call, d, "unified_dataset")
        probs = [f"raised {ud}"] if st != "ok" else w.dataset_problems(ud, "unified dataset")
        if st == "ok" and w.raw_dataset(ud) != want:
            probs.append(f"unified dataset rankings {w.raw_dataset(ud)}, expected {want}")
        if st == "ok" and not w.call(ud, "is_complete"):
            probs.append("unified dataset is not flagged complete")
        res.check(not probs, "U5", f"Dataset.unified_dataset:{label}", proj.method(w.D, "unified_dataset").loc(),
                  ok_detail="complete dataset satisfying the invariants", bad_detail="; ".join(probs[:2]))
    # projection
    check_projection(res, proj, "U5", thorough=ctx.thorough)
    raws = START[0][1]
    cur = typed(raws, True)
    # by ids
    st, d = w.safe("Dataset()", w.dataset, raws)
    e2i = {w.key(k): v for k, v in w.call(d, "mapping_elem_id").items()}
    ids = {e2i[("int", 3)], e2i[("int", 4)]}
    st, sp = w.safe("sub_problem_from_ids", w.call, d, "sub_problem_from_ids", ids)
    keep = {("int", 3), ("int", 4)}
    want = [nr for nr in ([b & keep for b in r if b & keep] for r in cur) if nr]
    res.check(st == "ok" and w.raw_dataset(sp) == want, "U5", "Dataset.sub_problem_from_ids",
              proj.method(w.D, "sub_problem_from_ids").loc(), ok_detail="ids decoded through the dataset's own id map",
              bad_detail=f"ids {ids} ({keep}) give {w.raw_dataset(sp) if st == 'ok' else sp}, expected {want}")
    check_independence(res, proj, "U6")
    check_wide(res, proj, "U5")
    check_flags_many(res, proj, "U2")
    res.explored_threshold = 25
    from . import C10
    C10.check_unified(res, proj, "U5")
    res.not_decided.append("value-level agreement of the views for histories longer than the explored bound (each step "
                           "re-establishes the invariants from the rankings alone, which is what the bound exercises)")
    return res


INDEPENDENCE_STARTS = [
    ("complete", [[{1}, {2, 3}, {4}], [{4}, {3}, {2}, {1}], [{2, 1}, {3, 4}]]),
    ("incomplete", [[{1}, {2, 3}], [{3}, {1}], [{4}], [{2}, {1, 4}]]),
    ("complete-strings", [[{"a"}, {"b"}, {"c"}], [{"c", "b"}, {"a"}]]),
]


def check_independence(res: Result, proj: Project, rule: str):
    """A derived dataset (unification, projection) and its source are separate objects: mutating one through its public
    API leaves the other exactly as it was, with its invariants."""
    w = World(proj)
    res.rule(rule, "derived datasets (unified, projected) and their source do not share state: a mutation of one leaves "
                   "the other unchanged and consistent", 4)
    ud_f = proj.method(w.D, "unified_dataset")
    for label, raws in INDEPENDENCE_STARTS:
        as_int = all_intlike(raws)
        uni = sorted({x for r in raws for b in r for x in b}, key=repr)
        victim = uni[0]
        for derive, loc in (("unified_dataset", ud_f.loc()), ("sub_problem_from_elements", proj.method(w.D, "sub_problem_from_elements").loc())):
            for mutate_source in (True, False):
                st, d = w.safe("Dataset()", w.dataset, raws)
                for view in ("get_positions", "get_bucket_ids"):
                    w.safe(view, w.call, d, view)
                if derive == "unified_dataset":
                    st, der = w.safe(derive, w.call, d, derive)
                else:
                    st, der = w.safe(derive, w.call, d, derive, {w.element(x) for x in uni})
                probs = []
                if st != "ok":
                    probs.append(f"{derive} raised {der}")
                else:
                    for view in ("get_positions", "get_bucket_ids"):
                        w.safe(view, w.call, der, view)
                    mutated, other = (d, der) if mutate_source else (der, d)
                    before = w.snapshot(other)
                    st2, _r = w.safe("remove_elements", w.call, mutated, "remove_elements", {w.element(victim)})
                    if st2 != "ok":
                        probs.append(f"remove_elements raised {_r}")
                    else:
                        who = "the derived dataset" if mutate_source else "the source dataset"
                        if w.snapshot(other) != before:
                            probs.append(f"{who} changed when the other one was mutated")
                        probs.extend(p_ for p_ in w.dataset_problems(other, who))
                        probs.extend(p_ for p_ in w.dataset_problems(mutated, "the mutated dataset"))
                res.check(not probs, rule, f"Dataset.{derive}:{label}:mutate-{'source' if mutate_source else 'derived'}", loc,
                          ok_detail="the other dataset keeps its rankings, id maps, flags and matrices",
                          bad_detail=(f"start {raws}: {derive}(), then remove_elements({{{victim!r}}}) on the "
                                      f"{'source' if mutate_source else 'derived dataset'}: {'; '.join(probs[:2])}") if probs else "")


def check_flags_many(res: Result, proj: Project, rule: str, max_m: int = 26):
    """Completeness / tie flags and sizes of datasets of m = 1..max_m rankings (complete ones, and the same with one
    element missing from one ranking): the flags must not depend on how many rankings there are."""
    w = World(proj)
    bad = None
    perms = [[{1}, {2}, {3}], [{2}, {3}, {1}], [{3}, {1}, {2}], [{1}, {3}, {2}]]
    # (beyond the small numbers: counts above 256 - python keeps one object per small integer only )
    for m in list(range(1, max_m + 1)) + [100, 257, 300]:
        for variant in ("complete-permutations", "complete-with-ties", "one-element-missing-once"):
            raws = [[set(b) for b in perms[k % len(perms)]] for k in range(m)]
            if variant == "complete-with-ties":
                raws[-1] = [{1, 2}, {3}]
            if variant == "one-element-missing-once":
                if m == 1:
                    continue
                raws[m // 2] = [{1}, {2}]
            st, d = w.safe("Dataset()", w.dataset, raws)
            if st != "ok":
                bad = bad or (m, variant, f"constructor raised {d}")
                continue
            got = (bool(w.call(d, "is_complete")), bool(w.call(d, "without_ties")), w.call(d, "nb_rankings"), w.call(d, "nb_elements"))
            want = (variant != "one-element-missing-once", variant != "complete-with-ties", m, 3)
            if got != want:
                bad = bad or (m, variant, f"(is_complete, without_ties, nb_rankings, nb_elements) = {got}, expected {want}")
    res.check(bad is None, rule, f"Dataset:flags-for-1-to-{max_m}-rankings", proj.method(w.D, "_analyse_rankings").loc(),
              ok_detail=f"flags and sizes correct for every number of rankings from 1 to {max_m} and for 100, 257, 300 (3 variants each)",
              bad_detail=f"{bad[0]} rankings ({bad[1]}): {bad[2]}" if bad else "")


def check_wide(res: Result, proj: Project, rule: str):
    """Matrices of a dataset with many buckets / many elements (130 singleton buckets, a 130-element bucket): the
    entries must hold whatever bucket index occurs (array element types included)."""
    w = World(proj)
    n = 130
    raws = [[{i} for i in range(n)], [{i for i in range(n)}], [{i} for i in reversed(range(n))]]
    st, d = w.safe("Dataset()", w.dataset, raws)
    probs = [f"constructor raised {d}"] if st != "ok" else w.dataset_problems(d, "wide dataset")
    res.check(not probs, rule, "Dataset:130-buckets", proj.method(w.D, "get_bucket_ids").loc(),
              ok_detail="positions / bucket ids of a 130-bucket ranking and a 130-element bucket agree with the rankings",
              bad_detail=f"dataset of {n} singleton buckets, one {n}-element bucket and the reversed order: {'; '.join(p_[:300] for p_ in probs[:2])}")


PROJECTION_DATASETS = [
    [[{1}, {2, 3}, {4}], [{4}, {3}, {2}, {1}], [{2, 1}, {3, 4}], [{3}]],
    [[{1, 3, 5}, {2}, {4}], [{3}, {4, 5}, {1}], [{4}, {1}, {3}]],
    [[{1, 2, 3, 4}], [{5}, {1, 2}, {3}], [], [{4}, {5}]],
    [[{"a", "b"}, {"c"}], [{"c"}, {"a"}], [{"d", "a", "c"}, {"b"}]],
]


def check_projection(res: Result, proj: Project, rule: str, thorough: bool = False):
    """Dataset.sub_problem_from_elements against the definitional projection, for every non-empty subset of the
    universe of several datasets (buckets mixing kept and dropped elements, kept elements spread over all buckets)."""
    import itertools
    w = World(proj)
    pj = proj.method(w.D, "sub_problem_from_elements")
    total = 0
    first = None
    for raws in PROJECTION_DATASETS:
        as_int = all_intlike(raws)
        cur = typed(raws, as_int)
        uni = sorted(set().union(*[b for r in cur for b in r]), key=repr)
        subsets = [set(c) for k in range(1, len(uni) + 1) for c in itertools.combinations(uni, k)]
        if not thorough:
            subsets = subsets[::2] + [set(uni)]
        for keep in subsets:
            for keep_empty in (False, True):
                st, d = w.safe("Dataset()", w.dataset, raws)
                elems = {w.element(v) for _t, v in keep}
                kw = {"keep_empty_rankings": True} if keep_empty else {}
                st, sp = w.safe("sub_problem_from_elements", w.call, d, "sub_problem_from_elements", elems, **kw)
                want = []
                for r in cur:
                    nr = [b & keep for b in r if b & keep]
                    if nr or keep_empty:
                        want.append(nr)
                total += 1
                probs = []
                if st != "ok":
                    probs.append(f"raised {sp}")
                else:
                    if w.raw_dataset(sp) != want:
                        probs.append(f"gives {[[{v for _t, v in b} for b in r] for r in w.raw_dataset(sp)]}, expected "
                                     f"{[[{v for _t, v in b} for b in r] for r in want]}")
                    if want and any(want):
                        probs.extend(w.dataset_problems(sp, "projected dataset"))
                    if w.raw_dataset(d) != cur:
                        probs.append("projection modified the source dataset")
                if probs and first is None:
                    first = (raws, sorted(v for _t, v in keep), keep_empty, probs)
    res.check(first is None, rule, "Dataset.sub_problem_from_elements:all-subsets", pj.loc(),
              ok_detail=f"{total} projections (every kept subset of {len(PROJECTION_DATASETS)} datasets, with and without "
                        f"empty rankings kept): exactly the non-empty intersections, in order",
              bad_detail=(f"dataset {first[0]} projected on {first[1]} (keep_empty_rankings={first[2]}): "
                          f"{'; '.join(first[3][:2])}") if first else "")


def _history_worker(job):
    overlay, label, raws, depth, thorough, seed, chunk = job
    proj = Project(overlay=overlay)
    w = World(proj)
    n_hist = 0
    first_bad = {}
    want0 = typed(raws, all_intlike(raws))

    class _Ctx:
        pass
    ctx = _Ctx()
    ctx.thorough = thorough
    ctx.seed = seed
    universe = sorted({x for r in want0 for b in r for x in b}, key=repr)
    ops = [("remove_empty_rankings", None), ("remove_elements", set(universe)),
           ("remove_elements", {("int", 99)} if all_intlike(raws) else {("str", "zz")})]
    for rate in (0.34, 0.5, 1.0):
        ops.append(("rate", rate))
    for k in (1, 2):
        for sub in itertools.combinations(universe, k):
            ops.append(("remove_elements", set(sub)))
    ops = ops[:14] if not ctx.thorough else ops
    for seq in itertools.product(ops, repeat=depth) if depth <= 2 else _sample_sequences(ops, depth, ctx.seed):
        if ops.index(seq[0]) % 4 != chunk:
            continue
        n_hist += 1
        st, d = w.safe("Dataset()", w.dataset, raws)
        if st != "ok":
            return 0, {}          # reported by the construction obligation
        # read every view once before mutating: a view cached on first use must not survive a mutation
        for view in ("get_positions", "get_bucket_ids", "unified_rankings"):
            w.safe(view, w.call, d, view)
        cur = [[set(b) for b in r] for r in want0]
        hist = []
        for op, arg in seq:
            hist.append((op, arg))
            before = w.snapshot(d)
            if op == "remove_elements":
                elems = {w.element(v) for _t, v in arg}
                st, _ = w.safe("remove_elements", w.call, d, "remove_elements", elems)
                nxt = _project(cur, arg)
            elif op == "rate":
                st, _ = w.safe("rate filter", w.call, d, "remove_elements_rate_presence_lower_than", arg)
                uni = {x for r in cur for b in r for x in b}
                low = {e for e in uni if sum(1 for r in cur if any(e in b for b in r)) / len(cur) < arg}
                nxt = _project(cur, low)
            else:
                st, _ = w.safe("remove_empty_rankings", w.call, d, "remove_empty_rankings")
                nxt = _retype([r for r in cur if r])
            must_refuse = not any(b for r in nxt for b in r)
            key = None
            if st == "raise":
                if _ != "EmptyDatasetException" or not must_refuse:
                    key, detail = "unexpected-refusal", f"raised {_} although the result {nxt} is a valid dataset"
                elif w.snapshot(d) != before:
                    key, detail = "refusal-not-atomic", "EmptyDatasetException raised but the dataset was modified"
                if key is None:
                    continue        # refused atomically: history goes on from the unchanged dataset
            else:
                if must_refuse:
                    key, detail = "empty-result-accepted", f"step accepted although it leaves no element: {w.raw_dataset(d)}"
                else:
                    cur = nxt
                    if w.raw_dataset(d) != cur:
                        key, detail = f"effect-{op}", f"rankings become {w.raw_dataset(d)}, documented effect {cur}"
                    else:
                        probs = w.dataset_problems(d, "after history")
                        if probs:
                            key, detail = f"invariant-after-{op}", probs[0]
            if key is not None:
                first_bad.setdefault(key, f"start {raws} history {hist}: {detail}")
                break
    return n_hist, first_bad


def _sample_sequences(ops, depth, seed):
    import random
    rnd = random.Random(seed)
    seqs = list(itertools.product(ops, repeat=2))
    out = [s + (rnd.choice(ops),) for s in seqs]
    return out


# ---------------------------------------------------------------------------------------------------------------
def _check_frozen(res: Result, proj: Project, ctx):
    rk = proj.cls("corankco.ranking", "Ranking")
    internal = {"_buckets", "_positions"}
    accessors = {"buckets", "positions", "_buckets", "_positions"}
    # (1) assignments to self._buckets / self._positions only in __init__
    bad = []
    for f in rk.methods.values():
        for n in ast.walk(f.node):
            tgts = []
            if isinstance(n, ast.Assign):
                tgts = n.targets
            elif isinstance(n, (ast.AnnAssign, ast.AugAssign)):
                tgts = [n.target]
            for t in tgts:
                if isinstance(t, ast.Attribute) and t.attr in internal and f.name != "__init__":
                    bad.append((f, n))
    res.check(not bad, "U1", "Ranking:internals-assigned-only-in-constructor", rk.module.relpath + f":{rk.node.lineno}",
              ok_detail="_buckets / _positions are bound only in __init__",
              bad_detail=f"{bad[0][0].short} line {bad[0][1].lineno} rebinds a Ranking internal" if bad else "")
    # (2) no mutator anywhere on (an alias of) ranking internals
    cg = ctx.cg
    hits = []
    n_recv = 0
    for f in proj.all_functions():
        if f.cls is rk and f.name == "__init__":
            continue
        env = cg.env(f)
        aliases = _ranking_aliases(f, env)
        for n in ast.walk(f.node):
            recv = None
            what = None
            if isinstance(n, ast.Call) and isinstance(n.func, ast.Attribute) and n.func.attr in MUTATORS:
                recv, what = n.func.value, f".{n.func.attr}()"
            elif isinstance(n, (ast.Assign, ast.AugAssign, ast.AnnAssign, ast.Delete)):
                tg = n.targets if isinstance(n, (ast.Assign, ast.Delete)) else [n.target]
                for t in tg:
                    if isinstance(t, ast.Subscript):
                        recv, what = t.value, "[...] store"
                    elif isinstance(n, ast.AugAssign) and isinstance(t, (ast.Name, ast.Attribute)):
                        recv, what = t, "augmented assignment"
            if recv is None:
                continue
            n_recv += 1
            if _is_ranking_internal(recv, env, aliases, accessors):
                hits.append((f, n, src(recv), what))
    res.check(not hits, "U1", "package:no-mutator-on-ranking-internals", "corankco",
              ok_detail=f"{n_recv} mutating constructs in the package, none applied to a Ranking's bucket list, bucket "
                        f"or position map",
              bad_detail=(f"{hits[0][0].short} ({hits[0][0].loc(hits[0][1])}): {hits[0][3]} on `{hits[0][2]}`, which is "
                          f"(an alias of) a Ranking's internal state") if hits else "")
    res.check(True, "U1", "Ranking:accessors-return-internals", rk.module.relpath,
              "buckets / positions / __iter__ / __getitem__ hand out the internal containers (hence rule U1)", nontrivial=False)


def _ranking_typed(node, env) -> bool:
    t = env.type_of(node)
    return t.cls is not None and t.cls.name == "Ranking" and t.name != "type"


def _ranking_aliases(f, env) -> Set[str]:
    """Local names bound (without a copying constructor) to a Ranking's bucket list / a bucket / the position map."""
    aliases: Set[str] = set()
    changed = True
    while changed:
        changed = False
        for n in ast.walk(f.node):
            pairs = []
            if isinstance(n, ast.Assign) and len(n.targets) == 1:
                pairs.append((n.targets[0], n.value, "val"))
            elif isinstance(n, ast.AnnAssign) and n.value is not None:
                pairs.append((n.target, n.value, "val"))
            elif isinstance(n, (ast.For, ast.comprehension)):
                pairs.append((n.target, n.iter, "iter"))
            for tgt, val, kind in pairs:
                if not isinstance(tgt, ast.Name) or tgt.id in aliases:
                    continue
                if kind == "val" and _is_ranking_internal(val, env, aliases, {"buckets", "positions", "_buckets", "_positions"}):
                    aliases.add(tgt.id)
                    changed = True
                elif kind == "iter" and (_ranking_typed(val, env) or
                                         _is_ranking_internal(val, env, aliases, {"buckets", "_buckets"})):
                    aliases.add(tgt.id)       # a bucket of the ranking
                    changed = True
    return aliases


def _is_ranking_internal(node, env, aliases, accessors) -> bool:
    if isinstance(node, ast.Name):
        return node.id in aliases
    if isinstance(node, ast.Attribute) and node.attr in accessors and _ranking_typed(node.value, env):
        return True
    if isinstance(node, ast.Attribute) and node.attr in ("_buckets", "_positions") and isinstance(node.value, ast.Name) \
            and node.value.id == "self" and env.func.cls is not None and env.func.cls.name == "Ranking":
        return True
    if isinstance(node, ast.Subscript):
        # ranking[i] / ranking.buckets[i] : a bucket
        return _ranking_typed(node.value, env) or _is_ranking_internal(node.value, env, aliases, accessors)
    return False

"""
C01 - Kemeny score equals the generalized pairwise-penalty definition.

The real `KemenyComputingFactory.get_kemeny_score` (merge-sort inversion counting, run-length arithmetic, missing
element prefix sums) is abstractly evaluated on real Ranking / Dataset instances for *every* candidate ranking with
ties over a small universe and every input ranking (with ties, possibly incomplete) over subsets of it.  The two
`vdot` calls are intercepted, which yields the score as a linear form  sum s1[i]*B[i] + sum s2[i]*T[i]  that is
compared - modulo the equalities the scheme constructor enforces (C19/G1) - with the definitional sum over unordered
candidate pairs.  Since the routine sums per-ranking contributions, single-ranking datasets decide the per-ranking
counts; multi-ranking datasets check additivity.

R1  refusal gate: a candidate lacking a dataset element raises the dedicated exception before anything is scored;
    no caller in the package catches it.
R2  count vectors: linear form of the score = definition, for all (candidate, input ranking) pairs of the bound.
R3  role pairing and result: the returned number is vdot(s1, B) + vdot(s2, T) with B / T the scheme's vectors.
R4  additivity over the rankings of a dataset, candidates over a superset of the universe, empty rankings.
"""
from __future__ import annotations

import ast
import itertools
import os
from concurrent.futures import ProcessPoolExecutor
from fractions import Fraction
from typing import Dict, List, Set, Tuple

from ..loader import AnalysisError, Project, src, dotted
from ..report import Result
from ..engines.abseval import Unsupported, AbsRaise, Sym, Lin, Vec
from ..engines.instances import ExternalFunc
from .datamodel import World
from .C07 import ordered_partitions
from . import scheme as S
from .. import spec

B_VALS = [0., 1., 2., 3., 4., 5.]
T_VALS = [6., 6., 0., 7., 7., 8.]


def subsets_rankings(elems: List) -> List[List[Set]]:
    out = [[]]
    for k in range(1, len(elems) + 1):
        for sub in itertools.combinations(elems, k):
            out.extend(ordered_partitions(list(sub)))
    return out


def status(x, y, ranking: List[Set]) -> int:
    px = next((i for i, b in enumerate(ranking) if x in b), None)
    py = next((i for i, b in enumerate(ranking) if y in b), None)
    if px is not None and py is not None:
        return 0 if px < py else (1 if px > py else 2)
    if px is not None:
        return 3
    if py is not None:
        return 4
    return 5


def definitional(candidate: List[Set], rankings: List[List[Set]]) -> Lin:
    pos = {e: i for i, b in enumerate(candidate) for e in b}
    elems = sorted(pos, key=repr)
    tot = Lin()
    for r in rankings:
        for x, y in itertools.combinations(elems, 2):
            if pos[x] < pos[y]:
                tot = tot + Sym("B", (status(x, y, r),))
            elif pos[x] > pos[y]:
                tot = tot + Sym("B", (status(y, x, r),))
            else:
                tot = tot + Sym("T", (status(x, y, r),))
    return tot


def larger_pairs(count: int, seed: int):
    """Deterministic (candidate, [input ranking]) pairs over 6-8 elements: long sorted runs, big tied buckets, many
    missing elements - the shapes that exercise deep merges and long tie runs of the counting routine."""
    import random
    rnd = random.Random(1234 + seed)
    out = []
    for k in range(count):
        n = 6 + k % 3
        deep = k % 5 == 4           # 9-13 elements, input rankings with 9+ buckets: deep recursion / long merges
        if deep:
            n = 9 + (k // 5) % 5
        elems = list(range(1, n + 1))

        def weak(sub, max_buckets):
            sub = list(sub)
            rnd.shuffle(sub)
            nb = rnd.randint(1, max(1, min(max_buckets, len(sub))))
            cuts = sorted(rnd.sample(range(1, len(sub)), nb - 1)) if nb > 1 else []
            parts, prev = [], 0
            for c in cuts + [len(sub)]:
                parts.append(set(sub[prev:c]))
                prev = c
            return [b for b in parts if b]
        cand = weak(elems, rnd.choice((2, 3, n)))
        present = [e for e in elems if rnd.random() < (0.55 if k % 2 else 0.9)] or elems[:1]
        if deep:
            present = [e for e in elems if rnd.random() < 0.95] if k % 2 else elems
            rk = weak(present, n)
            while len(rk) < min(9, len(present)):          # force many buckets
                big = max(rk, key=len)
                if len(big) < 2:
                    break
                x = sorted(big)[0]
                big.discard(x)
                rk.insert(rnd.randint(0, len(rk)), {x})
        else:
            rk = weak(present, rnd.choice((1, 2, 4, n)))
        out.append((cand, [rk]))
    return out


# (initial dataset, [(operation, argument, candidate scored afterwards)])
HISTORIES = [
    ([[{1}, {2}, {3}], [{2}, {1}], [{3}, {4}]],
     [("none", None, [{1}, {2}, {3}, {4}]), ("remove", {4}, [{2}, {1, 3}]), ("none", None, [{3}, {2}, {1}]),
      ("remove", {1}, [{3}, {2}]), ("none", None, [{3}])]),
    ([[{1, 2}, {3}], [{3}, {1}], [{2}], [{4}, {1}]],
     [("none", None, [{4}, {1, 2}, {3}]), ("rate", 0.5, [{3}, {1}]), ("other", [[{5}, {6}], [{6}, {5, 7}]], [{7}, {5}, {6}]),
      ("none", None, [{5}, {6}])]),
    ([[{1}, {2}], [{3}], [{2}, {1}]],
     [("none", None, [{1}, {2}, {3}]), ("remove", {3}, [{1}, {2}]), ("empty", None, [{2}, {1}]),
      ("other", [[{1}, {2}], [{3}], [{2}, {1}]], [{1}, {2}, {3}]), ("none", None, [{1}, {2}])]),
]


class KWorld(World):
    def __init__(self, proj: Project):
        super().__init__(proj)
        self.K = proj.cls("corankco.kemeny_score_computation", "KemenyComputingFactory")
        self.SS = proj.cls("corankco.scoringscheme", "ScoringScheme")
        self.scheme = self.rt.new(self.SS, [[list(B_VALS), list(T_VALS)]], {})
        self.factory = self.rt.new(self.K, [self.scheme], {})
        self.vdots: List[Tuple] = []
        base = self.rt.externals["numpy.vdot"]

        def vdot(args, kw, ev, node):
            a, b = args
            av = a.vals if isinstance(a, Vec) else list(a)
            bv = b.vals if isinstance(b, Vec) else list(b)
            self.vdots.append((list(av), list(bv)))
            return base.abs_call(args, kw, ev, node)
        self.rt.externals["numpy.vdot"] = ExternalFunc(vdot)

    def score_form(self, candidate, rankings, ds=None):
        """('ok', linear form, returned number) | ('raise', name, None)"""
        self.vdots.clear()
        ds = self.dataset(rankings) if ds is None else ds
        c = self.ranking(candidate)
        try:
            ret = self.rt.call_method(self.factory, "get_kemeny_score", c, ds)
        except AbsRaise as r:
            return "raise", r.exc_name.split(".")[-1], None
        except Unsupported as exc:
            raise AnalysisError(f"get_kemeny_score: unsupported construct at line {getattr(exc.node, 'lineno', '?')}: "
                                f"{exc} (candidate {candidate}, rankings {rankings})")
        lin = Lin()
        roles = []
        for counts, pen in self.vdots:
            role = "B" if pen == B_VALS else ("T" if pen == T_VALS else None)
            if role is None and counts in (B_VALS, T_VALS):
                counts, pen = pen, counts
                role = "B" if pen == B_VALS else "T"
            roles.append(role)
            if role is None:
                return "ok", None, ret
            for i, c_ in enumerate(counts):
                lin = lin + Lin.of(Sym(role, (i,))) * (Fraction(c_) if not isinstance(c_, int) else c_)
        if sorted(r for r in roles if r) != ["B", "T"]:
            return "ok", None, ret
        return "ok", lin, ret


def numeric(lin: Lin) -> float:
    v = float(lin.const)
    for s, c in lin.terms.items():
        v += float(c) * (B_VALS if s.name == "B" else T_VALS)[s.idx[0]]
    return v


def _worker(job):
    overlay, pairs = job
    proj = Project(overlay=overlay)
    w = KWorld(proj)
    enforced = S.enforced_constraints(proj)
    bad = []
    for cand, rankings in pairs:
        st, lin, ret = w.score_form(cand, rankings)
        want = definitional(cand, rankings)
        if st != "ok":
            bad.append(("R2", cand, rankings, f"raises {lin}", ""))
            continue
        if lin is None:
            bad.append(("R3", cand, rankings, "the result is not vdot(counts, B) + vdot(counts, T) of the scheme's vectors", ""))
            continue
        if S.normalise_scheme_lin(lin, enforced) != S.normalise_scheme_lin(want, enforced):
            bad.append(("R2", cand, rankings, f"counts give {S.normalise_scheme_lin(lin, enforced)!r}",
                        f"definition {S.normalise_scheme_lin(want, enforced)!r}"))
        elif abs(float(ret) - numeric(lin)) > 1e-9:
            bad.append(("R3", cand, rankings, f"returns {ret}", f"its own count vectors give {numeric(lin)}"))
    return len(pairs), bad[:5]


def run(ctx) -> Result:
    res = Result("C01")
    proj = ctx.proj
    K = proj.cls("corankco.kemeny_score_computation", "KemenyComputingFactory")
    gks = proj.method(K, "get_kemeny_score")
    for m in K.methods.values():
        res.saw(m)
    res.rule("R1", "refusal gate precedes scoring; the exception is not swallowed by callers", 2)
    res.rule("R2", "count vectors = definitional pair statuses for every (candidate, input ranking) of the bound", 1)
    res.rule("R3", "result = vdot(s1, B) + vdot(s2, T) with the scheme's own vectors", 1)
    res.rule("R4", "additivity over rankings; candidates over a superset; empty rankings", 3)
    n = 4 if ctx.thorough else 3
    elems = [1, 2, 3, 4][:n]
    cands = list(ordered_partitions(elems))
    inputs = subsets_rankings(elems)
    pairs = [(c, [r]) for c in cands for r in inputs if r or True]
    # a dataset needs at least one element: drop the single empty ranking
    pairs = [(c, rs) for c, rs in pairs if any(rs[0])]
    if not ctx.thorough:
        # a slice of the 4-element space in the quick tier
        e4 = [1, 2, 3, 4]
        c4 = list(ordered_partitions(e4))[::9]
        i4 = subsets_rankings(e4)[5::11]
        pairs += [(c, [r]) for c in c4 for r in i4 if r]
    pairs += larger_pairs(96 if ctx.thorough else 40, ctx.seed if ctx.thorough else 0)
    chunks = [pairs[i::16] for i in range(16)]
    total = 0
    bads = []
    with ProcessPoolExecutor(max_workers=min(16, os.cpu_count() or 1)) as ex:
        for cnt, bad in ex.map(_worker, [(proj.overlay, c) for c in chunks]):
            total += cnt
            bads.extend(bad)
    for rule in ("R2", "R3"):
        mine = [b for b in bads if b[0] == rule]
        mine.sort(key=lambda b: (len(repr(b[1])) + len(repr(b[2]))))
        res.check(not mine, rule, f"get_kemeny_score:{'count-vectors' if rule == 'R2' else 'result'}", gks.loc(),
                  ok_detail=f"{total} (candidate, input ranking) pairs over <= {n} elements agree",
                  bad_detail=(f"candidate {mine[0][1]} vs input ranking {mine[0][2][0]}: {mine[0][3]}; {mine[0][4]} "
                              f"[{len(mine)}+ failing pairs]") if mine else "")
    res.extra["pairs_evaluated"] = total
    res.explored_threshold = 11        # input rankings with up to 13 buckets are among the larger pairs

    # ------------------------------------------------------------------ R4
    w = KWorld(proj)
    enforced = S.enforced_constraints(proj)
    multi = [
        ([{1}, {2, 3}], [[{1}, {2}], [{3}, {2, 1}], [{2}], []]),
        ([{2}, {1}, {3}], [[{3}, {1}], [{1}, {2}, {3}], [{1, 2, 3}]]),
        ([{1, 2, 3}], [[{1}], [{2}], [{3}]]),
    ]
    bad = None
    for cand, rks in multi:
        st, lin, ret = w.score_form(cand, rks)
        want = definitional(cand, rks)
        if st != "ok" or lin is None or S.normalise_scheme_lin(lin, enforced) != S.normalise_scheme_lin(want, enforced):
            bad = bad or (cand, rks, lin, want)
    res.check(bad is None, "R4", "get_kemeny_score:additive-over-rankings", gks.loc(),
              ok_detail="multi-ranking datasets (with an empty ranking) give the sum of the per-ranking forms",
              bad_detail=f"candidate {bad[0]} dataset {bad[1]}: {bad[2]!r}, definition {bad[3]!r}" if bad else "")
    sup = [([{1}, {9}, {2, 3}], [[{2}, {1}], [{3}]]), ([{7, 1}, {2}], [[{1}, {2}]])]
    bad = None
    for cand, rks in sup:
        st, lin, ret = w.score_form(cand, rks)
        want = definitional(cand, rks)
        if st != "ok" or lin is None or S.normalise_scheme_lin(lin, enforced) != S.normalise_scheme_lin(want, enforced):
            bad = bad or (cand, rks, (st, lin), want)
    res.check(bad is None, "R4", "get_kemeny_score:candidate-over-superset", gks.loc(),
              ok_detail="a candidate with extra elements is scored over all its pairs (extra elements are unranked "
                        "in every input ranking)",
              bad_detail=f"candidate {bad[0]} dataset {bad[1]}: {bad[2]!r}, definition {bad[3]!r}" if bad else "")
    st, lin, ret = w.score_form([{5}], [[{5}]])
    res.check(st == "ok" and ret == 0, "R4", "get_kemeny_score:single-element", gks.loc(),
              ok_detail="a one-element universe scores 0", bad_detail=f"{st} {ret!r}")

    # ------------------------------------------------------------------ R5
    # one factory, a history of calls: the score is a function of the candidate and of what the dataset contains *now*
    hist_bad = None
    steps = 0
    try:
        for start, muts in HISTORIES:
            ds = w.dataset(start)
            for op, arg, cand in muts:
                if op == "remove":
                    w.call(ds, "remove_elements", {w.element(x) for x in arg})
                elif op == "rate":
                    w.call(ds, "remove_elements_rate_presence_lower_than", arg)
                elif op == "empty":
                    w.call(ds, "remove_empty_rankings")
                elif op == "other":
                    ds = w.dataset(arg)
                now = [[{k[1] for k in b} for b in r] for r in w.raw_dataset(ds)]
                st, lin, ret = w.score_form(cand, now, ds=ds)
                steps += 1
                uni = set().union(*[b for r in now for b in r]) if any(now) else set()
                covered = uni <= set().union(*cand) if cand else not uni
                if covered:
                    want = definitional(cand, now)
                    if st != "ok" or lin is None or S.normalise_scheme_lin(lin, enforced) != S.normalise_scheme_lin(want, enforced):
                        hist_bad = hist_bad or (start, op, arg, cand, now, f"{st} {lin!r}", f"definition {S.normalise_scheme_lin(want, enforced)!r}")
                elif not (st == "raise" and lin == "InvalidRankingsForComputingDistance"):
                    hist_bad = hist_bad or (start, op, arg, cand, now, f"{st} {lin!r}", "the candidate lacks an element: refusal expected")
    except Unsupported as exc:
        raise AnalysisError(f"history scenario: unsupported construct at line {getattr(exc.node, 'lineno', '?')}: {exc}")
    res.rule("R5", "one factory over a history of calls (dataset mutated in place, other datasets in between): every "
                   "score is that of the dataset's current content", 1)
    res.check(hist_bad is None, "R5", "get_kemeny_score:history-independent", gks.loc(),
              ok_detail=f"{steps} scorings along {len(HISTORIES)} histories agree with the definition on the current content",
              bad_detail=(f"dataset {hist_bad[0]} after {hist_bad[1]}({hist_bad[2]}) now holds {hist_bad[4]}; candidate "
                          f"{hist_bad[3]}: {hist_bad[5]}; {hist_bad[6]}") if hist_bad else "")

    # ------------------------------------------------------------------ R1
    refused = [([{1}, {2}], [[{1}, {2}, {3}]]), ([{1}], [[{2}]]), ([], [[{1}]]), ([{1, 2}], [[{1}], [{3}, {2}]])]
    bad = None
    for cand, rks in refused:
        st, lin, ret = w.score_form(cand, rks)
        if not (st == "raise" and lin == "InvalidRankingsForComputingDistance" and not w.vdots):
            bad = bad or (cand, rks, st, lin)
    res.check(bad is None, "R1", "get_kemeny_score:incomplete-candidate-refused", gks.loc(),
              ok_detail="InvalidRankingsForComputingDistance, nothing scored",
              bad_detail=f"candidate {bad[0]} lacks an element of {bad[1]}: outcome {bad[2]} {bad[3]!r}" if bad else "")
    # no caller swallows the exception
    cg = ctx.cg
    swallow = []
    callers = cg.callers_of(gks)
    for cs in callers:
        f = cs.caller
        from ..loader import parent
        p = parent(cs.node)
        while p is not None and p is not f.node:
            if isinstance(p, ast.Try):
                swallow.append((f, p))
            p = parent(p)
    res.check(not swallow and len(callers) >= 2, "R1", "callers:exception-not-swallowed", gks.loc(),
              ok_detail=f"{len(callers)} call sites ({', '.join(sorted({c.caller.short for c in callers}))}), none inside "
                        f"a try block",
              bad_detail=f"{swallow[0][0].short} wraps the scoring call in a try block" if swallow else
              f"only {len(callers)} caller(s) resolved")
    res.assumptions.append("the routine adds per-ranking contributions (checked by R4), so single-ranking datasets decide "
                           "the count vectors; behaviour on universes larger than the bound is argued by the order-type "
                           "nature of the counting (bucket ids are only compared), not checked")
    res.not_decided.append("count vectors on universes beyond the explored bound")
    return res

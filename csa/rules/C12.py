"""
C12 - Borda orders elements by mean positional score, per the documented variants.

B1  refusal iff the dataset is incomplete and the scheme is not one of the four accepted families
    (documented exception); complete data is never refused.
B2  unified rankings are used iff the scheme is equivalent to a unifying scheme (p = 1 or 0.5), otherwise the raw
    rankings (unranked elements skipped).
B3  score of an element in a ranking = number of elements strictly before it (bucket index in the bucket-id variant);
    mean over the rankings that count for it.
B4  ascending order of means, tied exactly on equal means.
    B1-B4 are decided together by abstract evaluation of compute_consensus_rankings on small datasets x scheme
    families x both variants, against the definition computed with exact fractions.
B5  the equivalence test reads both penalty vectors (shared obligation C19/G3); the predicate is the disjunction of
    the four equivalences.
"""
from __future__ import annotations

import ast
import itertools
from fractions import Fraction
from typing import Dict, List

from ..loader import AnalysisError, Project, src, dotted
from ..report import Result
from ..engines.abseval import Evaluator, Sym, Obj, Unsupported, AbsRaise

MOD = "corankco.algorithms.borda.borda"

PRESET_TOKENS = {
    ("get_unifying_scoring_scheme", None): "UNI1",
    ("get_unifying_scoring_scheme_p", 1.0): "UNI1",
    ("get_unifying_scoring_scheme_p", 0.5): "UNI05",
    ("get_induced_measure_scoring_scheme", None): "IND1",
    ("get_induced_measure_scoring_scheme_p", 1.0): "IND1",
    ("get_induced_measure_scoring_scheme_p", 0.5): "IND05",
    ("get_pseudodistance_scoring_scheme", None): "PSE1",
    ("get_pseudodistance_scoring_scheme_p", 1.0): "PSE1",
    ("get_pseudodistance_scoring_scheme_p", 0.5): "PSE05",
    ("get_extended_measure_scoring_scheme", None): "EXT",
}


def preset_hooks() -> Dict:
    hooks = {}
    for (name, _p) in PRESET_TOKENS:
        def hook(ev, call, name=name):
            p = None
            if call.args:
                p = float(ev.ev(call.args[0]))
            key = (name, p)
            if key not in PRESET_TOKENS:
                raise Unsupported(f"preset {name}({p}) not tabulated", call)
            return PRESET_TOKENS[key]
        hooks["ScoringScheme." + name] = hook
    return hooks


def groupby_hook(ev, call):
    seq = ev.ev(call.args[0])
    keyf = ev.ev(call.args[1]) if len(call.args) > 1 else (lambda x: x)
    out = []
    for x in seq:
        k = keyf(x)
        if out and out[-1][0] == k:
            out[-1][1].append(x)
        else:
            out.append((k, [x]))
    return out


DATASETS = [
    ("complete-ties", ["a", "b", "c", "d"], [[{"a"}, {"b", "c"}, {"d"}], [{"d"}, {"a"}, {"b"}, {"c"}], [{"b", "a"}, {"c", "d"}]]),
    ("incomplete", ["a", "b", "c", "d"], [[{"a"}, {"b"}], [{"c", "b"}, {"d"}, {"a"}], [{"d"}], [{"b"}, {"c"}]]),
    ("incomplete-big-bucket", ["a", "b", "c", "d", "e"], [[{"a", "b", "c"}, {"d"}], [{"e"}, {"d"}, {"a"}], [{"c"}, {"e", "b"}]]),
    ("equal-means", ["a", "b", "c"], [[{"a"}, {"b"}, {"c"}], [{"c"}, {"b"}, {"a"}]]),
]
UNIFYING = ("UNI1", "UNI05")
RELEVANT = ("UNI1", "UNI05", "IND1", "IND05")


def expected(elems, rankings, kind: str, use_bucket_id: bool):
    complete = all(set().union(*r) == set(elems) if r else False for r in rankings)
    if not complete and kind not in RELEVANT:
        return "raise"
    if kind in UNIFYING:
        rk = []
        for r in rankings:
            dom = set().union(*r) if r else set()
            miss = set(elems) - dom
            rk.append([set(b) for b in r] + ([miss] if miss else []))
    else:
        rk = rankings
    tot: Dict[str, List[int]] = {}
    for r in rk:
        before = 0
        for k, b in enumerate(r):
            for e in b:
                t = tot.setdefault(e, [0, 0])
                t[0] += k if use_bucket_id else before
                t[1] += 1
            before += len(b)
    means = {e: Fraction(t[0], t[1]) for e, t in tot.items()}
    out = []
    for m in sorted(set(means.values())):
        out.append({e for e, v in means.items() if v == m})
    return out


KIND_TABLES = {
    "UNI1": [[0., 1., 1., 0., 1., 1.], [1., 1., 0., 1., 1., 0.]],
    "UNI05": [[0., 1., .5, 0., 1., .5], [.5, .5, 0., .5, .5, 0.]],
    "IND1": [[0., 1., 1., 0., 0., 0.], [1., 1., 0., 0., 0., 0.]],
    "IND05": [[0., 1., .5, 0., 0., 0.], [.5, .5, 0., 0., 0., 0.]],
    "PSE1": [[0., 1., 1., 0., 1., 0.], [1., 1., 0., 1., 1., 0.]],
    "PSE05": [[0., 1., .5, 0., 1., 0.], [.5, .5, 0., .5, .5, 0.]],
    "EXT": [[0., 1., 0., 0., 0., 0.], [1., 1., 0., 1., 1., 1.]],
}
_WORLD = {}


def eval_borda(proj: Project, elems, rankings, kind: str, use_bucket_id: bool):
    """The real BordaCount on a real Dataset under a real scheme of the given family (also a multiple of it)."""
    from .datamodel import World
    if id(proj) not in _WORLD:
        _WORLD.clear()
        w_ = World(proj)
        w_.rt.funcs["print"] = lambda ev, call: None
        _WORLD[id(proj)] = w_
    w = _WORLD[id(proj)]
    cls = proj.cls(MOD, "BordaCount")
    SS = proj.cls("corankco.scoringscheme", "ScoringScheme")
    comp = proj.method(cls, "compute_consensus_rankings")
    log = {"unified_used": None}
    tbl = KIND_TABLES[kind]
    ds = w.dataset(rankings)
    sch = w.rt.new(SS, [[list(tbl[0]), list(tbl[1])]], {})
    alg = w.rt.new(cls, [], {"use_bucket_id": True} if use_bucket_id else {})
    captured: Dict = {}
    try:
        c = w.rt.call_method(alg, "compute_consensus_rankings", ds, sch, True)
    except AbsRaise as r:
        return ("raise", r.exc_name.split(".")[-1]), captured, log
    except Unsupported as exc:
        raise AnalysisError(f"{comp.qualname}: unsupported construct line {getattr(exc.node, 'lineno', '?')}: {exc}")
    rks = c.attrs.get("_consensus_rankings")
    if isinstance(rks, list):
        captured["consensus_rankings"] = [("Ranking", [{e.attrs["_value"] for e in b} for b in r.attrs["_buckets"]]) for r in rks]
    return ("ok", None), captured, log


def run(ctx) -> Result:
    res = Result("C12")
    proj = ctx.proj
    cls = proj.cls(MOD, "BordaCount")
    comp = proj.method(cls, "compute_consensus_rankings")
    pred = proj.method(cls, "is_scoring_scheme_relevant_when_incomplete_rankings")
    res.saw(comp, pred)
    res.rule("B1", "refusal iff incomplete and scheme outside the four accepted families", 4)
    res.rule("B2-B4", "consensus = elements by increasing mean score (definition computed with exact fractions), "
                      "unified iff unifying scheme, per variant", 8)
    res.rule("B5", "equivalence test reads both penalty vectors (shared with C19/G3); predicate = four equivalences", 5)
    kinds = ["UNI1", "UNI05", "IND1", "IND05", "PSE1", "EXT"]
    for label, elems, rankings in DATASETS:
        for ubi in (False, True):
            bad = None
            bad_ref = None
            for kind in kinds:
                want = expected(elems, rankings, kind, ubi)
                st, cap, log = eval_borda(proj, elems, rankings, kind, ubi)
                if want == "raise":
                    if not (st[0] == "raise" and st[1] == "ScoringSchemeNotHandledException") and bad_ref is None:
                        bad_ref = (kind, st)
                    continue
                if st[0] == "raise":
                    if bad_ref is None:
                        bad_ref = (kind, st)
                    continue
                got = cap.get("consensus_rankings")
                rk = got[0][1] if isinstance(got, list) and len(got) == 1 and isinstance(got[0], tuple) else None
                if rk != want and bad is None:
                    bad = (kind, rk, want, log["unified_used"])
            res.check(bad_ref is None, "B1", f"BordaCount:refusal:{label}:bucket_id={ubi}", comp.loc(),
                      ok_detail="refused with ScoringSchemeNotHandledException exactly for incomplete data under a "
                                "scheme outside the accepted families",
                      bad_detail=f"scheme family {bad_ref[0]}: outcome {bad_ref[1]!r}" if bad_ref else "")
            res.check(bad is None, "B2-B4", f"BordaCount:order:{label}:bucket_id={ubi}", comp.loc(),
                      ok_detail=f"{len(kinds)} scheme families agree with the mean-score definition",
                      bad_detail=(f"scheme family {bad[0]} on {rankings}: consensus {bad[1]!r}, definition {bad[2]!r} "
                                  f"(unified rankings used: {bad[3]})") if bad else "")
    # B5: the predicate is exactly the disjunction of the four accepted equivalences (real instances, multiples too)
    from .datamodel import World
    w = World(proj)
    SS = proj.cls("corankco.scoringscheme", "ScoringScheme")
    alg = w.rt.new(cls, [], {})
    for kind in kinds:
        bad = None
        for factor in (1.0, 3.0, 0.25):
            tbl = [[x * factor for x in KIND_TABLES[kind][0]], [x * factor for x in KIND_TABLES[kind][1]]]
            sch = w.rt.new(SS, [[tbl[0], tbl[1]]], {})
            st, got = w.safe("predicate", w.call, alg, "is_scoring_scheme_relevant_when_incomplete_rankings", sch)
            if st != "ok" or bool(got) != (kind in RELEVANT):
                bad = bad or (factor, got)
        res.check(bad is None, "B5", f"BordaCount.predicate:{kind}", pred.loc(),
                  ok_detail=f"{kind} (and its multiples): {kind in RELEVANT}",
                  bad_detail=f"predicate says {bad[1]!r} for {bad[0]} x family {kind}" if bad else "")
    from . import C19
    C19.check_equivalence(res, proj, False, "B5")
    res.not_decided.append("that equal means compare equal in floating point (IEEE division is correctly rounded; argued)")
    if not res.violations:      # the end-to-end pass adds nothing to an established violation (and may not terminate on it)
        from . import e2e
        e2e.check(res, ctx.proj, "C12", ctx.thorough)
    return res

"""
Engine G - ILP model extraction and triple-local model check (serves C05, C04/S4, C06, C03).

The real model builders (PuLP and CPLEX back-ends) are abstractly evaluated on a small universe with *mock* solver
objects supplied by the rule: the mock records the model (variables, objective coefficients, constraints, senses,
right-hand sides) and answers `solve` with an assignment chosen by the rule.  The recorded model is then checked
inside the analyser: its feasible 0/1 assignments over a 3-element (thorough: 4-element) universe must be exactly
the assignments induced by the rankings with ties of the universe (a constraint of the schema mentions at most three
elements, so agreement on every triple is agreement for every n).  No solver and no repository code is executed.
"""
from __future__ import annotations

import itertools
from typing import Any, Dict, List, Optional, Set, Tuple

from ..loader import AnalysisError, Project
from ..engines.abseval import Evaluator, Obj, Sym, Lin, Unsupported, AbsRaise, Mat
from ..engines.instances import Runtime, Instance, ExternalFunc
from ..engines.stdlib import install
from .pairwise import Cube, GraphObj

ALG = "corankco.algorithms"


class Mock(Obj):
    """Recording stand-in for an external object graph (cplex.Cplex(), pulp.*)."""

    def __init__(self, path: str, log: List, results: Dict[str, Any]):
        super().__init__("mock:" + path)
        self.path = path
        self.log = log
        self.results = results
        self.children: Dict[str, "Mock"] = {}

    def abs_getattr(self, name, ev, node):
        p = f"{self.path}.{name}"
        if p in self.results and not callable(self.results[p]):
            return self.results[p]
        if name not in self.children:
            self.children[name] = Mock(p, self.log, self.results)
        return self.children[name]

    def abs_call(self, args, kw, ev, node):
        self.log.append((self.path, list(args), dict(kw)))
        r = self.results.get(self.path + "()")
        if callable(r):
            return r(args, kw)
        if r is not None:
            return r
        return Mock(self.path + "()", self.log, self.results)

    def abs_callmethod(self, name, args, kw, ev, node):
        return self.abs_getattr(name, ev, node).abs_call(args, kw, ev, node)

    def abs_setattr(self, name, value, ev, node):
        self.results[f"{self.path}.{name}"] = value


class Constraint:
    def __init__(self, lin: Lin, sense: str, rhs):
        self.lin = lin      # left - right as linear form over PVar symbols (constant moved to rhs)
        self.sense = sense  # 'E' | 'L' | 'G'
        self.rhs = rhs

    def holds(self, assign: Dict[str, int]) -> bool:
        v = 0
        for s, c in self.lin.terms.items():
            v += c * assign[s.idx[0]]
        if self.sense == "E":
            return abs(v - self.rhs) < 1e-9
        if self.sense == "L":
            return v <= self.rhs + 1e-9
        return v >= self.rhs - 1e-9

    def key(self):
        return (tuple(sorted((s.idx[0], float(c)) for s, c in self.lin.terms.items())), self.sense, float(self.rhs))

    def __repr__(self):
        return f"{self.lin!r} {self.sense} {self.rhs}"


class Model:
    def __init__(self):
        self.var_names: List[str] = []
        self.obj: Dict[str, Any] = {}
        self.constraints: List[Constraint] = []
        self.problems: List[str] = []

    def feasible(self) -> List[Dict[str, int]]:
        out = []
        names = self.var_names
        for bits in itertools.product((0, 1), repeat=len(names)):
            a = dict(zip(names, bits))
            if all(c.holds(a) for c in self.constraints):
                out.append(a)
        return out


def weak_order_assignment(order: List[int]) -> Dict[str, int]:
    """0/1 values of x_i_j / t_i_j (i<j) for the ranking with ties given by bucket ids."""
    n = len(order)
    a = {}
    for i in range(n):
        for j in range(n):
            if i != j:
                a[f"x_{i}_{j}"] = 1 if order[i] < order[j] else 0
            if i < j:
                a[f"t_{i}_{j}"] = 1 if order[i] == order[j] else 0
    return a


def all_weak_orders(n: int) -> List[List[int]]:
    from .bioc import dense_vectors
    return list(dense_vectors(n))


def cost_cube(n: int) -> Cube:
    """Distinct, recognisable cost per (i, j, slot) with the mirror property of the real table."""
    data = [[[0.0, 0.0, 0.0] for _ in range(n)] for _ in range(n)]
    for i in range(n):
        for j in range(i + 1, n):
            b, a, t = 1000 + 100 * i + 10 * j, 2000 + 100 * i + 10 * j, 3000 + 100 * i + 10 * j
            data[i][j] = [float(b), float(a), float(t)]
            data[j][i] = [float(a), float(b), float(t)]
    return Cube(data)


def expected_obj(cube: Cube) -> Dict[str, float]:
    n = cube.n
    out = {}
    for i in range(n):
        for j in range(n):
            if i != j:
                out[f"x_{i}_{j}"] = cube.data[i][j][0]
            if i < j:
                out[f"t_{i}_{j}"] = cube.data[i][j][2]
    return out


class ExactWorld:
    """Runtime with mocked solvers, a scripted cost matrix and a scripted graph."""

    def __init__(self, proj: Project, cplex_present: bool = True):
        self.proj = proj
        self.rt = install(Runtime(proj))
        self.rt.funcs["print"] = lambda ev, call: None
        if not cplex_present:
            self.rt.externals["!absent:cplex"] = True
        self.log: List = []
        self.results: Dict[str, Any] = {}
        self.cplex = Mock("cplex", self.log, self.results)
        self.rt.externals["cplex"] = self.cplex
        self.D = proj.cls("corankco.dataset", "Dataset")
        self.R = proj.cls("corankco.ranking", "Ranking")
        self.E = proj.cls("corankco.element", "Element")
        self.SS = proj.cls("corankco.scoringscheme", "ScoringScheme")
        self.cube: Optional[Cube] = None
        self.sccs: Optional[List[List[int]]] = None
        self.sub_cubes: List[Cube] = []
        self.pcm_calls: List = []
        self.graph_calls: List = []
        pba = proj.cls(f"{ALG}.pairwisebasedalgorithm", "PairwiseBasedAlgorithm")
        self.pba = pba

        def pcm(args, kw):
            self.pcm_calls.append(args)
            pos = args[0]
            n = len(pos.rows) if isinstance(pos, Mat) else None
            if self.cube is not None and (n is None or n == self.cube.n):
                return self.cube
            return cost_cube(n)
        self.rt.overrides[proj.method(pba, "pairwise_cost_matrix").qualname] = pcm

        def goe(args, kw):
            self.graph_calls.append(args)
            g = chain_graph(self.sccs)
            pos = args[0]
            n = len(pos.rows) if isinstance(pos, Mat) else None
            cube = self.cube if (self.cube is not None and (n is None or n == self.cube.n)) else cost_cube(n)
            return (g, cube)
        self.rt.overrides[proj.method(pba, "graph_of_elements").qualname] = goe

    def dataset(self, raws) -> Instance:
        return self.rt.new(self.D, [[self.rt.new(self.R, [[set(b) for b in r]], {}) for r in raws]], {})

    def scheme(self) -> Instance:
        return self.rt.new(self.SS, [[[0., 1., 1., 0., 1., 1.], [1., 1., 0., 1., 1., 0.]]], {})

    # ---- CPLEX ----------------------------------------------------------------------------------------------
    def cplex_models(self) -> List[Model]:
        """Models handed to the mock: one per `linear_constraints.add` call."""
        models = []
        cur_vars = None
        for path, args, kw in self.log:
            if path.endswith(".variables.add"):
                cur_vars = kw
            if path.endswith(".linear_constraints.add"):
                m = Model()
                if cur_vars is None:
                    m.problems.append("constraints added before any variable")
                    models.append(m)
                    continue
                names = list(cur_vars.get("names", []))
                m.var_names = names
                objs = list(cur_vars.get("obj", []))
                if len(objs) != len(names):
                    m.problems.append(f"{len(objs)} objective coefficients for {len(names)} variables")
                m.obj = dict(zip(names, objs))
                types = cur_vars.get("types", "")
                if types != "B" * len(names):
                    m.problems.append(f"variable types {types!r} are not all binary")
                if list(cur_vars.get("lb", [])) != [0.0] * len(names) or list(cur_vars.get("ub", [])) != [1.0] * len(names):
                    m.problems.append("variable bounds are not [0, 1]")
                rows, senses, rhs = kw.get("lin_expr", []), kw.get("senses", ""), kw.get("rhs", [])
                if not (len(rows) == len(senses) == len(rhs)):
                    m.problems.append(f"{len(rows)} rows, {len(senses)} senses, {len(rhs)} right-hand sides")
                for row, s, r in zip(rows, senses, rhs):
                    lin = Lin()
                    for nm, c in zip(row[0], row[1]):
                        if nm not in names:
                            m.problems.append(f"constraint mentions unknown variable {nm}")
                        lin = lin + Lin.of(Sym("v", (nm,))) * c
                    m.constraints.append(Constraint(lin, s, r))
                models.append(m)
        return models

    def script_cplex_solution(self, assignment_for):
        """assignment_for(names) -> list of values, used for solve() / pool."""
        def last_names():
            for path, args, kw in reversed(self.log):
                if path.endswith(".variables.add"):
                    return list(kw.get("names", []))
            return []
        self.results["cplex.Cplex().solution.get_values()"] = lambda a, k: assignment_for(last_names(), None)
        self.results["cplex.Cplex().solution.pool.get_num()"] = lambda a, k: assignment_for(last_names(), "num")
        self.results["cplex.Cplex().solution.pool.get_values()"] = lambda a, k: assignment_for(last_names(), a[0])


# ---- PuLP ---------------------------------------------------------------------------------------------------------
class PVar(Sym):
    """A PuLP variable: a symbol for linear arithmetic, with .name and .value()."""
    values: Dict[str, float] = {}

    def __init__(self, name: str, store: Dict[str, float]):
        super().__init__("v", (name,))
        self._store = store
        self.methods = {}

    def abs_getattr(self, attr, ev, node):
        if attr == "name":
            return self.idx[0]
        if attr == "varValue":
            return self._store.get(self.idx[0])
        raise Unsupported(f"attribute {attr} of a PuLP variable", node)

    def abs_callmethod(self, name, args, kw, ev, node):
        if name == "value":
            return self._store.get(self.idx[0])
        raise Unsupported(f"method {name} of a PuLP variable", node)


class PulpProblem(Obj):
    def __init__(self, world: "PulpWorld", args):
        super().__init__("LpProblem")
        self.world = world
        self.model = Model()
        self.objective_lin: Optional[Lin] = None
        self.sense = args[1] if len(args) > 1 else None
        self.solved_with = None
        self.attrs = {}
        self.methods = {"solve": self._solve, "variables": self._variables}

    def _variables(self, ev, call, args, kw):
        """PuLP returns the variables of the objective and the constraints *sorted by name* (x_10_2 before x_2_0)."""
        names = set()
        if self.objective_lin is not None:
            names |= {t.idx[0] for t in self.objective_lin.terms}
        for c in self.model.constraints:
            names |= {t.idx[0] for t in c.lin.terms}
        return [PVar(nm, self.world.values) for nm in sorted(names)]

    def abs_iadd(self, value, ev, node):
        if isinstance(value, Constraint):
            self.model.constraints.append(value)
        elif isinstance(value, (Lin, Sym, int, float)):
            if self.objective_lin is not None:
                self.model.problems.append("objective set twice")
            self.objective_lin = Lin.of(value)
        else:
            raise Unsupported(f"`prob += {value!r}`", node)

    def _solve(self, ev, call, args, kw):
        self.solved_with = args
        self.world.solve(self)
        return 1

    def abs_getattr(self, name, ev, node):
        if name == "objective":
            prob = self
            return Obj("objective", methods={"value": lambda ev2, c2, a2, k2: prob.world.objective_value(prob)})
        if name in self.methods:
            return None
        raise Unsupported(f"attribute {name} of LpProblem", node)


def chain_graph(sccs):
    """A graph whose strongly connected components are exactly `sccs`, in that (then unique) topological order: a cycle
    inside each component, one arc from each component to the next."""
    from ..engines.npmodel import GraphObj
    g = GraphObj()
    g.directed = True
    n = sum(len(s) for s in sccs)
    g.vertices = [str(i) for i in range(n)]
    for k, scc in enumerate(sccs):
        scc = list(scc)
        if len(scc) > 1:
            for a, b in zip(scc, scc[1:] + scc[:1]):
                g.edges.append((a, b))
        if k + 1 < len(sccs):
            g.edges.append((scc[0], list(sccs[k + 1])[0]))
    got = g.components().clusters
    assert got == [sorted(s) for s in sccs], (got, sccs)
    return g


class PulpWorld(ExactWorld):
    def __init__(self, proj: Project):
        super().__init__(proj, cplex_present=False)
        self.values: Dict[str, float] = {}
        self.problems: List[PulpProblem] = []
        self.assignment_for = None
        self.objective_result = "computed"
        ex = self.rt.externals

        def lpvar(args, kw, ev, node):
            name = args[0]
            ok = (len(args) >= 3 and args[1] == 0 and args[2] == 1) or (kw.get("lowBound") == 0 and kw.get("upBound") == 1)
            cat = kw.get("cat", args[3] if len(args) > 3 else None)
            if not ok or cat not in ("Binary", "Integer"):
                self.decl_problems.append(f"variable {name} declared with bounds {args[1:3]} cat={cat}")
            self.declared.append(name)
            return PVar(name, self.values)
        self.declared: List[str] = []
        self.decl_problems: List[str] = []
        ex["pulp.LpVariable"] = ExternalFunc(lpvar)

        def lpproblem(args, kw, ev, node):
            p = PulpProblem(self, args)
            self.problems.append(p)
            return p
        ex["pulp.LpProblem"] = ExternalFunc(lpproblem)
        ex["pulp.LpMinimize"] = "MINIMIZE"
        ex["pulp.LpMaximize"] = "MAXIMIZE"

        def lpsum(args, kw, ev, node):
            tot = Lin()
            for x in args[0]:
                tot = tot + Lin.of(x)
            return tot
        ex["pulp.lpSum"] = ExternalFunc(lpsum)
        ex["pulp.PULP_CBC_CMD"] = ExternalFunc(lambda a, k, ev, node: "CBC")

        def sym_compare(left, op, right, node):
            import ast as _ast
            d = left - right
            sense = {_ast.Eq: "E", _ast.LtE: "L", _ast.GtE: "G"}.get(type(op))
            if sense is None:
                raise Unsupported(f"constraint operator {type(op).__name__}", node)
            c = Constraint(Lin(d.terms, 0), sense, -d.const)
            return c
        self.sym_compare = sym_compare

    def solve(self, prob: PulpProblem):
        self.values.clear()
        if self.assignment_for is not None:
            self.values.update(self.assignment_for(self.declared))

    def objective_value(self, prob: PulpProblem):
        if self.objective_result == "none":
            return None
        if prob.objective_lin is None:
            return None
        v = prob.objective_lin.const
        for s, c in prob.objective_lin.terms.items():
            v += c * self.values.get(s.idx[0], 0)
        return v

    def run_compute(self, inst: Instance, ds: Instance, scheme, *args):
        comp = self.proj.lookup_method(inst.cls, "compute_consensus_rankings")
        ev = self.rt.evaluator(comp.module)
        ev.sym_compare = self.sym_compare
        comp.node._csa_module = comp.module
        comp.node._csa_cls = comp.cls
        return ev.call_user(comp.node, [inst, ds, scheme] + list(args))

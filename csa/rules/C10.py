"""
C10 - PickAPerm returns exactly the best input rankings.

K1  guard: refusal iff the dataset is incomplete and the scheme is not equivalent to the unifying scheme; candidates
    are the unified rankings when incomplete, the rankings themselves when complete.
K2  argmin scan: abstract evaluation of compute_consensus_rankings over the 13 weak orderings of three candidate
    scores (plus a 4-candidate profile), both values of return_at_most_one_ranking: returned rankings are exactly
    the minimal candidates (one of them when at most one is requested).
K3  every candidate is scored against the caller's dataset with the caller's scheme; the reported score is the
    minimum; the Consensus carries the caller's dataset and scheme.
K4  the equivalence test the guard relies on reads both penalty vectors (shared obligation C19/G3).
K5  unified candidates: Dataset.unified_rankings appends exactly the missing elements as one last bucket of a new
    Ranking (abstract evaluation on small datasets).
"""
from __future__ import annotations

import ast
from typing import Dict, List

from ..loader import AnalysisError, Project, src, dotted
from ..report import Result
from ..engines.abseval import Evaluator, Sym, Obj, Unsupported, AbsRaise
from .. import spec

MOD = "corankco.algorithms.pickaperm.pickaperm"


_SHARED = {}


def _runtime(proj: Project):
    """One runtime and ONE PickAPerm instance per project: worlds are evaluated on the same algorithm object, as a user
    re-using an instance would (state kept on the instance between calls would show)."""
    key = id(proj)
    if key not in _SHARED:
        from ..engines.instances import Runtime
        from ..engines.stdlib import install
        rt = install(Runtime(proj))
        rt.funcs["print"] = lambda ev, call: None
        cls = proj.cls(MOD, "PickAPerm")
        _SHARED.clear()
        _SHARED[key] = (rt, rt.new(cls, [], {}))
    return _SHARED[key]


def _feature(att, member: str):
    for k, v in (att or {}).items():
        if getattr(k, "member", None) == member or str(k).endswith(member):
            return v
    return None


def _candidates(n: int, complete: bool):
    """n distinct rankings over 1..4 (rotations / tie variants); when incomplete the first one lacks an element."""
    base = [[{1}, {2}, {3}, {4}], [{2}, {3}, {4}, {1}], [{3}, {4}, {1}, {2}], [{4}, {1}, {2}, {3}], [{1, 2}, {3, 4}]]
    raws = [[set(b) for b in r] for r in base[:n]]
    if not complete:
        raws[0] = [{1}, {2}, {3}]
    return raws


def _key(r) -> tuple:
    return tuple(frozenset(e.attrs["_value"] for e in b) for b in r.attrs["_buckets"])


def _world(proj: Project, comp, scores: List[float], complete: bool, equiv: bool, at_most_one: bool, raws=None):
    """PickAPerm's real entry point on a real Dataset of len(scores) distinct rankings; only the scorer is scripted
    (candidate i scores scores[i]) so that every weak ordering of candidate scores can be realised, and the scheme's
    equivalence test answers `equiv`. Candidates are named R<i> (complete) / U<i> (unified, incomplete)."""
    from .datamodel import World
    n = len(scores)
    log = {"scored": [], "equiv_args": [], "scheme_for_factory": [], "foreign": []}
    rt, me = _runtime(proj)
    raws = _candidates(n, complete) if raws is None else raws
    R = proj.cls("corankco.ranking", "Ranking")
    D = proj.cls("corankco.dataset", "Dataset")
    ds = rt.new(D, [[rt.new(R, [[set(b) for b in r]], {}) for r in raws]], {})
    pre = "R" if complete else "U"
    uni = {x for r in raws for b in r for x in b}
    names = {}
    for i, r in enumerate(raws):
        miss = uni - set().union(*r)
        names.setdefault(tuple(frozenset(b) for b in r) + ((frozenset(miss),) if (miss and not complete) else ()), f"{pre}{i}")

    def name_of(r):
        try:
            return names.get(_key(r), f"<foreign ranking {_key(r)}>")
        except Exception:
            return repr(r)

    def is_eq(ev, call, a, kw):
        log["equiv_args"].append(a)
        return equiv
    scheme = Obj("SCHEME", methods={"is_equivalent_to": is_eq})

    def factory(ev, call):
        a = [ev.ev(x) for x in call.args]
        log["scheme_for_factory"].append(a)

        def gks(ev2, c2, a2, k2):
            nm = name_of(a2[0]) if a2 else "?"
            log["scored"].append([nm] + list(a2[1:]))
            if not (nm[:1] == pre and nm[1:].isdigit()):
                log["foreign"].append(nm)       # neither an input ranking (complete) nor a unified one (incomplete)
                return 0.0
            return scores[int(nm[1:])]
        return Obj("KCF", methods={"get_kemeny_score": gks})
    captured: Dict = {}

    def consensus(ev, call):
        argn = ["consensus_rankings", "dataset", "scoring_scheme", "att"]
        kw = {k.arg: ev.ev(k.value) for k in call.keywords}
        for i, a in enumerate(call.args):
            kw[argn[i]] = ev.ev(a)
        if isinstance(kw.get("consensus_rankings"), list):
            kw["consensus_rankings"] = [name_of(r) for r in kw["consensus_rankings"]]
        captured.update(kw)
        return "CONSENSUS"
    rt.funcs["KemenyComputingFactory"] = factory
    rt.funcs["Consensus"] = consensus
    rt.funcs["ScoringScheme.get_unifying_scoring_scheme"] = lambda ev, call: "UNIFYING"
    try:
        ret = rt.invoke(comp, [me, ds, scheme, at_most_one], {}, None)
    except AbsRaise as r:
        return ("raise", r.exc_name.split(".")[-1]), captured, log, ds, scheme
    except Unsupported as exc:
        raise AnalysisError(f"{comp.qualname}: unsupported construct line {getattr(exc.node, 'lineno', '?')}: {exc}")
    finally:
        for k in ("KemenyComputingFactory", "Consensus", "ScoringScheme.get_unifying_scoring_scheme"):
            rt.funcs.pop(k, None)
    return ("ok", ret), captured, log, ds, scheme


def check_scan(res: Result, proj: Project, rule: str = "K2"):
    cls = proj.cls(MOD, "PickAPerm")
    comp = proj.method(cls, "compute_consensus_rankings")
    res.saw(comp)
    profiles = [list(map(float, p)) for p in spec.WEAK_ORDERS_3] + [[3.0, 1.0, 1.0, 2.0], [4.0], [2.0, 5.0, 2.0, 7.0, 2.0]]
    # scores are real numbers (non-integer penalties, small or large units): values inside one unit interval, below any
    # fixed tolerance, and large values that differ by less than their rounding to few digits
    profiles += [[1.5, 1.0, 1.25], [2.5, 2.0], [0.75, 0.5, 0.75, 0.25], [2e-9, 1e-9, 2e-9], [1e12 + 0.5, 1e12, 1e12 + 0.5],
                 [0.0, 0.0], [0.5, 0.0, 0.0]]
    bad = None
    bad_ctx = None
    n = 0
    for prof in profiles:
        for amo in (True, False):
            for complete in (True, False):
                n += 1
                st, cap, log, ds, scheme = _world(proj, comp, prof, complete, True, amo)
                pre = "R" if complete else "U"
                minimal = [f"{pre}{i}" for i, s in enumerate(prof) if s == min(prof)]
                got = cap.get("consensus_rankings")
                att = cap.get("att") or {}
                if amo:
                    ok = isinstance(got, list) and len(got) == 1 and got[0] in minimal
                else:
                    ok = isinstance(got, list) and sorted(got) == sorted(minimal)
                ok = ok and st == ("ok", "CONSENSUS") and _feature(att, "KEMENY_SCORE") == min(prof) and not log["foreign"]
                if not ok and bad is None:
                    bad = (prof, amo, complete, got, _feature(att, "KEMENY_SCORE"), minimal)
                ctx_ok = cap.get("dataset") is ds and cap.get("scoring_scheme") is scheme \
                    and all(len(a) == 2 and a[1] is ds for a in log["scored"]) \
                    and all(len(a) == 1 and a[0] is scheme for a in log["scheme_for_factory"]) \
                    and sorted(a[0] for a in log["scored"]) == sorted(f"{pre}{i}" for i in range(len(prof)))
                if not ctx_ok and bad_ctx is None:
                    bad_ctx = (prof, complete, log["scored"], log["scheme_for_factory"], cap.get("dataset"))
    res.check(bad is None, rule, "PickAPerm.compute_consensus_rankings:argmin-scan", comp.loc(),
              ok_detail=f"{n} worlds: returns exactly the minimal candidates (one when at most one is asked) and "
                        f"reports their score",
              bad_detail=(f"candidate scores {bad[0]} at_most_one={bad[1]} complete={bad[2]}: returned {bad[3]!r} with "
                          f"reported score {bad[4]!r}; minimal candidates are {bad[5]}") if bad else "")
    res.check(bad_ctx is None, "K3" if rule == "K2" else rule, "PickAPerm.compute_consensus_rankings:scored-against-caller",
              comp.loc(), ok_detail="every candidate scored once against the caller's dataset under the caller's scheme",
              bad_detail=(f"scores {bad_ctx[0]} complete={bad_ctx[1]}: scoring calls {bad_ctx[2]!r}, factory args "
                          f"{bad_ctx[3]!r}, Consensus dataset {bad_ctx[4]!r}") if bad_ctx else "")


def _check_long(res: Result, proj: Project, comp):
    """Long rankings (1003 elements) that differ only in the middle, one of them twice: whatever the code uses to
    recognise a ranking it has already scored must tell them apart (the text numpy gives of an array of more than 1000
    items drops its middle, see engines/abseval.render_array)."""
    n = 1003
    first = [{i} for i in range(n)]
    second = [{i} for i in range(n)]
    second[n // 2], second[n // 2 + 1] = second[n // 2 + 1], second[n // 2]
    raws = [first, second, [set(b) for b in second]]
    # scripted scores of the distinct candidates: `second` (R1, listed twice) is strictly better than `first` (R0)
    scores = [2.0, 1.0, 1.0]
    bad = None
    for amo in (True, False):
        st, cap, log, ds, scheme = _world(proj, comp, scores, True, True, amo, raws=raws)
        got = cap.get("consensus_rankings")
        want = ["R1"] if amo else ["R1", "R1"]
        rep = _feature(cap.get("att") or {}, "KEMENY_SCORE")
        if st != ("ok", "CONSENSUS") or got != want or rep != 1.0 or log["foreign"]:
            bad = bad or (amo, st, got, rep, want)
    res.rule("K6", "candidates are told apart whatever their length (1003-element rankings differing in the middle)", 1)
    res.check(bad is None, "K6", "PickAPerm.compute_consensus_rankings:long-rankings", comp.loc(),
              ok_detail="two 1003-element rankings differing at positions 501/502 keep their own scores; the best one (present "
                        "twice) is returned",
              bad_detail=(f"at_most_one={bad[0]}: rankings R0 (score 2) and R1 = R0 with positions 501/502 swapped (score 1, "
                          f"present twice): outcome {bad[1]!r}, returned {bad[2]!r} with reported score {bad[3]!r}; expected "
                          f"{bad[4]} with score 1.0") if bad else "")


def run(ctx) -> Result:
    res = Result("C10")
    proj = ctx.proj
    cls = proj.cls(MOD, "PickAPerm")
    comp = proj.method(cls, "compute_consensus_rankings")
    res.rule("K1", "refusal iff incomplete and not equivalent to the unifying scheme; candidate list choice", 4)
    res.rule("K2", "argmin scan over all weak orderings of candidate scores", 1)
    res.rule("K3", "candidates scored against the caller's dataset and scheme; Consensus carries them", 1)
    res.rule("K4", "equivalence test reads both penalty vectors (shared with C19/G3)", 4)
    res.rule("K5", "unified rankings = input buckets + one last bucket of exactly the missing elements", 6)
    res.rule("K7", "the completeness flag PickAPerm's refusal depends on is right for every number of rankings", 1)
    from . import C16
    C16.check_flags_many(res, proj, "K7")
    # K1
    for complete, equiv, want in ((True, True, "ok"), (True, False, "ok"), (False, True, "ok"), (False, False, "raise")):
        st, cap, log, ds, scheme = _world(proj, comp, [2.0, 1.0], complete, equiv, True)
        got = st[0]
        detail = f"complete={complete} equivalent-to-unifying={equiv}: {st!r}"
        good = got == want
        if want == "raise":
            good = good and st[1] == "InompleteRankingsIncompatibleWithScoringSchemeException"
        if not complete:
            good = good and log["equiv_args"] == [["UNIFYING"]]
        if log["foreign"]:
            good = False
            detail += f"; scored {log['foreign'][0]}, which is not a candidate (input rankings when complete, unified rankings otherwise)"
        if got == "ok":
            pre = "R" if complete else "U"
            good = good and cap.get("consensus_rankings") == [f"{pre}1"]
        res.check(good, "K1", f"PickAPerm.compute_consensus_rankings:guard:complete={complete},equiv={equiv}",
                  comp.loc(), ok_detail=detail + (" on " + ("rankings" if complete else "unified rankings") if got == "ok" else ""),
                  bad_detail=detail + f"; expected {want}; equivalence asked against {log['equiv_args']!r}; "
                                      f"returned {cap.get('consensus_rankings')!r}")
    check_scan(res, proj, "K2")
    _check_long(res, proj, comp)
    from . import C19
    C19.check_equivalence(res, proj, False, "K4")
    check_unified(res, proj, "K5")
    res.not_decided.append("numeric value of the Kemeny score of each candidate (C01)")
    if not res.violations:      # the end-to-end pass adds nothing to an established violation (and may not terminate on it)
        from . import e2e
        e2e.check(res, ctx.proj, "C10", ctx.thorough)
    return res


def check_unified(res: Result, proj: Project, rule: str):
    """Dataset.unified_rankings evaluated on real instances, also after mutations of the same dataset object (a
    cached result must not go stale)."""
    from .datamodel import World
    w = World(proj)
    f = proj.method(w.D, "unified_rankings")
    res.saw(f)

    def want_for(raws):
        uni = set()
        for r in raws:
            for b in r:
                uni |= b
        return [[set(b) for b in r] + ([uni - (set().union(*r) if r else set())] if uni - (set().union(*r) if r else set()) else [])
                for r in raws]

    def check(d, label_raws):
        cur = w.raw_dataset(d)
        st, ur = w.safe("unified_rankings", w.call, d, "unified_rankings")
        want = want_for(cur)
        probs = []
        if st != "ok":
            return [f"raised {ur}"]
        got = [w.raw_ranking(r) for r in ur]
        if got != want:
            probs.append(f"unified rankings {got}, expected {want}")
        for i, r in enumerate(ur):
            probs.extend(w.ranking_problems(r, f"unified ranking#{i}"))
            if any(r is x for x in d.attrs["_rankings"]):
                probs.append("a unified ranking is the dataset's own Ranking object")
        if w.raw_dataset(d) != cur:
            probs.append("the dataset's own rankings were modified")
        return probs
    cases = [
        ("incomplete", [[{"a"}, {"b", "c"}], [{"d"}], [{"a", "b", "c", "d"}], []]),
        ("complete", [[{"a"}, {"b"}], [{"b", "a"}]]),
        ("single-missing", [[{"c"}, {"a"}], [{"b"}]]),
        # ties before the last bucket: positions run ahead of the number of buckets
        ("tie-before-last-bucket", [[{"a", "b"}, {"c"}], [{"d"}, {"a"}]]),
        ("big-first-bucket", [[{"a", "b", "c"}, {"d"}], [{"e"}], [{"a"}, {"b", "c", "d"}, {"e"}]]),
    ]
    for label, raws in cases:
        d = w.dataset(raws)
        probs = check(d, raws)
        res.check(not probs, rule, f"Dataset.unified_rankings:{label}", f.loc(),
                  ok_detail="buckets kept in order, one last bucket with exactly the missing elements, new Ranking objects",
                  bad_detail=f"rankings {raws}: " + "; ".join(probs[:2]))
    # same object, unify -> mutate -> unify again
    hist = [("remove_empty_rankings", []), ("remove_elements", [{w.element("d")}])]
    d = w.dataset([[{"a"}, {"b", "c"}], [], [{"d"}], [{"c"}, {"a"}]])
    probs = check(d, None)
    for op, args in hist:
        st, _ = w.safe(op, w.call, d, op, *args)
        p2 = check(d, None)
        if p2:
            probs.append(f"after {op}: {p2[0]}")
    res.check(not probs, rule, "Dataset.unified_rankings:after-mutations-of-the-same-dataset", f.loc(),
              ok_detail="recomputed from the current rankings after remove_empty_rankings / remove_elements",
              bad_detail="; ".join(probs[:2]))


def _deep(v):
    if isinstance(v, list):
        return [_deep(x) for x in v]
    if isinstance(v, set):
        return set(v)
    if isinstance(v, dict):
        return {k: _deep(x) for k, x in v.items()}
    if isinstance(v, Obj):
        o = Obj(v.name, {k: _deep(x) for k, x in v.attrs.items()}, dict(v.methods))
        return o
    return v

"""
C10 - PickAPerm returns exactly the best input rankings.

K1  guard: refusal iff the dataset is incomplete and the scheme is not equivalent to the unifying scheme; candidates
    are the unified rankings when incomplete, the rankings themselves when complete.
K2  argmin scan: abstract evaluation of compute_consensus_rankings over the 13 weak orderings of three candidate
    scores (plus a 4-candidate profile), both values of return_at_most_one_ranking: returned rankings are exactly
    the minimal candidates (one of them when at most one is requested).
K3  every candidate is scored against the caller's dataset with the caller's scheme; the reported score is the
    minimum; the Consensus carries the caller's dataset and scheme.
K4  the equivalence test the guard relies on reads both penalty vectors (shared obligation C19/G3).
K5  unified candidates: Dataset.unified_rankings appends exactly the missing elements as one last bucket of a new
    Ranking (abstract evaluation on small datasets).
"""
from __future__ import annotations

import ast
from typing import Dict, List

from ..loader import AnalysisError, Project, src, dotted
from ..report import Result
from ..engines.abseval import Evaluator, Sym, Obj, Unsupported, AbsRaise
from .. import spec

MOD = "corankco.algorithms.pickaperm.pickaperm"


def _world(proj: Project, comp, scores: List[float], complete: bool, equiv: bool, at_most_one: bool):
    n = len(scores)
    plain = [f"R{i}" for i in range(n)]
    unified = [f"U{i}" for i in range(n)]
    log = {"scored": [], "equiv_args": [], "scheme_for_factory": []}

    def is_eq(ev, call, a, kw):
        log["equiv_args"].append(a)
        return equiv
    scheme = Obj("SCHEME", methods={"is_equivalent_to": is_eq})
    ds = Obj("DS", {"is_complete": complete, "rankings": plain},
             {"unified_rankings": lambda ev, call, a, kw: unified})

    def factory(ev, call):
        a = [ev.ev(x) for x in call.args]
        log["scheme_for_factory"].append(a)

        def gks(ev2, c2, a2, k2):
            log["scored"].append(a2)
            r = a2[0]
            if not (isinstance(r, str) and r[1:].isdigit()):
                raise Unsupported("scored object is not a candidate ranking", c2)
            return scores[int(r[1:])]
        return Obj("KCF", methods={"get_kemeny_score": gks})
    captured: Dict = {}

    def consensus(ev, call):
        names = ["consensus_rankings", "dataset", "scoring_scheme", "att"]
        kw = {k.arg: ev.ev(k.value) for k in call.keywords}
        for i, a in enumerate(call.args):
            kw[names[i]] = ev.ev(a)
        captured.update(kw)
        return "CONSENSUS"
    funcs = {"KemenyComputingFactory": factory, "Consensus": consensus,
             "ScoringScheme.get_unifying_scoring_scheme": lambda ev, call: "UNIFYING",
             ".get_full_name": lambda ev, call: "NAME"}
    evl = Evaluator({}, funcs)
    evl.attr_fallback = lambda d: d if d.startswith("ConsensusFeature.") else None
    try:
        ret = evl.call_user(comp.node, [Sym("SELF"), ds, scheme, at_most_one])
    except AbsRaise as r:
        return ("raise", r.exc_name.split(".")[-1]), captured, log, ds, scheme
    except Unsupported as exc:
        raise AnalysisError(f"{comp.qualname}: unsupported construct line {getattr(exc.node, 'lineno', '?')}: {exc}")
    return ("ok", ret), captured, log, ds, scheme


def check_scan(res: Result, proj: Project, rule: str = "K2"):
    cls = proj.cls(MOD, "PickAPerm")
    comp = proj.method(cls, "compute_consensus_rankings")
    res.saw(comp)
    profiles = [list(map(float, p)) for p in spec.WEAK_ORDERS_3] + [[3.0, 1.0, 1.0, 2.0], [4.0]]
    bad = None
    bad_ctx = None
    n = 0
    for prof in profiles:
        for amo in (True, False):
            for complete in (True, False):
                n += 1
                st, cap, log, ds, scheme = _world(proj, comp, prof, complete, True, amo)
                pre = "R" if complete else "U"
                minimal = [f"{pre}{i}" for i, s in enumerate(prof) if s == min(prof)]
                got = cap.get("consensus_rankings")
                att = cap.get("att") or {}
                if amo:
                    ok = isinstance(got, list) and len(got) == 1 and got[0] in minimal
                else:
                    ok = isinstance(got, list) and sorted(got) == sorted(minimal)
                ok = ok and st == ("ok", "CONSENSUS") and att.get("ConsensusFeature.KEMENY_SCORE") == min(prof)
                if not ok and bad is None:
                    bad = (prof, amo, complete, got, att.get("ConsensusFeature.KEMENY_SCORE"), minimal)
                ctx_ok = cap.get("dataset") is ds and cap.get("scoring_scheme") is scheme \
                    and all(len(a) == 2 and a[1] is ds for a in log["scored"]) \
                    and all(len(a) == 1 and a[0] is scheme for a in log["scheme_for_factory"]) \
                    and sorted(a[0] for a in log["scored"]) == sorted(f"{pre}{i}" for i in range(len(prof)))
                if not ctx_ok and bad_ctx is None:
                    bad_ctx = (prof, complete, log["scored"], log["scheme_for_factory"], cap.get("dataset"))
    res.check(bad is None, rule, "PickAPerm.compute_consensus_rankings:argmin-scan", comp.loc(),
              ok_detail=f"{n} worlds: returns exactly the minimal candidates (one when at most one is asked) and "
                        f"reports their score",
              bad_detail=(f"candidate scores {bad[0]} at_most_one={bad[1]} complete={bad[2]}: returned {bad[3]!r} with "
                          f"reported score {bad[4]!r}; minimal candidates are {bad[5]}") if bad else "")
    res.check(bad_ctx is None, "K3" if rule == "K2" else rule, "PickAPerm.compute_consensus_rankings:scored-against-caller",
              comp.loc(), ok_detail="every candidate scored once against the caller's dataset under the caller's scheme",
              bad_detail=(f"scores {bad_ctx[0]} complete={bad_ctx[1]}: scoring calls {bad_ctx[2]!r}, factory args "
                          f"{bad_ctx[3]!r}, Consensus dataset {bad_ctx[4]!r}") if bad_ctx else "")


def run(ctx) -> Result:
    res = Result("C10")
    proj = ctx.proj
    cls = proj.cls(MOD, "PickAPerm")
    comp = proj.method(cls, "compute_consensus_rankings")
    res.rule("K1", "refusal iff incomplete and not equivalent to the unifying scheme; candidate list choice", 4)
    res.rule("K2", "argmin scan over all weak orderings of candidate scores", 1)
    res.rule("K3", "candidates scored against the caller's dataset and scheme; Consensus carries them", 1)
    res.rule("K4", "equivalence test reads both penalty vectors (shared with C19/G3)", 4)
    res.rule("K5", "unified rankings = input buckets + one last bucket of exactly the missing elements", 3)
    # K1
    for complete, equiv, want in ((True, True, "ok"), (True, False, "ok"), (False, True, "ok"), (False, False, "raise")):
        st, cap, log, ds, scheme = _world(proj, comp, [2.0, 1.0], complete, equiv, True)
        got = st[0]
        detail = f"complete={complete} equivalent-to-unifying={equiv}: {st!r}"
        good = got == want
        if want == "raise":
            good = good and st[1] == "InompleteRankingsIncompatibleWithScoringSchemeException"
        if not complete:
            good = good and log["equiv_args"] == [["UNIFYING"]]
        if got == "ok":
            pre = "R" if complete else "U"
            good = good and cap.get("consensus_rankings") == [f"{pre}1"]
        res.check(good, "K1", f"PickAPerm.compute_consensus_rankings:guard:complete={complete},equiv={equiv}",
                  comp.loc(), ok_detail=detail + (" on " + ("rankings" if complete else "unified rankings") if got == "ok" else ""),
                  bad_detail=detail + f"; expected {want}; equivalence asked against {log['equiv_args']!r}; "
                                      f"returned {cap.get('consensus_rankings')!r}")
    check_scan(res, proj, "K2")
    from . import C19
    C19.check_equivalence(res, proj, False, "K4")
    check_unified(res, proj, "K5")
    res.not_decided.append("numeric value of the Kemeny score of each candidate (C01)")
    return res


def check_unified(res: Result, proj: Project, rule: str):
    """Dataset.unified_rankings evaluated abstractly on small datasets."""
    ds_cls = proj.cls("corankco.dataset", "Dataset")
    f = proj.method(ds_cls, "unified_rankings")
    res.saw(f)
    cases = [
        ("incomplete", ["a", "b", "c", "d"], [[{"a"}, {"b", "c"}], [{"d"}], [{"a", "b", "c", "d"}], []]),
        ("complete", ["a", "b"], [[{"a"}, {"b"}], [{"b", "a"}]]),
        ("single-missing", ["a", "b", "c"], [[{"c"}, {"a"}]]),
    ]
    for label, elems, rankings in cases:
        robjs = []
        for r in rankings:
            buckets = [set(b) for b in r]
            robjs.append(Obj("RANKING", {"buckets": buckets, "domain": set().union(*r) if r else set()}))
        created = []

        def ranking_ctor(ev, call, created=created):
            b = ev.ev(call.args[0])
            o = Obj("NEW", {"buckets": b, "domain": set().union(*b) if b else set()})
            created.append(o)
            return o

        def deepcopy(ev, call):
            v = ev.ev(call.args[0])
            return _deep(v)
        me = Obj("DS", {"rankings": robjs, "_rankings": robjs, "_mapping_element_id": {e: i for i, e in enumerate(elems)},
                        "mapping_elem_id": {e: i for i, e in enumerate(elems)}, "universe": set(elems)})
        evl = Evaluator({}, {"Ranking": ranking_ctor, "copy.deepcopy": deepcopy, "deepcopy": deepcopy})
        try:
            ret = evl.call_user(f.node, [me])
        except Unsupported as exc:
            raise AnalysisError(f"{f.qualname}: unsupported construct line {getattr(exc.node, 'lineno', '?')}: {exc}")
        want = []
        for r in rankings:
            dom = set().union(*r) if r else set()
            miss = set(elems) - dom
            want.append([set(b) for b in r] + ([miss] if miss else []))
        got = None
        fresh = False
        if isinstance(ret, list) and all(isinstance(o, Obj) for o in ret):
            got = [o.attrs["buckets"] for o in ret]
            # every returned ranking is a freshly *constructed* Ranking (so positions are computed from all buckets)
            fresh = all(o in created for o in ret)
        untouched = [o.attrs["buckets"] for o in robjs] == [[set(b) for b in r] for r in rankings]
        res.check(got == want and fresh and untouched, rule, f"Dataset.unified_rankings:{label}", f.loc(),
                  ok_detail="buckets kept in order, one last bucket with exactly the missing elements, new Ranking objects",
                  bad_detail=f"rankings {rankings} over {elems}: got {got!r} (constructed anew: {fresh}, input untouched: "
                             f"{untouched}), expected {want!r}")


def _deep(v):
    if isinstance(v, list):
        return [_deep(x) for x in v]
    if isinstance(v, set):
        return set(v)
    if isinstance(v, dict):
        return {k: _deep(x) for k, x in v.items()}
    if isinstance(v, Obj):
        o = Obj(v.name, {k: _deep(x) for k, x in v.attrs.items()}, dict(v.methods))
        return o
    return v

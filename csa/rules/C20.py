"""
C20 - random dataset generators deliver valid datasets of the requested shape.

M1  density: each Markov step (`__step_element_complete` with each draw 1..4, `__step_element_incomplete` with each draw
    1..5) abstractly evaluated from *every* dense bucket-id vector of <= 4 elements (incomplete mode: every vector with
    unranked entries -1 as well) and every element: the ranked ids stay exactly 0..max, no id < -1 appears, and no array
    is indexed out of range.  By induction every walk stays dense.
M2  complete mode never unranks an element; incomplete mode keeps the `missing` set equal to the unranked elements.
M3  dispatch: the draws come from randint(1, 4) / randint(1, 5) and the element from randint(0, n - 1), `steps` times.
M4  conversion: a dense vector becomes max+1 non-empty disjoint buckets over exactly its ranked elements, one Ranking
    per row, rows start as 0..n-1; uniform permutations are shuffles of 1..n as singleton buckets, one per request.
M5  dataset wrappers pass their arguments through and build the result with the Dataset constructor.
"""
from __future__ import annotations

import itertools
from typing import Dict, List, Optional, Set

from ..loader import AnalysisError, Project
from ..report import Result
from ..engines.abseval import Evaluator, Sym, Obj, Vec, Mat, Unsupported, IndexOut, AbsRaise
from . import bioc

MOD = "corankco.ranking"
MOVES = ["__add_left", "__add_right", "__change_left", "__change_right", "__remove_element", "__put_element_first"]


def np_hooks() -> Dict:
    def np_sum(ev, call):
        v = ev.ev(call.args[0])
        if isinstance(v, Vec):
            return sum(1 if x is True else (0 if x is False else x) for x in v.vals)
        raise Unsupported("sum operand", call)

    def np_max(ev, call):
        v = ev.ev(call.args[0])
        v = v.vals if isinstance(v, Vec) else v
        if not v:
            raise Unsupported("max of empty array", call)
        return max(v)

    def np_zeros(ev, call):
        shape = ev.ev(call.args[0])
        if isinstance(shape, tuple) and len(shape) == 2:
            return Mat([[0] * shape[1] for _ in range(shape[0])])
        if isinstance(shape, int):
            return Vec([0] * shape)
        raise Unsupported("zeros shape", call)

    def np_arange(ev, call):
        return list(range(ev.ev(call.args[0])))
    return {}       # the shared numpy stand-ins (engines/stdlib.py) are used: they accept every call form


def random_hooks(log: Dict, elem_script, move_script, in_step=None) -> Dict:
    """Scripted integer draws, whatever their source: `random.randint(a, b)` (both bounds included) and
    `numpy.random.randint(lo, hi[, size])` (upper bound excluded; several draws at once). `log["randint"]` records the
    inclusive range of every single draw, `log["moves"]` those drawn while a step routine is running (the choice of the
    move; the other draws choose elements). The scripted value is brought back into the range (the real functions refuse
    an empty range with ValueError)."""
    from ..engines.abseval import AbsRaise
    el, mv = iter(elem_script), iter(move_script)

    def one(lo, hi, call):
        if hi < lo:
            raise AbsRaise("ValueError", call)
        inside = bool(in_step and in_step[0])
        log.setdefault("moves" if inside else "randint", []).append((lo, hi))
        try:
            v = next(mv if inside else el)
        except StopIteration:
            raise Unsupported("more random draws than scripted", call)
        return min(max(v, lo), hi)

    def args_of(ev, call):
        a = [ev.ev(x) for x in call.args]
        kw = {k.arg: ev.ev(k.value) for k in call.keywords}
        return a, kw

    def py_randint(ev, call):
        a, kw = args_of(ev, call)
        return one(a[0], a[1], call)

    def np_randint(ev, call):
        a, kw = args_of(ev, call)
        lo = a[0] if a else kw.get("low")
        hi = a[1] if len(a) > 1 else kw.get("high")
        size = a[2] if len(a) > 2 else kw.get("size")
        if hi is None:
            lo, hi = 0, lo
        if size is None:
            return one(lo, hi - 1, call)
        if not isinstance(size, int):
            raise Unsupported("numpy.random.randint with a shape", call)
        if size == 0:
            return Vec([])
        return Vec([one(lo, hi - 1, call) for _ in range(size)])
    out = {"randint": py_randint, "random.randint": py_randint}
    for mod in ("np.random", "numpy.random"):
        out[mod + ".randint"] = np_randint
    return out


def is_dense(vals: List[int]) -> bool:
    ranked = [v for v in vals if v >= 0]
    if any(v < -1 for v in vals):
        return False
    return sorted(set(ranked)) == list(range(len(set(ranked))))


def states(n: int, incomplete: bool):
    """Dense vectors over n elements; with -1 entries when incomplete."""
    if not incomplete:
        yield from bioc.dense_vectors(n)
        return
    for mask in itertools.product((False, True), repeat=n):
        ranked = [i for i in range(n) if not mask[i]]
        if not ranked:
            yield [-1] * n
            continue
        for dv in bioc.dense_vectors(len(ranked)):
            v = [-1] * n
            for i, x in zip(ranked, dv):
                v[i] = x
            yield v


def find_role(proj: Project, cls, name: str, optional: bool = False):
    """The routine playing role `name` (e.g. '__add_left'): a method of the class under that name, or - after a
    refactoring that moved the private helpers out of the class - a module-level function of the same module whose name
    differs only by leading underscores."""
    f = proj.lookup_method(cls, name)
    if f is not None:
        return f
    stem = name.lstrip("_")
    cands = [g for n_, g in cls.module.functions.items() if n_.lstrip("_") == stem]
    if len(cands) == 1:
        return cands[0]
    f = proj._recover_anchor(cls, name)
    if f is not None or optional:
        return f
    raise AnalysisError(f"anchor routine {cls.qualname}.{name} not found (neither as a method nor as a function of "
                        f"{cls.module.name})")


class StepSim:
    def __init__(self, proj: Project):
        self.cls = proj.cls(MOD, "Ranking")
        self.fn = {m: find_role(proj, self.cls, m) for m in MOVES + ["__step_element_complete", "__step_element_incomplete"]}
        # the per-ranking walk drivers are optional: a generator that loops over the steps itself has none
        for m in ("__change_ranking_complete", "__change_ranking_incomplete"):
            f = find_role(proj, self.cls, m, optional=True)
            if f is not None and f not in self.fn.values():
                self.fn[m] = f

    def funcs(self, elem_draws: List[int], move_draws: List[int], log: Dict) -> Dict:
        funcs = np_hooks()
        depth = [0]
        funcs.update(random_hooks(log, elem_draws, move_draws, depth))
        for m in self.fn:
            def hook(ev, call, m=m):
                log.setdefault("calls", []).append(m)
                args = [ev.ev(a) for a in call.args]       # (an element drawn in the argument list is drawn outside)
                if m.startswith("__step_element"):
                    depth[0] += 1
                try:
                    return ev.call_user(self.fn[m].node, args)
                finally:
                    if m.startswith("__step_element"):
                        depth[0] -= 1
            funcs["Ranking." + m] = hook
            funcs["Ranking._Ranking" + m] = hook
            funcs[self.fn[m].name] = hook                   # module-level form
            funcs["Ranking." + self.fn[m].name] = hook      # same routine under today's name
            funcs["Ranking._Ranking" + self.fn[m].name] = hook
        return funcs

    def step(self, mode: str, vec: List[int], elem: int, draw: int):
        log: Dict = {}
        v = Vec(list(vec))
        funcs = self.funcs([], [], log)
        funcs.update(random_hooks(log, [], [draw], [1]))        # the step routine is entered directly: every draw is a move draw
        evl = Evaluator({}, funcs)
        evl.strict_index = True
        missing: Set[int] = {i for i, x in enumerate(vec) if x < 0}
        try:
            if mode == "complete":
                evl.call_user(self.fn["__step_element_complete"].node, [v, elem])
            else:
                evl.call_user(self.fn["__step_element_incomplete"].node, [v, elem, missing])
        except IndexOut as exc:
            return None, missing, log, f"array indexed out of range at line {getattr(exc.node, 'lineno', '?')}: {exc}"
        except Unsupported as exc:
            raise AnalysisError(f"{MOD}: unsupported construct at line {getattr(exc.node, 'lineno', '?')} in a Markov "
                                f"step on {vec}: {exc}")
        return list(v.vals), missing, log, None


def run(ctx) -> Result:
    res = Result("C20")
    proj = ctx.proj
    sim = StepSim(proj)
    for f in sim.fn.values():
        res.saw(f)
    res.rule("M1", "every Markov step maps a dense bucket-id vector to a dense one (all vectors of <= 4 elements, every "
                   "element, every draw 0..6)", 14)
    res.rule("M2", "complete mode never unranks; incomplete mode keeps the missing set exact", 2)
    res.rule("M3", "draw ranges and step count (3 elements and a single element)", 5)
    res.rule("M4", "vector -> buckets conversion; uniform permutations", 4)
    res.rule("M5", "dataset wrappers pass arguments through to the generators and the Dataset constructor", 2)
    res.rule("M6", "the Dataset constructor flags m complete rankings as complete (and counts them) for every m of the grid", 1)
    nmax = 5 if ctx.thorough else 4
    # ------------------------------------------------------------------ M1 / M2
    for mode, draws in (("complete", (1, 2, 3, 4, 0, 5, 6)), ("incomplete", (1, 2, 3, 4, 5, 0, 6))):
        bad_missing = None
        n_cases = 0
        for draw in draws:
            bad = None
            extra = [[0, 0, 0, 1, 1, 2], [0, 1, 1, 1, 2, 3], [2, 2, 0, 1, 3, 3], [0, 0, 0, 0, 0, 1], [3, 3, 3, 2, 1, 0, 0],
                     [0, 1, 2, 3, 4, 5, 6], [1, 0, 2, 0, 1, 2, 3]]
            if mode == "incomplete":
                extra = extra + [[-1, 0, 0, 0, 1, -1], [2, -1, 0, 1, 1, 1, -1], [-1, -1, -1, -1, 0, 0], [0, -1, 1, -1, 2, -1, 3]]
            all_states = []
            for n in range(1, nmax + 1):
                if mode == "incomplete" and n == nmax and nmax > 4:
                    continue
                all_states.extend(states(n, mode == "incomplete"))
            for vec in all_states + extra:
                n = len(vec)
                if True:
                    for elem in range(n):
                        n_cases += 1
                        after, missing, log, err = sim.step(mode, vec, elem, draw)
                        if err is not None:
                            bad = bad or (vec, elem, err)
                            continue
                        if not is_dense(after):
                            bad = bad or (vec, elem, f"vector becomes {after}: ranked ids are not exactly 0..max")
                        if mode == "complete" and any(x < 0 for x in after):
                            bad_missing = bad_missing or (vec, elem, draw, f"element unranked in complete mode: {after}")
                        if mode == "incomplete" and missing != {i for i, x in enumerate(after) if x < 0}:
                            bad_missing = bad_missing or (vec, elem, draw, f"missing set {sorted(missing)} but vector {after}")
            res.check(bad is None, "M1", f"Ranking.step:{mode}:draw={draw}", sim.fn[f"__step_element_{mode}"].loc(),
                      ok_detail=f"dense in, dense out for every vector of <= {nmax} elements and every element",
                      bad_detail=(f"vector {bad[0]} element {bad[1]} draw {draw}: {bad[2]}") if bad else "")
        res.check(bad_missing is None, "M2", f"Ranking.step:{mode}:unranked-bookkeeping",
                  sim.fn[f"__step_element_{mode}"].loc(),
                  ok_detail="no element is unranked" if mode == "complete" else "missing set == unranked elements after every step",
                  bad_detail=(f"vector {bad_missing[0]} element {bad_missing[1]} draw {bad_missing[2]}: {bad_missing[3]}")
                  if bad_missing else "")
        res.extra[f"markov_cases_{mode}"] = n_cases
    # ------------------------------------------------------------------ M3
    gen = proj.method(sim.cls, "generate_rankings")
    for mode, hi in (("complete", 4), ("incomplete", 5)):
        for n_el in (3, 1):
            log: Dict = {}
            # two steps: elements 0 then 2, move 3 twice (the order of the draws is decided by the code); the whole
            # generator is evaluated, so the walk may be a helper per ranking or a loop of the generator itself, and the
            # draws may come from random or numpy.random, one at a time or all at once
            funcs = sim.funcs([0, 2], [3, 3], log)
            funcs["Ranking"] = lambda ev, call: ("Ranking", ev.ev(call.args[0]))
            funcs["Element"] = lambda ev, call: ev.ev(call.args[0])
            evl = Evaluator({}, funcs)
            raised = None
            try:
                ret = evl.call_user(gen.node, [n_el, 1, 2, mode == "complete"])
            except AbsRaise as r:
                raised, ret = r.exc_name, None
            except Unsupported as exc:
                raise AnalysisError(f"{gen.qualname}: unsupported construct line {getattr(exc.node, 'lineno', '?')} "
                                    f"(walk of 2 steps on {n_el} element(s), {mode}): {exc}")
            ri = log.get("randint", [])
            calls = [c for c in log.get("calls", []) if c.startswith("__step_element")]
            # what the shape guarantee needs: no draw can fall outside 0..n-1 (elements) or outside the draws M1 / M2
            # examined (0..6 in both modes), no range is empty, and only steps of the requested mode are taken. Narrower ranges
            # and other step counts change the distribution, which the property does not constrain.
            mv = log.get("moves", [])
            good = raised is None and bool(calls) and set(calls) == {f"__step_element_{mode}"} and bool(ri) and bool(mv) and \
                all(0 <= lo and hi_ <= n_el - 1 for lo, hi_ in ri) and all(0 <= lo and hi_ <= 6 for lo, hi_ in mv)
            if n_el == 1:
                good = good and ret == [("Ranking", [{0}])]
            res.check(good, "M3", f"Ranking.generate_rankings:walk:{mode}:n={n_el}:draws", gen.loc(),
                      ok_detail="steps of the requested mode only, elements drawn within 0..n-1, moves within the examined draws 0..6",
                      bad_detail=f"2 steps on {n_el} element(s): " + (f"raised {raised}; " if raised else "") +
                                 f"element draws over the ranges {ri}, move draws over {mv}, steps {calls}" + (f", result {ret!r}" if n_el == 1 else ""))
    # every draw value selects a move (no draw falls through silently in complete mode)
    hit = set()
    for draw in (1, 2, 3, 4):
        _after, _m, log, _err = sim.step("complete", [0, 0, 1, 1], 1, draw)
        moved = [c for c in log.get("calls", []) if c in MOVES]
        if len(moved) == 1:
            hit.add(moved[0])
    res.check(hit == {"__add_left", "__add_right", "__change_left", "__change_right"}, "M3",
              "Ranking.__step_element_complete:dispatch", sim.fn["__step_element_complete"].loc(),
              ok_detail="draws 1..4 select the four complete-mode moves", bad_detail=f"draws 1..4 reach {sorted(hit)}")

    # ------------------------------------------------------------------ M4
    _check_conversion(res, proj, sim)
    _check_uniform(res, proj)
    # ------------------------------------------------------------------ M5
    _check_wrappers(res, proj)
    from . import C16
    C16.check_flags_many(res, proj, "M6")
    res.not_decided.append("the distribution of the generated rankings (probabilistic)")
    res.not_decided.append("n = 0 (numpy max of an empty array) - outside the stated grid")
    return res


def _check_conversion(res: Result, proj: Project, sim: StepSim):
    cls = proj.cls(MOD, "Ranking")
    gen = proj.method(cls, "generate_rankings")
    res.saw(gen)
    for complete, targets in ((True, [[1, 0, 1], [0, 1, 2]]), (False, [[-1, 0, 0], [1, -1, 0], [-1, -1, -1]])):
        log: Dict = {"initial": [], "steps": [], "draws": []}
        funcs = np_hooks()
        rows_seen: Dict[int, int] = {}
        keep = []

        def step(ev, call, complete=complete):
            # one Markov step, scripted: whatever the element, the row becomes the target vector of its ranking (the
            # first step on a row sees the initial row and the initial working set of non-ranked elements)
            a = [ev.ev(x) for x in call.args]
            row = a[0]
            key = id(row.vals) if isinstance(row, Vec) else id(row)
            if key not in rows_seen:
                keep.append(row)
                rows_seen[key] = len(rows_seen)
                log["initial"].append(list(row.vals) if isinstance(row, Vec) else list(row))
                log["steps"].append(0)
                if len(a) > 2 and isinstance(a[2], set):
                    log.setdefault("missing_at_start", []).append(set(a[2]))
            k = rows_seen[key]
            log["steps"][k] += 1
            if k >= len(targets):
                return None
            miss = a[2] if len(a) > 2 else None
            if isinstance(miss, set):
                miss.clear()
                miss.update(i for i, x in enumerate(targets[k]) if x < 0)
            cells = row.vals if isinstance(row, Vec) else row
            for i, x in enumerate(targets[k]):
                cells[i] = x

        rlog: Dict = {}
        funcs.update(random_hooks(rlog, itertools.repeat(0), itertools.repeat(1)))
        log["draws"] = rlog.setdefault("randint", [])
        other_called = []
        for role, hook in (("__step_element_complete", step if complete else (lambda ev, call: other_called.append(1))),
                           ("__step_element_incomplete", step if not complete else (lambda ev, call: other_called.append(1)))):
            funcs["Ranking." + role] = hook
            funcs["Ranking._Ranking" + role] = hook
            funcs[sim.fn[role].name] = hook             # module-level form after a move out of the class
            funcs["Ranking." + sim.fn[role].name] = hook
            funcs["Ranking._Ranking" + sim.fn[role].name] = hook
        for role in ("__change_ranking_complete", "__change_ranking_incomplete"):
            if role in sim.fn:
                def walk(ev, call, role=role):
                    return ev.call_user(sim.fn[role].node, [ev.ev(x) for x in call.args])
                for nm in {role, sim.fn[role].name}:
                    funcs["Ranking." + nm] = walk
                    funcs["Ranking._Ranking" + nm] = walk
                funcs[sim.fn[role].name] = walk
        funcs["Ranking"] = lambda ev, call: ("Ranking", ev.ev(call.args[0]))
        funcs["Element"] = lambda ev, call: ev.ev(call.args[0])
        evl = Evaluator({}, funcs)
        try:
            ret = evl.call_user(gen.node, [3, len(targets), 7, complete])
        except IndexOut as exc:
            ret = f"raised IndexError ({exc})"
        except Unsupported as exc:
            raise AnalysisError(f"{gen.qualname}: unsupported construct line {getattr(exc.node, 'lineno', '?')}: {exc}")
        except AbsRaise as r:
            ret = f"raised {r.exc_name} (line {getattr(r.node, 'lineno', '?')})"
        want = []
        for t in targets:
            if max(t) < 0:
                continue
            buckets = [set() for _ in range(max(t) + 1)]
            for e, b in enumerate(t):
                if b >= 0:
                    buckets[b].add(e)
            want.append(("Ranking", buckets))
        good = ret == want and log["initial"] == [[0, 1, 2]] * len(targets) and not other_called \
            and all(k >= 1 for k in log["steps"]) and len(log["steps"]) == len(targets) \
            and all(lo == 0 and hi_ <= 2 for lo, hi_ in log["draws"]) \
            and all(not m_ for m_ in log.get("missing_at_start", []))
        res.check(good, "M4", f"Ranking.generate_rankings:conversion:complete={complete}", gen.loc(),
                  ok_detail="rows start as 0..n-1, the walk for the requested mode is applied, ids become buckets over "
                            "exactly the ranked elements",
                  bad_detail=f"final vectors {targets}: produced {ret!r}, expected {want!r}; initial rows {log['initial']}; "
                             f"steps per ranking {log['steps']} (7 requested); element draws {sorted(set(log['draws']))}; non-ranked elements at the start of each walk "
                             f"{log.get('missing_at_start')}; other mode called: {bool(other_called)}")


def _check_uniform(res: Result, proj: Project):
    cls = proj.cls(MOD, "Ranking")
    up = proj.method(cls, "uniform_permutations")
    res.saw(up)
    shuffles = []

    def shuffle(ev, call):
        lst = ev.ev(call.args[0])
        shuffles.append(list(lst))
        lst.reverse()
    funcs = {"shuffle": shuffle, "random.shuffle": shuffle, "Ranking": lambda ev, call: ("Ranking", ev.ev(call.args[0])),
             "Element": lambda ev, call: ev.ev(call.args[0])}
    evl = Evaluator({}, funcs)
    try:
        ret = evl.call_user(up.node, [4, 3])
    except Unsupported as exc:
        raise AnalysisError(f"{up.qualname}: unsupported construct line {getattr(exc.node, 'lineno', '?')}: {exc}")

    def well_formed(ret_, n_, m_):
        return isinstance(ret_, list) and len(ret_) == m_ and all(
            isinstance(r, tuple) and r[0] == "Ranking" and isinstance(r[1], list) and len(r[1]) == n_
            and all(isinstance(b, set) and len(b) == 1 for b in r[1])
            and set().union(*r[1]) == set(range(1, n_ + 1)) for r in ret_)
    # whatever the source of randomness (python shuffle scripted as a reversal, or the numpy sources of the shared model)
    res.check(well_formed(ret, 4, 3), "M4", "Ranking.uniform_permutations", up.loc(),
              ok_detail="each ranking is a permutation of 1..n as singleton buckets; one per requested ranking",
              bad_detail=f"n=4, 3 rankings: produced {ret!r}" + (f"; shuffled lists {shuffles}" if shuffles else ""))
    evl = Evaluator({}, funcs)
    ret0 = evl.call_user(up.node, [1, 1])
    res.check(ret0 == [("Ranking", [{1}])], "M4", "Ranking.uniform_permutations:n=1", up.loc(),
              ok_detail="single element", bad_detail=f"produced {ret0!r}")


def _check_wrappers(res: Result, proj: Project):
    ds = proj.cls("corankco.dataset", "Dataset")
    for name, gen_name, args, want_args in (
            ("get_random_dataset_markov", "Ranking.generate_rankings", [5, 3, 11, True], [5, 3, 11, True]),
            ("get_random_dataset_markov", "Ranking.generate_rankings", [5, 3, 11], [5, 3, 11, False]),
            ("get_uniform_permutation_dataset", "Ranking.uniform_permutations", [6, 2], [6, 2])):
        f = proj.method(ds, name)
        res.saw(f)
        log = {}

        def gen(ev, call):
            log["gen"] = [ev.ev(a) for a in call.args] + [ev.ev(k.value) for k in call.keywords]
            return "RANKINGS"

        def ctor(ev, call):
            log["ctor"] = [ev.ev(a) for a in call.args]
            return "DATASET"
        evl = Evaluator({}, {gen_name: gen, "Dataset": ctor})
        try:
            ret = evl.call_user(f.node, list(args))
        except Unsupported as exc:
            raise AnalysisError(f"{f.qualname}: unsupported construct: {exc}")
        good = ret == "DATASET" and log.get("gen") == want_args and log.get("ctor") == ["RANKINGS"]
        res.check(good, "M5", f"Dataset.{name}:args={args}", f.loc(),
                  ok_detail=f"Dataset({gen_name}{tuple(want_args)})",
                  bad_detail=f"returns {ret!r}; generator called with {log.get('gen')!r}; Dataset built from {log.get('ctor')!r}")
